#!/bin/bash
# usage: autorun.sh <mode>  -- apply a mechanical refactoring to a scratch worktree, run the suite and all checks
set -u
MODE=$1
WT=$(mktemp -d /tmp/autowt.XXXXXX); rmdir $WT
git -C /repo worktree add -q --detach $WT HEAD
if [ "$MODE" != "none" ]; then /verif/tools/autorefactor.py $MODE $WT || exit 3; fi
( cd $WT && PYTHONPATH=$WT timeout 900 /venv/bin/python -m pytest -q -p no:cacheprovider --timeout=900 -n 6 2>&1 | tail -1 )
for i in $(seq -w 1 20); do
  out=$(/verif/check C$i --quiet --no-evidence --root $WT 2>&1); rc=$?
  [ $rc -ne 0 ] && { echo "== C$i exit=$rc"; echo "$out" | grep -E "VIOLATED|ANALYSIS-ERROR|floor" | cut -c1-330 | head -8; }
done
git -C /repo worktree remove --force $WT
