#!/venv/bin/python
"""debug: run one property on the helper-inlined form only.  usage: runexp.py PID [root]"""
import sys, importlib
sys.path.insert(0, '/verif')
from darrlint.report import Ctx, VIOLATED
from darrlint.srcmodel import AnalysisError
pid = sys.argv[1]
root = sys.argv[2] if len(sys.argv) > 2 else '/repo'
mod = importlib.import_module(f'darrlint.props.{pid}')
c = Ctx(root, 'quick', 0, expand=True)
print('inlined:', c.repo.expanded)
try:
    if hasattr(mod, 'pre'):
        mod.pre(c)
    mod.run(c)
except AnalysisError as e:
    print('ANALYSIS-ERROR', e)
for o in c.obs:
    if o.verdict == VIOLATED:
        print('V', o.where, '|', o.instance[:150], '|', o.detail[:200])
print(len(c.obs), 'obligations', sum(o.verdict == VIOLATED for o in c.obs), 'violated; floors', [x for x in c.floors if x[1] < x[2]])
