#!/venv/bin/python
"""Print the markdown detection matrix (DESIGN §10.6) from seeded/*/meta.json."""
import json, os, re
rows = []
for d in sorted(os.listdir('/verif/seeded')):
    mp = os.path.join('/verif/seeded', d, 'meta.json')
    if not os.path.exists(mp):
        continue
    m = json.load(open(mp))
    notes = m.get('needs_to_manifest', '').strip().splitlines()
    first = next((l.lstrip('# ').strip() for l in notes if l.strip()), '')
    first = first.replace('|', '\\|')[:140]
    if m.get('obsolete'):
        rows.append(f'| {d} | {first} | (obsolete: {str(m["obsolete"])[:60]}) | – |')
        continue
    det = ', '.join(m.get('detected_by', [])) or '—'
    err = m.get('analysis_error_in', [])
    if err:
        det += f' (exit 2 in {len(err)} other check(s))' if len(err) > 3 else ' (exit 2: ' + ', '.join(err) + ')'
    own = 'yes' if m.get('detected_by_own_property_check') else ('exit 2' if m['property'] in err else '**no**')
    rows.append(f'| {d} | {first} | {det} | {own} |')
print('| id | change (first line of the author\'s notes) | reported by | own check |')
print('|---|---|---|---|')
print('\n'.join(rows))
