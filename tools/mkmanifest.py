#!/venv/bin/python
"""Regenerate MANIFEST.json from the per-property table below."""
import json, os
HERE = os.path.dirname(os.path.dirname(os.path.abspath(__file__)))
BASE = "cd /repo && /venv/bin/python -m pytest -ra -q -p no:cacheprovider --timeout=900 --continue-on-collection-errors"

# pid -> (technique, level text, level note (undecided residue / trusted base), design ref)
CHECKS = {
 'C11': ("gate-dominance over call graph + statement CFGs (AST), def-use of the mode into handles",
         "static analysis: every public mutating entry point of Array/RaggedArray/MetaData is computed from the resolved call graph; for every reachable file-system effect the CFGs along the call chain are searched for a gate-free path; the writeable-flag gate's soundness, mode propagation to sub-handles, constant 'r+' overrides and defaults are decided as separate obligations. All paths of all entry points are covered, which the five sampled cells of the test matrix cannot give.",
         "decides the gate discipline, not behaviour: byte-identity of the directory after a rejected call and success after switching to 'r+' are not decided. Trusted: primitive-effect table; that writes through handles opened with the handle's mode are refused by the OS/NumPy.",
         "DESIGN.md section 4 C11"),
}
NOT_BUILT = "check not built yet (see DESIGN.md section 9 for the order of work)"

def main():
    checks = []
    for pid in sorted(CHECKS):
        tech, text, note, ref = CHECKS[pid]
        checks.append({
            "property_id": pid,
            "quick_cmd": f"./check {pid} --tier quick --quiet",
            "thorough_cmd": f"./check {pid} --tier thorough --quiet",
            "evidence_file": f"evidence/{pid}.json",
            "replay_cmd_template": f"./check {pid} --explain {{path}}",
            "engine": "darrlint",
            "level_claimed": {"category": "other", "text": text, "design_ref": ref},
            "level_note": note,
            "technique": tech,
        })
    na = [{"property_id": "C%02d" % i, "reason": NOT_BUILT} for i in range(1, 21) if "C%02d" % i not in CHECKS]
    m = {
     "version": 1,
     "setup_cmd": "true",
     "hooks": {"guard": "DARR_VERIF",
               "enable": "none needed: the checks are static analyses of /repo's working tree; they never import or run darr, so no hook exists in /repo",
               "baseline_off_cmd": BASE, "source_commits": [], "add_only": True},
     "engines": [{"name": "darrlint", "path": "darrlint/", "serves_properties": sorted(CHECKS),
                  "kind_free_text": "repo-specific static analysis under /venv/bin/python (stdlib ast only): source model, receiver-type fixpoint and call resolution, statement CFG with reachability-under-avoidance, primitive-effect/file-role table, rule kinds R-DOM/R-POST/R-ORDER/R-OWN/R-RECOVER/R-ESC/R-PAIR/R-SHARE/R-SIB/R-FLOW/R-TABLE/R-BELIEF, string-template abstract interpretation of the read-code generators with per-language reader models"}],
     "checks": checks,
     "not_applicable": na,
     "notes": "All checks are level 'other': N obligations over M sites discharged by static rules; each property is claimed clause-wise (DESIGN.md section 4 lists decided / not decided per property). Exit 0 ok, 1 VIOLATION, 2 ANALYSIS-ERROR (anchor vanished / floor not met). known_findings.json lists genuine defects (open or fixed).",
    }
    with open(os.path.join(HERE, 'MANIFEST.json'), 'w') as fh:
        json.dump(m, fh, indent=1)
    print('MANIFEST.json:', len(checks), 'checks,', len(na), 'not applicable')

if __name__ == '__main__':
    main()
