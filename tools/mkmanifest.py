#!/venv/bin/python
"""Regenerate MANIFEST.json from the per-property table below."""
import json, os
HERE = os.path.dirname(os.path.dirname(os.path.abspath(__file__)))
BASE = "cd /repo && /venv/bin/python -m pytest -ra -q -p no:cacheprovider --timeout=900 --continue-on-collection-errors"

# pid -> (technique, level text, level note (undecided residue / trusted base), design ref)
CHECKS = {
 'C12': ("def-use identity + escape/taint analysis over `with` blocks + acquire/release pairing (AST/CFG)",
         "static analysis: the index/value reach NumPy unmodified (def-use identity in __getitem__/__setitem__); a taint analysis over every with-block on a map-yielding context manager shows no view of the memory map leaves its context except through a copy; the opener's finally closes map and file and resets the cache on every exit; memmap-only attributes are guarded; the write gate dominates the store; the public contexts forward the mode verbatim. Every block and exit of the package is covered, not a sample of index expressions.",
         "decides the copy/release/delegation discipline, not NumPy's indexing semantics, msync durability or descriptor leaks under interleavings (C19). Trusted: the view/copy classification table of NumPy operations.",
         "DESIGN.md section 4 C12"),
 'C13': ("sibling agreement + constant-folded guard profiles + CFG edge-avoidance reachability + unlink-belief rule",
         "static analysis: every write of metadata.json is guarded by tests that constant-fold to 'dictionary non-empty' and by nothing else (every path that skips the write takes the 'empty' edge); unlink is locally guarded or dominated by an operation proving non-emptiness; no cache; accessors reach the reader; json.dumps precedes the truncating open; verbatim argument forwarding; encoder branches.",
         "decides the persistence discipline, not JSON round-trip equality of values. Trusted: dict.pop/popitem KeyError semantics, json module semantics.",
         "DESIGN.md section 4 C13"),
 'C16': ("who-may-touch over the primitive-effect table with symbolic path roles + overwrite-gate dominance (CFG, call graph)",
         "static analysis: the complete list of unlink/rmdir/rmtree/rename/copytree sites of the package is classified by the symbolic role of the target path against a closed set of owners; listing-driven deletion, swallowed deletion failures, effects before the non-array refusal, creators' effects not dominated by an overwrite gate, non-verbatim overwrite forwarding and non-exclusive archive creation are each decided for all paths.",
         "decides ownership and gate discipline, not byte-identity snapshots or OS behaviour on exotic directory entries. Trusted: primitive-effect table; Path.rmdir refuses non-empty directories; tarfile 'x:' is exclusive.",
         "DESIGN.md section 4 C16"),
 'C17': ("ordering / strictness / ownership rules over CFGs and def-use (must-precede, who-may-write the data file, count provenance)",
         "static analysis of the facts that make every in-between on-disk state rejected at open or legitimate: strict, exact, unavoidable size check before the first map; closed set of data-file writers/resizers; committed counts derived from appender returns; ragged two-file commit order; whole-file rewrites of pre-serialised text; readers never default on an unparsable file.",
         "decides orderings and strictness only; crash points are not enumerated and torn writes are not synthesised. Trusted: a torn JSON write is unparsable.",
         "DESIGN.md section 4 C17"),
 'C18': ("validator-dominance (interprocedural gate analysis per descriptor field) + single-reader who-may-read + size-check strictness",
         "static analysis: for each field class of the descriptor a raising test on the stored field itself lies on every normal path through the (role-inferred) descriptor reader; no handler swallows open/parse errors; the reader is the single consumer; the size check is strict, exact, unavoidable and precedes the first map; delete/truncate by path refuse before any effect; darr.open rejects unknown kinds.",
         "decides presence/placement/strictness of validators, not completeness over every corruption (negative or boolean extents are left to the size check).",
         "DESIGN.md section 4 C18"),
 'C20': ("complete-mediation analysis (guard dominance + def-use identity of the checked and used name) + constant-folded mode classification + normalisation symmetry",
         "static analysis: every public DataDir mutator guards each name it touches, with the same value, on all paths before the use (checking loop completes before list deletion); the guard compares symmetrically normalised paths with containment; its mode condition is constant-folded over all write-capable open modes; private writers keep overwrite gates and are only called with Darr's constant names; the protected set contains every file-name constant.",
         "decides mediation and name-equivalence shape, not round-trip equality of user files or spellings that need the OS to resolve differently (case-insensitive file systems).",
         "DESIGN.md section 4 C20"),
 'C11': ("gate-dominance over call graph + statement CFGs (AST), def-use of the mode into handles",
         "static analysis: every public mutating entry point of Array/RaggedArray/MetaData is computed from the resolved call graph; for every reachable file-system effect the CFGs along the call chain are searched for a gate-free path; the writeable-flag gate's soundness, mode propagation to sub-handles, constant 'r+' overrides and defaults are decided as separate obligations. All paths of all entry points are covered, which the five sampled cells of the test matrix cannot give.",
         "decides the gate discipline, not behaviour: byte-identity of the directory after a rejected call and success after switching to 'r+' are not decided. Trusted: primitive-effect table; that writes through handles opened with the handle's mode are refused by the OS/NumPy.",
         "DESIGN.md section 4 C11"),
}
NOT_BUILT = "check not built yet (see DESIGN.md section 9 for the order of work)"

def main():
    checks = []
    for pid in sorted(CHECKS):
        tech, text, note, ref = CHECKS[pid]
        checks.append({
            "property_id": pid,
            "quick_cmd": f"./check {pid} --tier quick --quiet",
            "thorough_cmd": f"./check {pid} --tier thorough --quiet",
            "evidence_file": f"evidence/{pid}.json",
            "replay_cmd_template": f"./check {pid} --explain {{path}}",
            "engine": "darrlint",
            "level_claimed": {"category": "other", "text": text, "design_ref": ref},
            "level_note": note,
            "technique": tech,
        })
    na = [{"property_id": "C%02d" % i, "reason": NOT_BUILT} for i in range(1, 21) if "C%02d" % i not in CHECKS]
    m = {
     "version": 1,
     "setup_cmd": "true",
     "hooks": {"guard": "DARR_VERIF",
               "enable": "none needed: the checks are static analyses of /repo's working tree; they never import or run darr, so no hook exists in /repo",
               "baseline_off_cmd": BASE, "source_commits": [], "add_only": True},
     "engines": [{"name": "darrlint", "path": "darrlint/", "serves_properties": sorted(CHECKS),
                  "kind_free_text": "repo-specific static analysis under /venv/bin/python (stdlib ast only): source model, receiver-type fixpoint and call resolution, statement CFG with reachability-under-avoidance, primitive-effect/file-role table, rule kinds R-DOM/R-POST/R-ORDER/R-OWN/R-RECOVER/R-ESC/R-PAIR/R-SHARE/R-SIB/R-FLOW/R-TABLE/R-BELIEF, string-template abstract interpretation of the read-code generators with per-language reader models"}],
     "checks": checks,
     "not_applicable": na,
     "notes": "All checks are level 'other': N obligations over M sites discharged by static rules; each property is claimed clause-wise (DESIGN.md section 4 lists decided / not decided per property). Exit 0 ok, 1 VIOLATION, 2 ANALYSIS-ERROR (anchor vanished / floor not met). known_findings.json lists genuine defects (open or fixed).",
    }
    with open(os.path.join(HERE, 'MANIFEST.json'), 'w') as fh:
        json.dump(m, fh, indent=1)
    print('MANIFEST.json:', len(checks), 'checks,', len(na), 'not applicable')

if __name__ == '__main__':
    main()
