#!/venv/bin/python
"""Regenerate MANIFEST.json from the per-property table below."""
import json, os
HERE = os.path.dirname(os.path.dirname(os.path.abspath(__file__)))
BASE = "cd /repo && /venv/bin/python -m pytest -ra -q -p no:cacheprovider --timeout=900 --continue-on-collection-errors"

# pid -> (technique, level text, level note (undecided residue / trusted base), design ref)
CHECKS = {
 'C06': ('string-template analysis: abstract interpretation of the read-code generators over the complete finite input space + per-language reader models (parse emitted text, compare fact sheets)',
         "static analysis: the exact text of every program Darr can emit for Arrays (12 languages x 13 types x 2 byte orders x 1..3 (thorough: 1..4) dimensions x 3 path modes; extents and paths are opaque holes) is computed by interpreting the generators' AST; each program is parsed per language and checked for the path opened, read-only mode, type token, byte-order token, axis order, element count and well-formedness against the reader model; offered/withheld is compared with the two compatibility tables of docs/readcode.rst. The whole program space is covered; the tests look at none of it. Also: the dispatcher takes type/shape/byte order from the re-read description (not from handle caches), no generator consults a property of the generating host, readcodelanguages consults the dispatcher on every call.",
         "trusted base: the reader models (tmpl/langs.py), i.e. my transcription of each language's documented binary-read semantics; the Python-family snippets are parsed, not executed. Behaviour of the foreign interpreters is not decided.",
         'DESIGN.md section 4 C06'),
 'C07': ('string-template analysis of the ragged composers (abstract interpretation with interception of the Array-generator calls) + accessor models (origin, inclusiveness, axis order, placeholders)',
         "static analysis: every composed ragged program (9 languages x 13 value types x 7 index types x atom rank 0..3 x length classes x byte order x path mode) is computed exactly; sub-programs are checked with the C06 fact sheets for the index array (n, 2) and values array (N,)+atom; the accessor's start/end expressions, placeholder count/token/position, explicit empty branches, the example's k and assignment operator, withheld-iff-unreadable and well-formedness are checked against the language models. Also: constructors are effect-free (running the darr read code never changes a file); descriptor source and host independence as in C06.",
         "trusted base: reader/accessor models (tmpl/langs.py, tmpl/ragged.py). Not decided: foreign interpreter behaviour; numeric adequacy of R's 2^31-1 cut-off.",
         'DESIGN.md section 4 C07'),
 'C01': ('gate dominance + def-use/sibling rules over the creation path (AST/CFG/call graph); decision-table evaluation of the byte-order labelling',
         "static analysis of the disciplines creation depends on: supported-type gate dominates every reachable file-system effect; every written chunk is the first chunk or cast to its dtype; every chunk producer converts with the caller's dtype (sibling rule over all yields); length accounting pairs each write with the accumulator; descriptor fields come from the first chunk; the byte-order labelling is evaluated as an 8-cell decision table; fill defaults decided by `is None`.",
         'does not decide bit-pattern equality with the NumPy reference, chunklen-invariance or the fill-function index grid. Trusted: NumPy conversion semantics.',
         'DESIGN.md section 4 C01'),
 'C02': ('table agreement (descriptor key set, value-set propagation of arrayorder, byte-order decision table vs inverse table, docs rows) + who-may-touch the data file + must-follow of the length commit',
         "static analysis: written key set == documented six keys and survives rewrites; arrayorder written is 'C' on every path; closed set of data-file writers with a commit after every length change; committer writes the shape it stores; writer/reader byte-order tables are mutually inverse in all 8 cells; opener branches agree on dtype/shape/order; file names in code == names in README text and docs/design.rst.",
         "does not decide that the bytes decode to the API's values for an independent reader, nor size == prod(shape) x itemsize as a fact about files for all histories.",
         'DESIGN.md section 4 C02'),
 'C03': ('def-use + CFG ordering rules, order-type enumeration of the truncate guard, monomial normal form of the byte count, attribute-ownership of the cached shape',
         'static analysis: cast-and-check before write, seek-end before write, never-truncating open modes, by-path overwrite only when empty, committed count == written count, truncate guard decided on all weak orderings of (0, newlen, len), byte count monomial, cached shape/size/dtype assigned only in __init__ and the committer, recovery handler shape, no unguarded next().',
         'does not decide equality with the NumPy model over whole histories. Trusted: NumPy slicing/casting semantics by delegation.',
         'DESIGN.md section 4 C03'),
 'C04': ('role-resolved def-use rules on the ragged append/indexing/truncate paths + R-FLOW of indextype + order-type enumeration of the shrink guard; path-condition evaluation (CFG pruned by folded branch tests)',
         'static analysis: integer gate dominates the index read; values[slice(*indices[item])] with roles not swapped; index row built from running values length and item length; indextype validated and forwarded to every creation of the indices array; items converted with the array dtype on every path (byte order included); commits and top-level descriptor follow every append; truncate by NumPy slicing of the verbatim index with the guard decided on all order types. Added: truncate guards and the __getitem__ type gate are decided by path conditions (per kind of index: int/NumPy integer accepted, bool/float/slice/str rejected); the values truncation is skipped when only empty subarrays go.',
         'does not decide subarray contents for all k and histories; out-of-range index behaviour is delegated to NumPy.',
         'DESIGN.md section 4 C04'),
 'C05': ('role-resolved R-FLOW / R-POST / R-ORDER rules over the ragged operations + key-set sibling agreement',
         'static analysis: start offset = values length + returned increments; first row [0, len(first)]; descriptor key sets of writer and in-memory dict agree with sources not swapped; every length change is followed on all normal paths by both commits and the top-level descriptor update (len from indices, size from values); shrink order and cut point; no primitive write in raggedarray.py.',
         'does not decide the inductive index-row invariant as a fact about file contents.',
         'DESIGN.md section 4 C05'),
 'C08': ('must-follow of README regeneration after every README-relevant state change (CFG), call-graph-derived dependency of the README on descriptor keys, stale-map / stale-handle typestate, registry agreement',
         'static analysis: committer, asarray and every ragged mutator regenerate the README after their last relevant state change on all normal paths; the ragged README is not generated inside an open sub-array context after a commit nor through a handle whose sub-array was replaced; README language lists equal the registry key sets and use the same dispatcher; metadata callbacks follow every unlink/creating write; wording thresholds equal listing thresholds. Also: the metadata callback is stored by strong reference.',
         'does not decide byte equality of README with a regenerated text.',
         'DESIGN.md section 4 C08'),
 'C09': ('R-RECOVER: lexical try/handler analysis + property-inlined monomial normal form of the recovery truncation + accumulator def-use',
         'static analysis: every data write of iterappend lies in a try whose catch-all handler commits completed chunks, cuts the file to committed element count x item size after the commit and re-raises; accumulator only adds appender returns; checker compares whole trailing shapes without zip truncation or rank promotion and converts on every path; iterable consumption is protected. Also: the committer called by the handler before the file is cut back contains no explicit raise.',
         'does not decide behaviour under real kernel write failures at byte offsets, nor whether the handler itself can complete under the same fault.',
         'DESIGN.md section 4 C09'),
 'C10': ('R-RECOVER over the ragged append sites + validate-before-first-write ordering rules',
         'static analysis: the three ragged write sites are checked for a recovering handler (absent on this code base: three known findings, one per construct); decided in addition: values write precedes index-row write, item length taken from the raw item before the first write, index row shape, counters increased after both writes, checker rules shared with C09. A handler that exists but is wrong (values file cut to rows x itemsize without the atom factor, one file only) is a different construct than the known no-handler findings and is reported.',
         'known findings: no recovery path exists for ragged appends (design-level gap). Does not decide actual failure offsets or index overflow of small index types.',
         'DESIGN.md section 4 C10'),
 'C14': ('taint analysis (copies under held context) + verbatim R-FLOW + order-type enumeration / constant folding of the validation tests; induction over polynomial normal forms for the frame recurrence (darrlint/poly.py)',
         'static analysis of the decided clauses only: iterchunks yields copies of map[framestart:frameend] inside the held context; five frame parameters forwarded verbatim; totallen = endindex - startindex; defaults substituted exactly when None; partial-frame guard depends on the covered length; iterindices raises exactly when not (0 <= start < end <= n) on all weak orderings; fit_frames validation folded over sample values and preceding every return. Added D5: the k-th frame is (start + k*step, start + k*step + chunklen) for k < nframes and the partial frame is (start + nframes*step, end); fit_frames returns (n, n*step + chunklen - step, total - covered) with n = floor((total - chunklen)/step) + 1 up to polynomial rewriting; range validation decided on all 44 order types by path conditions.',
         'Decided only up to polynomial / floor-division rewriting: a frame count written with other operations (e.g. max()), boundary operators of the remainder condition and float arguments are NOT decided.',
         'DESIGN.md section 4 C14'),
 'C15': ('verbatim R-FLOW of copy parameters + sibling rule over chunk producers + empty-source belief rules + gate dominance of same-path rejection + archive rules',
         'static analysis: copy() forwards path/dtype/chunklen/accessmode/overwrite and a fresh metadata dict; the Array branch of the chunk generator applies dtype and handles length 0; ragged copy iterates range(len(self)) and creates an empty copy for an empty source; asraggedarray validates the first item before the first effect; same-path rejection precedes every effect; archive validated/exclusive/whole-directory. Also: the dtype default precedes both creation calls of RaggedArray.copy; a copy without metadata does not inherit a stale metadata.json.',
         'does not decide value equality of copies, byte-identical tar extraction, or independence as an observed fact.',
         'DESIGN.md section 4 C15'),
 'C19': ('R-SHARE ownership-shape analysis of the shared memmap cache + R-ESC taint + R-PAIR release pairing',
         'static analysis: borrower path x unguarded release x suspending holders is the hazard; discharged by a recognised user-count guard, absence of a borrower path or absence of suspending holders (present on this code base: one known finding); no raw view escapes any holder; release on every exit; holders do not pin a mode of their own.',
         'known finding: unconditional release with borrowers (SIGSEGV schedule). Does not decide coherence of values under interleaved writes or absence of crashes per schedule.',
         'DESIGN.md section 4 C19'),
 'C12': ('def-use identity + escape/taint analysis over `with` blocks + acquire/release pairing (AST/CFG)',
         "static analysis: the index/value reach NumPy unmodified (def-use identity in __getitem__/__setitem__); a taint analysis over every with-block on a map-yielding context manager shows no view of the memory map leaves its context except through a copy; the opener's finally closes map and file and resets the cache on every exit; memmap-only attributes are guarded; the write gate dominates the store; the public contexts forward the mode verbatim. Every block and exit of the package is covered, not a sample of index expressions. Also: with handle mode r and a writeable map the gate lets the store through (documented per-context override).",
         "decides the copy/release/delegation discipline, not NumPy's indexing semantics, msync durability or descriptor leaks under interleavings (C19). Trusted: the view/copy classification table of NumPy operations.",
         'DESIGN.md section 4 C12'),
 'C13': ('sibling agreement + constant-folded guard profiles + CFG edge-avoidance reachability + unlink-belief rule',
         "static analysis: every write of metadata.json is guarded by tests that constant-fold to 'dictionary non-empty' and by nothing else (every path that skips the write takes the 'empty' edge); unlink is locally guarded or dominated by an operation proving non-emptiness; no cache; accessors reach the reader; json.dumps precedes the truncating open; verbatim argument forwarding; encoder branches. Also: creators remove a stale metadata.json for metadata None or {}; writer/reader encoding agreement (ASCII-only JSON on every route, or equal encodings).",
         'decides the persistence discipline, not JSON round-trip equality of values. Trusted: dict.pop/popitem KeyError semantics, json module semantics.',
         'DESIGN.md section 4 C13'),
 'C16': ('who-may-touch over the primitive-effect table with symbolic path roles + overwrite-gate dominance (CFG, call graph); path-condition evaluation of archive validation / tar mode / is_dir guards',
         "static analysis: the complete list of unlink/rmdir/rmtree/rename/copytree sites of the package is classified by the symbolic role of the target path against a closed set of owners; listing-driven deletion, swallowed deletion failures, effects before the non-array refusal, creators' effects not dominated by an overwrite gate, non-verbatim overwrite forwarding and non-exclusive archive creation are each decided for all paths. Added: every unlink/rmdir of the public delete functions is preceded by a call that opens (validates) the array on disk; tar mode decided by path conditions under overwrite=False.",
         "decides ownership and gate discipline, not byte-identity snapshots or OS behaviour on exotic directory entries. Trusted: primitive-effect table; Path.rmdir refuses non-empty directories; tarfile 'x:' is exclusive.",
         'DESIGN.md section 4 C16'),
 'C17': ('ordering / strictness / ownership rules over CFGs and def-use (must-precede, who-may-write the data file, count provenance)',
         'static analysis of the facts that make every in-between on-disk state rejected at open or legitimate: strict, exact, unavoidable size check before the first map; closed set of data-file writers/resizers; committed counts derived from appender returns; ragged two-file commit order; whole-file rewrites of pre-serialised text; readers never default on an unparsable file.',
         'decides orderings and strictness only; crash points are not enumerated and torn writes are not synthesised. Trusted: a torn JSON write is unparsable.',
         'DESIGN.md section 4 C17'),
 'C18': ('validator-dominance (interprocedural gate analysis per descriptor field) + single-reader who-may-read + size-check strictness',
         'static analysis: for each field class of the descriptor a raising test on the stored field itself lies on every normal path through the (role-inferred) descriptor reader; no handler swallows open/parse errors; the reader is the single consumer; the size check is strict, exact, unavoidable and precedes the first map; delete/truncate by path refuse before any effect; darr.open rejects unknown kinds.',
         'decides presence/placement/strictness of validators, not completeness over every corruption (negative or boolean extents are left to the size check).',
         'DESIGN.md section 4 C18'),
 'C20': ('complete-mediation analysis (guard dominance + def-use identity of the checked and used name) + constant-folded mode classification + normalisation symmetry',
         "static analysis: every public DataDir mutator guards each name it touches, with the same value, on all paths before the use (checking loop completes before list deletion); the guard compares symmetrically normalised paths with containment; its mode condition is constant-folded over all write-capable open modes; private writers keep overwrite gates and are only called with Darr's constant names; the protected set contains every file-name constant. Also: a list-taking method never modifies inside the loop that checks (all-or-nothing); purely lexical normalisation (normpath/abspath) is rejected; text/JSON readers decode with the writer's encoding.",
         'decides mediation and name-equivalence shape, not round-trip equality of user files or spellings that need the OS to resolve differently (case-insensitive file systems).',
         'DESIGN.md section 4 C20'),
 'C11': ('gate-dominance over call graph + statement CFGs (AST), def-use of the mode into handles; semantic gate pruning (mode tests folded with r); strict mode-gate analysis for by-path effects',
         "static analysis: every public mutating entry point of Array/RaggedArray/MetaData is computed from the resolved call graph; for every reachable file-system effect the CFGs along the call chain are searched for a gate-free path; the writeable-flag gate's soundness, mode propagation to sub-handles, constant 'r+' overrides and defaults are decided as separate obligations. All paths of all entry points are covered, which the five sampled cells of the test matrix cannot give. Added D7: by-path mutations need a test of the handle's own mode because the writeable flag of a map borrowed from a suspended generator/context may predate a mode switch (one open known finding for element assignment); D5: release pairing and current-mode default of the opener.",
         "decides the gate discipline, not behaviour: byte-identity of the directory after a rejected call and success after switching to 'r+' are not decided. Trusted: primitive-effect table; that writes through handles opened with the handle's mode are refused by the OS/NumPy.",
         'DESIGN.md section 4 C11'),
}
NOT_BUILT = "check not built yet (see DESIGN.md section 9 for the order of work)"

# clauses added after the third seeding round (DESIGN.md 10.2), appended to the level text
ADDED = {
 'C02': " Also: the descriptor reader hands out the whole parsed dictionary (no projection that the rewrite would persist); the recovery cut is unconditional inside the handler.",
 'C03': " Also: the recovery cut is unconditional inside the handler (shared with C09); append() reaches iterappend on every normal path (no shortcut around the validation).",
 'C01': " Also: an empty source of the chunk generator keeps dtype and trailing shape on both the Array and the sequence branch (shared with C15).",
 'C04': " Also: the empty-array substitute of the opener is built with the descriptor's dtype (byte order included), so appended items are cast to the stored type.",
 'C05': " Also: who-may-write the top-level descriptor (any other writer in raggedarray.py builds it from the target's sub-arrays).",
 'C06': " Also: the statement that reads the file binds the requested variable.",
 'C07': " Also: each sub-program binds the variable the composer indexes (i / v).",
 'C09': " Also: the cut is on every path through the handler (no `if completed > 0` guard); append() offers its argument as one chunk and reaches iterappend on every normal path; the recovery commit counts the same rows as the success commit.",
 'C13': " Also: a trial serialisation whose failure is raised uses the writer's encoder (DDJSONEncoder); creators replace the metadata file (no MetaData.update merge into the file of an overwritten array).",
 'C15': " RaggedArray.copy is analysed in either form: delegation to asraggedarray, or direct Array.copy of both sub-arrays with metadata replaced (never merged).",
 'C17': " Also: JSON / README writers rewrite in place (no removal before the write); a public append of a sub-array counts as a length commit in the values-before-indices order rule.",
 'C18': " Also: no module-level container is filled with file content (no parse cache between the file and the validation), class-level containers included; the handle's dtype/shape/size come from the object the opener builds (or the reader rejects negative extents itself).",
 'C19': " Also: the refusal test of __setitem__ is the writeable flag of the map that is written to. Release-on-all-exits is decided by a leak-path analysis on the CFG when the with/finally shape is not found.",
 'C20': " Also: the path used by every DataDir method is <directory>/<name as given> (no rewrite between guard and use); names are materialised before they are iterated twice; no mutation is driven by a directory listing / glob.",
 'C11': " Release-on-all-exits is decided by a leak-path analysis on the CFG when the with/finally shape is not found.",
 'C12': " Release-on-all-exits is decided by a leak-path analysis on the CFG when the with/finally shape is not found.",
}

# clauses added after the fifth seeding round (DESIGN.md 10.8)
ADDED5 = {
 'C01': " Round 5: the opener's memmap / empty-substitute branches use the stored dtype (shared); no result of a memoised helper is changed in place (embedded positive example).",
 'C02': " Round 5: the supported-type gate dominates asarray's effects (shared with C01); truncate_array commits the length the file was cut to; a JSON/text file rewritten through a non-truncating handle is cut after the last write (embedded positive example). Round 6: the handler that empties the data file protects the write only (no length commit inside its try).",
 'C03': " Round 5: no return/break/continue leaves a finally block (embedded positive example).",
 'C04': " Round 5: len(item) is evaluated before the first write (shared with C10); no escape from finally.",
 'C06': " Round 5: Array.__init__ performs no file-system mutation (shared with C07 A5).",
 'C07': " Round 5: the number of sub-arrays / values never comes from the ragged handle's remembered description; the R cut-off is judged on elements, with rows < elements for atom rank >= 1 in the model.",
 'C08': " Round 5: Array._arrayinfo returns the validating reader's result on every path (shared with C18); the attribute-sink normalisation no longer hides a README generated before the handle shape is set.",
 'C09': " Round 5: no escape from finally.",
 'C10': " Round 5: no escape from finally; both sub-array openers of a RaggedArray method receive the same access mode.",
 'C11': " Round 5: ragged opener mode agreement; accessmode setters refuse by value only (never depending on the handle's state).",
 'C12': " Round 5: __getitem__ does not use the file object the opener yields (reads go through the map only); every normal completion of __setitem__ has performed the assignment. Round 6: Array._arrayinfo returns the reader's result on every path (shared with C08/C18).",
 'C13': " Round 5: Mapping-mixin accessors accepted when __getitem__/__iter__/__len__ reach the reader; the writer keeps allow_nan; in-place rewrites truncate.",
 'C14': " Round 5: max()/min() in fit_frames decided by case analysis with infeasible cases discarded against the validated domain; every yield of the frame loop reads the map with the frame bounds; fit_frames' arithmetic runs after int() normalisation of its parameters.",
 'C15': " Round 5: the metadata reader keeps no parsed content in the handle (shared with C13); archive never returns without passing tarfile.open. Round 6: every tf.add of archive adds the whole directory.",
 'C16': " Round 5: create_datadir creates the directory exclusively unless overwrite (mkdir(exist_ok=True) only where overwrite is known true); archive-always-written. Round 6: every tf.add of archive adds the whole directory.",
 'C17': " Round 5: append offers its argument as one chunk (shared with C09); the start offset of a new index row is the values length (shared with C04/C05); truncate commit matches the resize; an in-place ('r+') JSON rewrite is not a whole-file rewrite. Round 6: constructors perform no file-system mutation; the recovery path commits the counter of completed chunks (C09's recovery/accumulator clauses); reset-handler scope.",
 'C18': " Round 5: a failed read of the stored kind in darr.open is not swallowed; constructors perform no file-system mutation (a refused open/delete/truncate changes nothing); _arrayinfo always fresh.",
 'C20': " Round 5: in-place rewrites truncate (update_jsondict through an 'r+' handle).",
}


def main():
    checks = []
    for pid in sorted(CHECKS):
        tech, text, note, ref = CHECKS[pid]
        text = text + ADDED.get(pid, '') + ADDED5.get(pid, '')
        checks.append({
            "property_id": pid,
            "quick_cmd": f"./check {pid} --tier quick --quiet",
            "thorough_cmd": f"./check {pid} --tier thorough --quiet",
            "evidence_file": f"evidence/{pid}.json",
            "replay_cmd_template": f"./check {pid} --explain {{path}}",
            "engine": "darrlint",
            "level_claimed": {"category": "other", "text": text, "design_ref": ref},
            "level_note": note,
            "technique": tech,
        })
    na = [{"property_id": "C%02d" % i, "reason": NOT_BUILT} for i in range(1, 21) if "C%02d" % i not in CHECKS]
    m = {
     "version": 1,
     "setup_cmd": "true",
     "hooks": {"guard": "DARR_VERIF",
               "enable": "none needed: the checks are static analyses of /repo's working tree; they never import or run darr, so no hook exists in /repo",
               "baseline_off_cmd": BASE, "source_commits": [], "add_only": True},
     "engines": [{"name": "darrlint", "path": "darrlint/", "serves_properties": sorted(CHECKS),
                  "kind_free_text": "repo-specific static analysis under /venv/bin/python (stdlib ast only): source model, receiver-type fixpoint and call resolution, statement CFG with reachability-under-avoidance, primitive-effect/file-role table, rule kinds R-DOM/R-POST/R-ORDER/R-OWN/R-RECOVER/R-ESC/R-PAIR/R-SHARE/R-SIB/R-FLOW/R-TABLE/R-BELIEF, string-template abstract interpretation of the read-code generators with per-language reader models"}],
     "checks": checks,
     "not_applicable": na,
     "notes": "Second opinion: when a run has a violated obligation the property is analysed again on the helper-inlined equivalent form (DESIGN.md 10.3). All checks are level 'other': N obligations over M sites discharged by static rules; each property is claimed clause-wise (DESIGN.md section 4 lists decided / not decided per property). Exit 0 ok, 1 VIOLATION, 2 ANALYSIS-ERROR (anchor vanished / floor not met). known_findings.json lists genuine defects (open or fixed).",
    }
    with open(os.path.join(HERE, 'MANIFEST.json'), 'w') as fh:
        json.dump(m, fh, indent=1)
    print('MANIFEST.json:', len(checks), 'checks,', len(na), 'not applicable')

if __name__ == '__main__':
    main()
