#!/venv/bin/python
"""Mechanical behaviour-preserving transformations of darr/*.py (AST level), used to
stress the checks for false alarms.  usage: autorefactor.py <mode> <root-of-scratch-copy>
modes: rename-locals | swap-ifelse | rename-private | params-private"""
import ast, os, sys, re

SKIP = {'_version.py'}


def rename_locals(tree):
    class V(ast.NodeTransformer):
        def visit_FunctionDef(self, fn):
            # inner first
            self.generic_visit(fn)
            if any(isinstance(n, (ast.FunctionDef, ast.Lambda, ast.ClassDef)) for n in ast.walk(fn) if n is not fn):
                return fn
            params = {a.arg for a in fn.args.args + fn.args.kwonlyargs + fn.args.posonlyargs}
            if fn.args.vararg: params.add(fn.args.vararg.arg)
            if fn.args.kwarg: params.add(fn.args.kwarg.arg)
            glob = set()
            comp_targets = set()
            for n in ast.walk(fn):
                if isinstance(n, (ast.Global, ast.Nonlocal)):
                    glob |= set(n.names)
                if isinstance(n, ast.comprehension):
                    for t in ast.walk(n.target):
                        if isinstance(t, ast.Name):
                            comp_targets.add(t.id)
            stored = set()
            for n in ast.walk(fn):
                if isinstance(n, ast.Name) and isinstance(n.ctx, (ast.Store, ast.Del)):
                    stored.add(n.id)
                if isinstance(n, ast.ExceptHandler) and n.name:
                    stored.add(n.name)
            ren = {x for x in stored if x not in params and x not in glob and x not in comp_targets and not x.startswith('__')}
            for n in ast.walk(fn):
                if isinstance(n, ast.Name) and n.id in ren:
                    n.id = n.id + '_loc'
                if isinstance(n, ast.ExceptHandler) and n.name in ren:
                    n.name = n.name + '_loc'
            return fn
    return V().visit(tree)


def swap_ifelse(tree):
    """if c: A else: B  ->  if not c: B else: A   (only when both branches are non-empty and it is not an elif chain)"""
    class V(ast.NodeTransformer):
        def visit_If(self, n):
            self.generic_visit(n)
            if n.orelse and not (len(n.orelse) == 1 and isinstance(n.orelse[0], ast.If)):
                t = n.test
                if isinstance(t, ast.UnaryOp) and isinstance(t.op, ast.Not):
                    nt = t.operand
                else:
                    nt = ast.UnaryOp(op=ast.Not(), operand=t)
                return ast.copy_location(ast.If(test=nt, body=n.orelse, orelse=n.body), n)
            return n
    return V().visit(tree)


def flatten_else_after_raise(tree):
    """if c: <always raises/returns> else: B   ->   if c: ...; B   (pylint no-else-raise / no-else-return)"""
    def terminal(stmts):
        return bool(stmts) and isinstance(stmts[-1], (ast.Raise, ast.Return))

    def fix(body):
        out = []
        for st in body:
            for fld in ('body', 'orelse', 'finalbody'):
                v = getattr(st, fld, None)
                if isinstance(v, list) and v and isinstance(v[0], ast.stmt):
                    setattr(st, fld, fix(v))
            if isinstance(st, ast.Try):
                for h in st.handlers:
                    h.body = fix(h.body)
            if isinstance(st, ast.If) and st.orelse and terminal(st.body):
                rest = st.orelse
                st.orelse = []
                out.append(st)
                out.extend(rest)
            else:
                out.append(st)
        return out
    for n in ast.walk(tree):
        if isinstance(n, (ast.FunctionDef,)):
            n.body = fix(n.body)
    return tree


def guard_clause(tree):
    """if c: A else: <raise>   ->   if not c: <raise>; A      (guard-clause style)"""
    def neg(t):
        if isinstance(t, ast.UnaryOp) and isinstance(t.op, ast.Not):
            return t.operand
        return ast.UnaryOp(op=ast.Not(), operand=t)

    def fix(body):
        out = []
        for st in body:
            for fld in ('body', 'orelse', 'finalbody'):
                v = getattr(st, fld, None)
                if isinstance(v, list) and v and isinstance(v[0], ast.stmt):
                    setattr(st, fld, fix(v))
            if isinstance(st, ast.Try):
                for h in st.handlers:
                    h.body = fix(h.body)
            if isinstance(st, ast.If) and st.orelse and isinstance(st.orelse[-1], ast.Raise) and \
                    not isinstance(st.body[-1], (ast.Raise, ast.Return)) and \
                    not (len(st.orelse) == 1 and isinstance(st.orelse[0], ast.If)):
                g = ast.copy_location(ast.If(test=neg(st.test), body=st.orelse, orelse=[]), st)
                out.append(g)
                out.extend(st.body)
            else:
                out.append(st)
        return out
    for n in ast.walk(tree):
        if isinstance(n, ast.FunctionDef):
            n.body = fix(n.body)
    return tree


def split_chain(tree):
    """a <= b < c  ->  a <= b and b < c  (operands that are names/constants/calls without side effects)"""
    class V(ast.NodeTransformer):
        def visit_Compare(self, n):
            self.generic_visit(n)
            if len(n.ops) == 2:
                import copy
                mid = n.comparators[0]
                return ast.copy_location(ast.BoolOp(op=ast.And(), values=[
                    ast.Compare(left=n.left, ops=[n.ops[0]], comparators=[mid]),
                    ast.Compare(left=copy.deepcopy(mid), ops=[n.ops[1]], comparators=[n.comparators[1]])]), n)
            return n
    return V().visit(tree)


def demorgan(tree):
    """not (a and b) <-> (not a) or (not b);  `not x == y` -> `x != y`; `not x in y` -> `x not in y`"""
    INV = {ast.Eq: ast.NotEq, ast.NotEq: ast.Eq, ast.In: ast.NotIn, ast.NotIn: ast.In, ast.Is: ast.IsNot, ast.IsNot: ast.Is,
           ast.Lt: ast.GtE, ast.GtE: ast.Lt, ast.Gt: ast.LtE, ast.LtE: ast.Gt}

    class V(ast.NodeTransformer):
        def visit_UnaryOp(self, n):
            self.generic_visit(n)
            if isinstance(n.op, ast.Not):
                o = n.operand
                if isinstance(o, ast.Compare) and len(o.ops) == 1 and type(o.ops[0]) in (ast.Eq, ast.NotEq, ast.In, ast.NotIn, ast.Is, ast.IsNot):
                    return ast.copy_location(ast.Compare(left=o.left, ops=[INV[type(o.ops[0])]()], comparators=o.comparators), n)
                if isinstance(o, ast.BoolOp):
                    op = ast.Or() if isinstance(o.op, ast.And) else ast.And()
                    return ast.copy_location(ast.BoolOp(op=op, values=[self.visit(ast.UnaryOp(op=ast.Not(), operand=v)) for v in o.values]), n)
            return n
    return V().visit(tree)


def kw_to_pos(tree, allfuncs):
    """f(x, index=vi) -> f(x, vi) for calls of module-level repo functions / methods whose keyword
    arguments continue the positional prefix (resolved by name against the repo's own signatures)."""
    class V(ast.NodeTransformer):
        def visit_Call(self, n):
            self.generic_visit(n)
            name = n.func.attr if isinstance(n.func, ast.Attribute) else (n.func.id if isinstance(n.func, ast.Name) else None)
            sigs = allfuncs.get(name)
            if not sigs or len(sigs) != 1 or any(isinstance(a, ast.Starred) for a in n.args) or any(k.arg is None for k in n.keywords):
                return n
            params, is_method = sigs[0]
            if is_method and isinstance(n.func, ast.Attribute):
                params = params[1:]
            elif is_method:
                return n
            pos = list(n.args)
            kws = list(n.keywords)
            while kws and len(pos) < len(params) and kws[0].arg == params[len(pos)]:
                pos.append(kws.pop(0).value)
            n.args, n.keywords = pos, kws
            return n
    return V().visit(tree)


def pos_to_kw(tree, allfuncs):
    class V(ast.NodeTransformer):
        def visit_Call(self, n):
            self.generic_visit(n)
            name = n.func.attr if isinstance(n.func, ast.Attribute) else (n.func.id if isinstance(n.func, ast.Name) else None)
            sigs = allfuncs.get(name)
            if not sigs or len(sigs) != 1 or any(isinstance(a, ast.Starred) for a in n.args):
                return n
            params, is_method = sigs[0]
            if is_method and isinstance(n.func, ast.Attribute):
                params = params[1:]
            elif is_method:
                return n
            if len(n.args) > len(params) or len(n.args) < 2:
                return n
            keep = n.args[:1]
            extra = [ast.keyword(arg=params[i], value=a) for i, a in enumerate(n.args) if i >= 1]
            n.args = keep
            n.keywords = extra + n.keywords
            return n
    return V().visit(tree)


def temporaries(tree):
    """introduce a temporary for the value of every `return <call/binop>` and for call arguments that are
    calls:  return f(x) -> _r = f(x); return _r"""
    class V(ast.NodeTransformer):
        def visit_FunctionDef(self, fn):
            self.generic_visit(fn)
            if any(isinstance(x, (ast.Yield, ast.YieldFrom)) for x in ast.walk(fn)) and False:
                return fn

            def fix(body):
                out = []
                for st in body:
                    for fld in ('body', 'orelse', 'finalbody'):
                        v = getattr(st, fld, None)
                        if isinstance(v, list) and v and isinstance(v[0], ast.stmt):
                            setattr(st, fld, fix(v))
                    if isinstance(st, ast.Try):
                        for h in st.handlers:
                            h.body = fix(h.body)
                    if isinstance(st, ast.Return) and isinstance(st.value, (ast.Call, ast.BinOp, ast.Subscript)):
                        out.append(ast.copy_location(ast.Assign(targets=[ast.Name(id='result_', ctx=ast.Store())], value=st.value), st))
                        out.append(ast.copy_location(ast.Return(value=ast.Name(id='result_', ctx=ast.Load())), st))
                    else:
                        out.append(st)
                return out
            fn.body = fix(fn.body)
            return fn
    return V().visit(tree)


def joinpath_div(tree):
    """p.joinpath(x) -> p / x  (single argument)"""
    class V(ast.NodeTransformer):
        def visit_Call(self, n):
            self.generic_visit(n)
            if isinstance(n.func, ast.Attribute) and n.func.attr == 'joinpath' and len(n.args) == 1 and not n.keywords:
                return ast.copy_location(ast.BinOp(left=n.func.value, op=ast.Div(), right=n.args[0]), n)
            return n
    return V().visit(tree)


def collect_private(trees):
    names = set()
    for t in trees:
        for n in ast.walk(t):
            if isinstance(n, ast.FunctionDef) and n.name.startswith('_') and not n.name.startswith('__'):
                names.add(n.name)
            if isinstance(n, (ast.Assign, ast.AnnAssign)):
                tg = n.targets if isinstance(n, ast.Assign) else [n.target]
                for x in tg:
                    for y in ast.walk(x):
                        if isinstance(y, ast.Attribute) and isinstance(y.value, ast.Name) and y.value.id in ('self', 'cls') \
                                and y.attr.startswith('_') and not y.attr.startswith('__'):
                            names.add(y.attr)
            if isinstance(n, ast.ClassDef):
                for st in n.body:
                    if isinstance(st, ast.Assign):
                        for x in st.targets:
                            if isinstance(x, ast.Name) and x.id.startswith('_') and not x.id.startswith('__'):
                                names.add(x.id)
    return names - {'_mmap', '_version', '_formatversion'}


def rename_private(tree, names):
    class V(ast.NodeTransformer):
        def visit_FunctionDef(self, n):
            self.generic_visit(n)
            if n.name in names:
                n.name = n.name + 'x'
            return n

        def visit_Attribute(self, n):
            self.generic_visit(n)
            if n.attr in names:
                n.attr = n.attr + 'x'
            return n

        def visit_Name(self, n):
            if n.id in names:
                n.id = n.id + 'x'
            return n

        def visit_Constant(self, n):
            if isinstance(n.value, str) and n.value in names:
                return ast.copy_location(ast.Constant(value=n.value + 'x'), n)
            return n
    return V().visit(tree)


def rename_private_params(tree, sigs):
    """sigs: private function name (unique in the package) -> list of parameter names to rename (p -> p_)."""
    class V(ast.NodeTransformer):
        def visit_FunctionDef(self, fn):
            self.generic_visit(fn)
            if fn.name in sigs:
                ps = set(sigs[fn.name])
                for a in fn.args.args + fn.args.kwonlyargs:
                    if a.arg in ps:
                        a.arg = a.arg + '_'
                for n in ast.walk(fn):
                    if isinstance(n, ast.Name) and n.id in ps:
                        n.id = n.id + '_'
            return fn

        def visit_Call(self, n):
            self.generic_visit(n)
            nm = n.func.attr if isinstance(n.func, ast.Attribute) else (n.func.id if isinstance(n.func, ast.Name) else None)
            if nm in sigs:
                for k in n.keywords:
                    if k.arg in sigs[nm]:
                        k.arg = k.arg + '_'
            return n
    return V().visit(tree)


def main():
    mode, root = sys.argv[1], sys.argv[2]
    d = os.path.join(root, 'darr')
    allfuncs = {}
    for fn in sorted(os.listdir(d)):
        if fn.endswith('.py') and fn not in SKIP:
            t = ast.parse(open(os.path.join(d, fn), encoding='utf-8').read())
            for n in ast.walk(t):
                if isinstance(n, ast.ClassDef):
                    for m in n.body:
                        if isinstance(m, ast.FunctionDef) and not m.args.vararg and not m.args.kwarg and not m.decorator_list:
                            allfuncs.setdefault(m.name, []).append(([a.arg for a in m.args.args], True))
                        elif isinstance(m, ast.FunctionDef):
                            allfuncs.setdefault(m.name, []).append((None, True))
            for n in t.body:
                if isinstance(n, ast.FunctionDef):
                    if not n.args.vararg and not n.args.kwarg and not n.decorator_list:
                        allfuncs.setdefault(n.name, []).append(([a.arg for a in n.args.args], False))
                    else:
                        allfuncs.setdefault(n.name, []).append((None, False))
    allfuncs = {k: v for k, v in allfuncs.items() if len(v) == 1 and v[0][0] is not None
                and k not in ('__init__', 'open', 'copy', 'update', 'pop', 'get', 'append', 'keys', 'values', 'items', 'read', 'write', 'close')}
    for fn in sorted(os.listdir(d)):
        if not fn.endswith('.py') or fn in SKIP:
            continue
        p = os.path.join(d, fn)
        src = open(p, encoding='utf-8').read()
        tree = ast.parse(src)
        if mode == 'rename-locals':
            tree = rename_locals(tree)
        elif mode == 'swap-ifelse':
            tree = swap_ifelse(tree)
        elif mode == 'flatten-else':
            tree = flatten_else_after_raise(tree)
        elif mode == 'guard-clause':
            tree = guard_clause(tree)
        elif mode == 'split-chain':
            tree = split_chain(tree)
        elif mode == 'demorgan':
            tree = demorgan(tree)
        elif mode == 'kw-to-pos':
            tree = kw_to_pos(tree, allfuncs)
        elif mode == 'pos-to-kw':
            tree = pos_to_kw(tree, allfuncs)
        elif mode == 'temporaries':
            tree = temporaries(tree)
        elif mode == 'joinpath-div':
            tree = joinpath_div(tree)
        elif mode == 'rename-private':
            if 'PRIV' not in globals():
                trees = [ast.parse(open(os.path.join(d, x), encoding='utf-8').read()) for x in sorted(os.listdir(d))
                         if x.endswith('.py') and x not in SKIP]
                globals()['PRIV'] = collect_private(trees)
            tree = rename_private(tree, globals()['PRIV'])
        elif mode == 'rename-private-params':
            if 'PSIGS' not in globals():
                cnt, sig = {}, {}
                for x in sorted(os.listdir(d)):
                    if x.endswith('.py') and x not in SKIP:
                        for n in ast.walk(ast.parse(open(os.path.join(d, x), encoding='utf-8').read())):
                            if isinstance(n, ast.FunctionDef):
                                cnt[n.name] = cnt.get(n.name, 0) + 1
                                if n.name.startswith('_') and not n.name.startswith('__') and not n.args.vararg and not n.args.kwarg \
                                        and not any(isinstance(y, (ast.FunctionDef, ast.Lambda)) for y in ast.walk(n) if y is not n):
                                    sig[n.name] = [a.arg for a in n.args.args + n.args.kwonlyargs if a.arg not in ('self', 'cls')]
                globals()['PSIGS'] = {k: v for k, v in sig.items() if cnt[k] == 1 and v}
            tree = rename_private_params(tree, globals()['PSIGS'])
        elif mode == 'unparse':
            pass
        else:
            sys.exit('unknown mode')
        ast.fix_missing_locations(tree)
        open(p, 'w', encoding='utf-8').write(ast.unparse(tree) + '\n')


if __name__ == '__main__':
    main()
