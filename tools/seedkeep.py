#!/venv/bin/python
"""Store verified seeded defects under /verif/seeded/<PID>-<k>/ and record which checks report them.
usage: seedkeep.py /tmp/seeds  (expects <PID>/<k>/{patch.diff,demo.py,NOTES.md} and verify_all.log)"""
import json, os, re, shutil, subprocess, sys
from concurrent.futures import ThreadPoolExecutor
SRC = sys.argv[1]
VERIF = '/verif'
sys.path.insert(0, VERIF)
from darrlint import selftest
head = subprocess.check_output(['git', '-C', '/repo', 'rev-parse', '--short', 'HEAD'], text=True).strip()
verified = {}
for line in open(os.path.join(SRC, 'verify_all.log')):
    m = re.match(r'RESULT (\S+)/(C\d+)/(\d+): demo_clean=(\d+) demo_mutant=(\d+) tests=.(\d+) passed', line)
    if m:
        verified[(m.group(2), m.group(3))] = (int(m.group(4)), int(m.group(5)), int(m.group(6)))
pids = ['C%02d' % i for i in range(1, 21)]

def work(item):
    (pid, k), (clean, mut, npass) = item
    d = os.path.join(SRC, pid, k)
    if not (clean == 0 and mut != 0 and npass == 187):
        return (pid, k, None, 'not verified')
    scratch = selftest.make_scratch('/repo')
    try:
        if not selftest.apply_patch(scratch, os.path.join(d, 'patch.diff')):
            return (pid, k, None, 'patch does not apply')
        # regenerate the patch against the current HEAD
        base = selftest.make_scratch('/repo')
        try:
            r = subprocess.run(['diff', '-ruN', '--label', 'a', '--label', 'b', base, scratch], stdout=subprocess.PIPE, text=True)
        finally:
            shutil.rmtree(base, ignore_errors=True)
        det = {}
        for p in pids:
            rc, out = selftest.run_check(p, scratch)
            if rc == 1:
                det[p] = [l.split(' — ')[1][:120] + ' — ' + l.split(' — ')[-1][:160] for l in out.splitlines() if 'VIOLATED' in l][:3]
            elif rc == 2:
                det[p] = ['ANALYSIS-ERROR: ' + out.strip().splitlines()[-1][:200]]
        return (pid, k, det, '')
    finally:
        shutil.rmtree(scratch, ignore_errors=True)

with ThreadPoolExecutor(max_workers=12) as ex:
    results = list(ex.map(work, sorted(verified.items())))
os.makedirs(os.path.join(VERIF, 'seeded'), exist_ok=True)
matrix = json.load(open(os.path.join(VERIF, 'seeded', 'MATRIX.json'))) if os.path.exists(os.path.join(VERIF, 'seeded', 'MATRIX.json')) else {}
for pid, k, det, why in results:
    name = f'{pid}-{k}'
    if det is None:
        print(name, 'SKIPPED', why)
        continue
    d = os.path.join(SRC, pid, k)
    out = os.path.join(VERIF, 'seeded', name)
    os.makedirs(out, exist_ok=True)
    # patch relative to the repository root at HEAD
    wt = subprocess.run(['git', '-C', '/repo', 'stash', 'list'], stdout=subprocess.PIPE)
    shutil.copy2(os.path.join(d, 'demo.py'), os.path.join(out, 'demo.py'))
    if os.path.exists(os.path.join(d, 'NOTES.md')):
        shutil.copy2(os.path.join(d, 'NOTES.md'), os.path.join(out, 'NOTES.md'))
    shutil.copy2(os.path.join(d, 'patch.diff'), os.path.join(out, 'patch.diff'))
    notes = open(os.path.join(d, 'NOTES.md')).read() if os.path.exists(os.path.join(d, 'NOTES.md')) else ''
    viol = sorted(p for p, v in det.items() if not v[0].startswith('ANALYSIS-ERROR'))
    errs = sorted(p for p, v in det.items() if v[0].startswith('ANALYSIS-ERROR'))
    meta = {
        'id': name, 'property': pid,
        'origin': 'written by an independent sub-agent that was given only the property text and a scratch worktree',
        'breaks': pid,
        'needs_to_manifest': notes.strip()[:1500],
        'what_i_ran': [f'tools/seedverify.sh: applied to a scratch worktree of /repo at {head}: existing suite 187 passed; demo.py exit 0 without the change, non-zero with it',
                       'tools/seedkeep.py: applied to a scratch copy of darr/ + docs/, every check run with --root <scratch>'],
        'detected_by': viol, 'analysis_error_in': errs,
        'detected_by_own_property_check': pid in viol,
        'reports': det,
        'repo_head': head,
    }
    with open(os.path.join(out, 'meta.json'), 'w') as fh:
        json.dump(meta, fh, indent=1)
    matrix[name] = viol
    print(name, 'own' if pid in viol else 'MISSED-BY-OWN', viol, ('ERR ' + str(errs)) if errs else '')
with open(os.path.join(VERIF, 'seeded', 'MATRIX.json'), 'w') as fh:
    json.dump(matrix, fh, indent=1)
