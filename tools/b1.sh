#!/bin/bash
# usage: b1.sh <dir> <area/k> PID...   apply one benign patch to a scratch copy and show the non-discharged lines
D=$1; P=$2; shift 2
S=$(mktemp -d /tmp/b1.XXXXXX); mkdir -p $S/darr; cp /repo/darr/*.py $S/darr/; cp -r /repo/docs $S/docs
( cd $S && patch -p1 -s --fuzz=3 < $D/$P/patch.diff ) || echo PATCH-FAILED
for pid in "$@"; do DARRLINT_NO_REPLAY=1 /verif/check $pid --quiet --no-evidence --root $S 2>&1 | grep -v "conda\|Conda\|Caused\|^$" | cut -c1-${CUT:-600}; done
[ -n "${KEEP:-}" ] && echo kept $S || rm -rf $S
