#!/bin/bash
# usage: seedrun.sh <patch.diff> [PID ...]   -- apply to /repo, run checks, revert
set -u
P=$(realpath "$1"); shift
cd /verif
if [ -n "$(git -C /repo status --porcelain)" ]; then echo "/repo not clean"; exit 3; fi
git -C /repo apply "$P" 2>/dev/null || (cd /repo && patch -p1 --fuzz=3 -s < "$P" && find . -name "*.orig" -delete) || { echo "patch does not apply"; git -C /repo checkout -- .; exit 2; }
PIDS="$@"
if [ -z "$PIDS" ]; then PIDS=$(/venv/bin/python -c "import json;print(' '.join(c['property_id'] for c in json.load(open('/verif/MANIFEST.json'))['checks']))"); fi
for pid in $PIDS; do
  out=$(./check $pid --quiet --no-evidence 2>&1); rc=$?
  echo "== $pid exit=$rc"
  echo "$out" | grep -E "VIOLATED|ANALYSIS-ERROR|ASSUMED" | cut -c1-400
done
git -C /repo checkout -- .
git -C /repo status --porcelain
