#!/venv/bin/python
"""usage: mkscratch.py <patch.diff>  -> prints the path of a scratch copy of /repo's darr/ + docs/ with the patch applied
(remove it yourself).  Run checks on it with ./check Cnn --root <path>."""
import sys
sys.path.insert(0, '/verif')
from darrlint import selftest
sc = selftest.make_scratch('/repo')
if len(sys.argv) > 1 and not selftest.apply_patch(sc, sys.argv[1]):
    print('PATCH-FAILS', file=sys.stderr)
    sys.exit(2)
print(sc)
