#!/venv/bin/python
"""Apply each behaviour-preserving patch under <dir>/<area>/<k>/patch.diff to a scratch copy and run all checks.
usage: benignrun.py <dir> [area ...]"""
import os, sys, shutil, subprocess
from concurrent.futures import ThreadPoolExecutor
sys.path.insert(0, '/verif')
from darrlint import selftest
D = sys.argv[1]
areas = sys.argv[2:] or sorted(os.listdir(D))
pids = ['C%02d' % i for i in range(1, 21)]
jobs = []
for a in areas:
    for k in sorted(os.listdir(os.path.join(D, a))):
        p = os.path.join(D, a, k, 'patch.diff')
        if os.path.exists(p):
            jobs.append((a, k, p))

def work(j):
    a, k, p = j
    sc = selftest.make_scratch('/repo')
    try:
        if not selftest.apply_patch(sc, p):
            return a, k, 'PATCH-FAILS', []
        out = []
        for pid in pids:
            rc, o = selftest.run_check(pid, sc)
            if rc != 0:
                out.append((pid, rc, [l[:330] for l in o.splitlines() if 'VIOLATED' in l or 'ANALYSIS-ERROR' in l or 'Error' in l][:5]))
        return a, k, 'ok', out
    finally:
        shutil.rmtree(sc, ignore_errors=True)

with ThreadPoolExecutor(max_workers=6) as ex:
    for a, k, st, out in ex.map(work, jobs):
        print(f'### {a}/{k} {st}' + ('' if out else '  silent'))
        for pid, rc, lines in out:
            print(f'  == {pid} exit={rc}')
            for l in lines:
                print('     ' + l)
