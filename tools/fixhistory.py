#!/venv/bin/python
"""For every `fix:` commit in /repo: write the reverse patch (re-introduces the defect on
the current tree) to /verif/regress/<commit>/patch.diff, apply it to a scratch copy and
record which checks report it (all 20 are run).  Development tool; the self-test
(thorough tier) re-runs these patches on every run."""
import json, os, re, shutil, subprocess, sys
from concurrent.futures import ThreadPoolExecutor
sys.path.insert(0, '/verif')
from darrlint import selftest
BASE = open('/root/.vp/repo_root_sha').read().strip()
pids = ['C%02d' % i for i in range(1, 21)]
log = subprocess.check_output(['git', '-C', '/repo', 'log', '--reverse', '--format=%h %s', f'{BASE}..HEAD'], text=True).splitlines()
fixes = [l.split(' ', 1) for l in log if l.split(' ', 1)[1].startswith('fix:')]

def work(item):
    sha, subj = item
    d = os.path.join('/verif/regress', sha)
    os.makedirs(d, exist_ok=True)
    diff = subprocess.check_output(['git', '-C', '/repo', 'diff', sha, sha + '^', '--', 'darr', 'docs'], text=True)
    with open(os.path.join(d, 'patch.diff'), 'w') as fh:
        fh.write(diff)
    scratch = selftest.make_scratch('/repo')
    try:
        if not selftest.apply_patch(scratch, os.path.join(d, 'patch.diff')):
            return sha, subj, None
        det = {}
        for p in pids:
            rc, out = selftest.run_check(p, scratch)
            if rc != 0:
                det[p] = {'rc': rc, 'lines': [l[:400] for l in out.splitlines() if 'VIOLATED' in l or 'ANALYSIS-ERROR' in l][:6]}
        return sha, subj, det
    finally:
        shutil.rmtree(scratch, ignore_errors=True)

with ThreadPoolExecutor(max_workers=8) as ex:
    res = list(ex.map(work, fixes))
out = {}
for sha, subj, det in res:
    out[sha] = {'subject': subj, 'detected': det}
    print(sha, subj[:70], '->', 'PATCH-FAILS' if det is None else {p: v['rc'] for p, v in det.items()})
json.dump(out, open('/verif/regress/RESULTS.json', 'w'), indent=1)
