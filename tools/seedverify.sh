#!/bin/bash
# usage: seedverify.sh <dir containing patch.diff and demo.py>
# Confirms in a scratch worktree: patch applies, test-suite passes with it,
# demo fails with it and passes without it.  Prints a one-line verdict.
set -u
D=$(realpath "$1")
WT=$(mktemp -d /tmp/seedwt.XXXXXX)
rmdir "$WT"
git -C /repo worktree add -q --detach "$WT" HEAD || exit 3
cd "$WT"
PYTHONPATH="$WT" timeout 300 /venv/bin/python "$D/demo.py" >$D/.verify.clean.out 2>&1; CLEAN=$?
if ! git apply "$D/patch.diff" 2>$D/.verify.apply.err && ! (patch -p1 --fuzz=3 -s < "$D/patch.diff" && find . -name "*.orig" -delete); then
  echo "RESULT $D: PATCH-DOES-NOT-APPLY $(head -1 $D/.verify.apply.err)"; cd /; git -C /repo worktree remove --force "$WT"; exit 2
fi
/venv/bin/python -c "import ast,sys,glob
[ast.parse(open(f).read()) for f in glob.glob('darr/*.py')]" || { echo "RESULT $D: DOES-NOT-PARSE"; cd /; git -C /repo worktree remove --force "$WT"; exit 2; }
PYTHONPATH="$WT" timeout 300 /venv/bin/python "$D/demo.py" >$D/.verify.mut.out 2>&1; MUT=$?
TESTS=$(PYTHONPATH="$WT" timeout 1200 /venv/bin/python -m pytest -q -p no:cacheprovider --timeout=900 -n 6 2>&1 | tail -1)
cd /; git -C /repo worktree remove --force "$WT"
echo "RESULT $D: demo_clean=$CLEAN demo_mutant=$MUT tests='$TESTS'"
