#!/venv/bin/python
"""Run all 20 checks against mechanically refactored (behaviour-preserving) copies of /repo.
usage: variants.py [--suite] [--pids C01,C02] mode [mode ...]   (mode 'none' = unchanged copy; 'a+b' composes)"""
import os, sys, shutil, subprocess, tempfile, argparse
from concurrent.futures import ThreadPoolExecutor
sys.path.insert(0, '/verif')
ap = argparse.ArgumentParser()
ap.add_argument('--suite', action='store_true')
ap.add_argument('--pids', default=','.join('C%02d' % i for i in range(1, 21)))
ap.add_argument('--keep', action='store_true')
ap.add_argument('modes', nargs='+')
a = ap.parse_args()
pids = a.pids.split(',')
env = dict(os.environ, DARRLINT_NO_REPLAY='1')

def run(pid, root):
    r = subprocess.run(['/verif/check', pid, '--quiet', '--no-evidence', '--root', root], stdout=subprocess.PIPE,
                       stderr=subprocess.STDOUT, text=True, env=env)
    return pid, r.returncode, r.stdout

rc_all = 0
for mode in a.modes:
    d = tempfile.mkdtemp(prefix='variant-')
    root = os.path.join(d, 'repo')
    shutil.copytree('/repo', root, ignore=shutil.ignore_patterns('.git', '__pycache__', '*.pyc', 'examplearrays', '.pytest_cache'))
    try:
        for m in mode.split('+'):
            if m != 'none':
                subprocess.check_call(['/verif/tools/autorefactor.py', m, root])
        print(f'### {mode}', flush=True)
        if a.suite:
            r = subprocess.run(['/venv/bin/python', '-m', 'pytest', '-q', '-p', 'no:cacheprovider', '--timeout=900', '-n', '8'],
                               cwd=root, stdout=subprocess.PIPE, stderr=subprocess.STDOUT, text=True,
                               env=dict(os.environ, PYTHONPATH=root))
            print('   suite:', r.stdout.strip().splitlines()[-1])
        with ThreadPoolExecutor(max_workers=12) as ex:
            res = list(ex.map(lambda p: run(p, root), pids))
        for pid, rc, out in res:
            if rc != 0:
                rc_all = 1
                print(f'== {pid} exit={rc}')
                for l in out.splitlines():
                    if 'VIOLATED' in l or 'ANALYSIS-ERROR' in l or 'Error' in l or 'floor' in l:
                        print('   ' + l[:360])
        if a.keep:
            print('kept', root)
    finally:
        if not a.keep:
            shutil.rmtree(d, ignore_errors=True)
sys.exit(rc_all)
