#!/venv/bin/python
"""Re-evaluate every seeded defect under /verif/seeded against the current /repo working tree and all checks;
update meta.json (detected_by, reports) and MATRIX.json.  usage: reseed.py [--fast] [ID ...]
--fast: per seed, run only the own property's check and the checks that reported it before (detected_by /
analysis_error_in of the stored meta.json); what other checks newly report is then not recorded."""
import json, os, sys, shutil
from concurrent.futures import ThreadPoolExecutor
sys.path.insert(0, '/verif')
from darrlint import selftest
SD = '/verif/seeded'
FAST = '--fast' in sys.argv
args = [a for a in sys.argv[1:] if a != '--fast']
ids = args or sorted(d for d in os.listdir(SD) if os.path.isdir(os.path.join(SD, d)))
pids = ['C%02d' % i for i in range(1, 21)]

def work(name):
    d = os.path.join(SD, name)
    sc = selftest.make_scratch('/repo')
    try:
        if not selftest.apply_patch(sc, os.path.join(d, 'patch.diff')):
            return name, None
        det = {}
        todo = pids
        if FAST:
            try:
                m0 = json.load(open(os.path.join(d, 'meta.json')))
                todo = sorted({m0['property']} | set(m0.get('detected_by', [])) | set(m0.get('analysis_error_in', [])))
            except Exception:
                todo = pids
        for p in todo:
            rc, out = selftest.run_check(p, sc)
            if rc == 1:
                det[p] = [l.split(' — ')[1][:120] + ' — ' + l.split(' — ')[-1][:160] for l in out.splitlines() if 'VIOLATED' in l][:3]
            elif rc == 2:
                det[p] = ['ANALYSIS-ERROR: ' + out.strip().splitlines()[-1][:200]]
        return name, det
    finally:
        shutil.rmtree(sc, ignore_errors=True)

with ThreadPoolExecutor(max_workers=12) as ex:
    res = list(ex.map(work, ids))
mp = os.path.join(SD, 'MATRIX.json')
matrix = json.load(open(mp)) if os.path.exists(mp) else {}
for name, det in res:
    if det is None:
        print(name, 'PATCH-DOES-NOT-APPLY')
        continue
    m = json.load(open(os.path.join(SD, name, 'meta.json')))
    viol = sorted(p for p, v in det.items() if not v[0].startswith('ANALYSIS-ERROR'))
    errs = sorted(p for p, v in det.items() if v[0].startswith('ANALYSIS-ERROR'))
    m['detected_by'], m['analysis_error_in'], m['reports'] = viol, errs, det
    m['detected_by_own_property_check'] = m['property'] in viol
    json.dump(m, open(os.path.join(SD, name, 'meta.json'), 'w'), indent=1)
    matrix[name] = viol
    print(name, 'own' if m['property'] in viol else 'MISSED-BY-OWN', viol, ('ERR ' + str(errs)) if errs else '')
json.dump(matrix, open(mp, 'w'), indent=1, sort_keys=True)
