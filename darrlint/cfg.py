"""L2: statement-level control-flow graph per function, hand-built over the
statement kinds the repository uses, with reachability-under-avoidance
queries (all the dominance / post-dominance questions the rules ask are of
the form "is there a path from A to B that avoids the set S").
"""
import ast
from collections import defaultdict

from .srcmodel import AnalysisError

CATCH_ALL = {'Exception', 'BaseException'}


def handler_names(h):
    if h.type is None:
        return {'BaseException'}
    t = h.type
    elts = t.elts if isinstance(t, ast.Tuple) else [t]
    out = set()
    for e in elts:
        out.add(ast.unparse(e).split('.')[-1])
    return out


def is_catch_all(h):
    return bool(handler_names(h) & CATCH_ALL)


class _Frame:
    def __init__(self, node):
        self.node = node
        self.part = 'body'
        self.handler_ids = []
        self.catch_all = any(is_catch_all(h) for h in node.handlers)
        self.finally_entry = None
        self.has_return = False
        self.exc_entered = False


class CFG:
    def __init__(self, fn):
        self.fn = fn
        self.kind = {}
        self.astnode = {}
        self.succ = defaultdict(list)      # id -> [(target, label)]
        self.pred = defaultdict(list)
        self.node_of = {}                  # id(ast stmt / handler) -> node id
        self.owner = {}                    # id(ast node) -> node id of enclosing stmt node
        self.withexit_of = {}              # id(With stmt) -> withexit node id
        self.after_finally = {}            # (node, target) -> labels of the normal exits that carry the re-raise edge
        self.n = 0
        self.entry = self._new('entry', fn)
        self.exit = self._new('exit', fn)
        self.rexit = self._new('raise_exit', fn)
        self._frames = []
        self._loops = []
        out = self._block(fn.body, [(self.entry, None)])
        self._connect(out, self.exit)

    # ---- construction ---------------------------------------------------
    def _new(self, kind, node):
        i = self.n
        self.n += 1
        self.kind[i] = kind
        self.astnode[i] = node
        return i

    def _edge(self, a, b, label=None):
        if (b, label) not in self.succ[a]:
            self.succ[a].append((b, label))
            self.pred[b].append((a, label))

    def _connect(self, preds, tgt):
        for p, lab in preds:
            self._edge(p, tgt, lab)

    def _own(self, exprs, nid):
        for e in exprs:
            if e is None:
                continue
            for n in ast.walk(e):
                self.owner[id(n)] = nid

    def _raise_targets(self, frames=None):
        """Where does an exception raised here go? returns list of node ids."""
        frames = self._frames if frames is None else frames
        tgts = []
        for fr in reversed(frames):
            if fr.part == 'body' and fr.handler_ids:
                tgts.extend(fr.handler_ids)
                if fr.catch_all:
                    return tgts
            if fr.part in ('body', 'handler', 'else') and fr.finally_entry is not None:
                fr.exc_entered = True
                tgts.append(fr.finally_entry)
                return tgts
        tgts.append(self.rexit)
        return tgts

    def _in_try_body(self):
        return any(fr.part == 'body' for fr in self._frames)

    def _mayraise(self, nid):
        if self._in_try_body():
            for t in self._raise_targets():
                self._edge(nid, t, 'exc')

    def _return_target(self):
        for fr in reversed(self._frames):
            if fr.part != 'finally' and fr.finally_entry is not None:
                fr.has_return = True
                return fr.finally_entry
        return self.exit

    def _block(self, stmts, preds):
        for st in stmts:
            preds = self._stmt(st, preds)
        return preds

    def _stmt(self, st, preds):
        if isinstance(st, ast.If):
            nid = self._new('if', st)
            self.node_of[id(st)] = nid
            self._own([st.test], nid)
            self.owner[id(st)] = nid
            self._connect(preds, nid)
            self._mayraise(nid)
            out = self._block(st.body, [(nid, True)])
            if st.orelse:
                out += self._block(st.orelse, [(nid, False)])
            else:
                out.append((nid, False))
            return out
        if isinstance(st, (ast.For, ast.While)):
            nid = self._new('loop', st)
            self.node_of[id(st)] = nid
            self.owner[id(st)] = nid
            if isinstance(st, ast.For):
                self._own([st.iter, st.target], nid)
            else:
                self._own([st.test], nid)
            self._connect(preds, nid)
            self._mayraise(nid)
            loop = {'header': nid, 'breaks': []}
            self._loops.append(loop)
            body_out = self._block(st.body, [(nid, 'body')])
            self._loops.pop()
            self._connect(body_out, nid)
            infinite = isinstance(st, ast.While) and isinstance(st.test, ast.Constant) \
                and bool(st.test.value)
            out = [] if infinite else [(nid, 'done')]
            if st.orelse:
                out = self._block(st.orelse, out)
            return out + loop['breaks']
        if isinstance(st, ast.With):
            nid = self._new('with', st)
            self.node_of[id(st)] = nid
            self.owner[id(st)] = nid
            for it in st.items:
                self._own([it.context_expr, it.optional_vars], nid)
            self._connect(preds, nid)
            self._mayraise(nid)
            out = self._block(st.body, [(nid, None)])
            xid = self._new('withexit', st)
            self.withexit_of[id(st)] = xid
            self._connect(out, xid)
            return [(xid, None)]
        if isinstance(st, ast.Try):
            fr = _Frame(st)
            if st.finalbody:
                fr.finally_entry = self._new('finally', st)
            for h in st.handlers:
                hid = self._new('handler', h)
                self.node_of[id(h)] = hid
                self.owner[id(h)] = hid
                self._own([h.type], hid)
                fr.handler_ids.append(hid)
            self._frames.append(fr)
            fr.part = 'body'
            out = self._block(st.body, preds)
            fr.part = 'else'
            if st.orelse:
                out = self._block(st.orelse, out)
            fr.part = 'handler'
            for h, hid in zip(st.handlers, fr.handler_ids):
                out += self._block(h.body, [(hid, None)])
            if st.finalbody:
                fr.part = 'finally'
                self._connect(out, fr.finally_entry)
                fout = self._block(st.finalbody, [(fr.finally_entry, None)])
                self._frames.pop()
                if fr.has_return:
                    rt = self._return_target()
                    self._connect([(p, 'return') for p, _ in fout], rt)
                if fr.exc_entered or True:
                    for t in self._raise_targets():
                        self._connect([(p, 'exc') for p, _ in fout], t)
                        for p, lab in fout:
                            # the pending exception propagates when the finally block completes: remember through which
                            # (branch) exit of its last statement that is
                            self.after_finally.setdefault((p, t), set()).add(lab)
                return fout
            self._frames.pop()
            return out
        if isinstance(st, (ast.FunctionDef, ast.ClassDef)):
            nid = self._new('def', st)
            self.node_of[id(st)] = nid
            self.owner[id(st)] = nid
            self._connect(preds, nid)
            return [(nid, None)]
        if isinstance(st, (ast.AsyncFunctionDef, ast.AsyncFor, ast.AsyncWith)) or \
                type(st).__name__ in ('Match', 'TryStar'):
            raise AnalysisError(f'unsupported statement {type(st).__name__} '
                                f'at line {st.lineno}')
        # simple statements
        kind = {ast.Return: 'return', ast.Raise: 'raise', ast.Break: 'break',
                ast.Continue: 'continue'}.get(type(st), 'stmt')
        nid = self._new(kind, st)
        self.node_of[id(st)] = nid
        self._own([st], nid)
        self._connect(preds, nid)
        if kind == 'return':
            self._edge(nid, self._return_target(), 'return')
            return []
        if kind == 'raise':
            for t in self._raise_targets():
                self._edge(nid, t, 'exc')
            return []
        if kind == 'break':
            if not self._loops:
                raise AnalysisError('break outside loop')
            self._loops[-1]['breaks'].append((nid, None))
            return []
        if kind == 'continue':
            self._edge(nid, self._loops[-1]['header'], None)
            return []
        self._mayraise(nid)
        if isinstance(st, ast.Assert):
            for t in self._raise_targets():
                self._edge(nid, t, 'exc')
        return [(nid, None)]

    # ---- queries ------------------------------------------------------------
    def node_for(self, astn):
        """CFG node of the statement that owns an ast node."""
        if id(astn) in self.node_of:
            return self.node_of[id(astn)]
        if id(astn) in self.owner:
            return self.owner[id(astn)]
        raise KeyError(f'no cfg node for {type(astn).__name__} at '
                       f'{getattr(astn, "lineno", "?")}')

    def reach(self, src, avoid=(), avoid_edges=(), skip_labels=()):
        """Set of nodes reachable from src (src itself included only if on a
        cycle) without entering nodes in `avoid`, without following edges in
        avoid_edges {(a, label)} and without following edges whose label is
        in skip_labels."""
        avoid = set(avoid)
        seen = set()
        stack = [src]
        first = True
        while stack:
            a = stack.pop()
            if not first and a in seen:
                continue
            if not first:
                seen.add(a)
            first = False
            for b, lab in self.succ[a]:
                if lab in skip_labels or (a, lab) in avoid_edges:
                    continue
                if b in avoid or b in seen:
                    continue
                stack.append(b)
        return seen

    def can_reach(self, src, dst, avoid=(), avoid_edges=(), skip_labels=()):
        if src == dst:
            return True
        return dst in self.reach(src, avoid, avoid_edges, skip_labels)

    def all_paths_pass(self, src, dst, through, skip_labels=()):
        """True iff every path src -> dst passes a node in `through`
        (vacuously true when dst is unreachable)."""
        through = set(through)
        if src in through or dst in through:
            return True
        return not self.can_reach(src, dst, avoid=through, skip_labels=skip_labels)

    def nodes(self):
        return range(self.n)

    def lineno(self, nid):
        return getattr(self.astnode[nid], 'lineno', 0)


def always_raises(stmts):
    """Every path through this statement list ends in `raise`."""
    if not stmts:
        return False
    last = stmts[-1]
    if isinstance(last, ast.Raise):
        return True
    if isinstance(last, ast.If):
        return always_raises(last.body) and always_raises(last.orelse)
    if isinstance(last, ast.With):
        return always_raises(last.body)
    if isinstance(last, ast.Try):
        ok = always_raises(last.body) or always_raises(last.orelse)
        return ok and all(always_raises(h.body) for h in last.handlers)
    return False


_cfg_cache = {}


def cfg_of(func):
    k = id(func.node)
    if k not in _cfg_cache:
        try:
            _cfg_cache[k] = CFG(func.node)
        except AnalysisError as e:
            raise AnalysisError(f'{func.key}: {e}')
    return _cfg_cache[k]
