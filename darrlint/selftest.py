"""Thorough tier: validate the checker itself, both ways.

* fires: every seeded defect under /verif/seeded/<id>/ whose meta.json lists
  this property under `detected_by` is applied to a scratch copy of /repo's
  working tree (darr/*.py + docs/, created with mkdtemp outside /repo and
  /verif, removed afterwards) and the same check is run with --root <scratch>;
  it must report a violation.
* returns: every `fix:` commit of /repo has its reverse patch under
  /verif/regress/<commit>/; re-introducing the defect must be reported again.
* stays silent: every behaviour-preserving variant under /verif/benign/<id>/
  must leave the check at exit 0.

Nothing of Darr is imported or executed; patches are applied with patch(1).
A patch that no longer applies to the current working tree is skipped and
listed (the tree has moved on), never counted as a failure.
A self-test failure means the *checker* is broken: ANALYSIS-ERROR, exit 2."""
import json
import os
import shutil
import subprocess
import sys
import tempfile
from concurrent.futures import ThreadPoolExecutor

VERIF = os.path.dirname(os.path.dirname(os.path.abspath(__file__)))


def make_scratch(root):
    d = tempfile.mkdtemp(prefix='darrlint-selftest-')
    os.makedirs(os.path.join(d, 'darr'))
    for fn in os.listdir(os.path.join(root, 'darr')):
        if fn.endswith('.py'):
            shutil.copy2(os.path.join(root, 'darr', fn), os.path.join(d, 'darr', fn))
    if os.path.isdir(os.path.join(root, 'docs')):
        shutil.copytree(os.path.join(root, 'docs'), os.path.join(d, 'docs'))
    return d


def apply_patch(scratch, patch):
    r = subprocess.run(['patch', '-p1', '--fuzz=3', '-s', '-f', '-i', patch], cwd=scratch,
                       stdout=subprocess.PIPE, stderr=subprocess.STDOUT, text=True)
    for dp, _, fns in os.walk(scratch):
        for fn in fns:
            if fn.endswith(('.orig', '.rej')):
                os.remove(os.path.join(dp, fn))
    return r.returncode == 0


def run_check(pid, scratch):
    r = subprocess.run([os.path.join(VERIF, 'check'), pid, '--tier', 'quick', '--root', scratch,
                        '--quiet', '--no-evidence'], stdout=subprocess.PIPE, stderr=subprocess.STDOUT, text=True,
                       env=dict(os.environ, DARRLINT_NO_REPLAY='1'))
    return r.returncode, r.stdout


MECHANICAL = ['rename-locals', 'swap-ifelse', 'flatten-else', 'guard-clause', 'split-chain', 'demorgan', 'kw-to-pos',
              'pos-to-kw', 'temporaries', 'joinpath-div', 'rename-private', 'rename-private-params', 'rename-locals+swap-ifelse+temporaries']


def one(pid, root, kind, name, patch):
    scratch = make_scratch(root)
    try:
        if kind == 'mechanical':
            # AST-level behaviour-preserving rewriting of the scratch copy (tools/autorefactor.py); nothing is executed
            for m in patch.split('+'):
                r = subprocess.run([os.path.join(VERIF, 'tools', 'autorefactor.py'), m, scratch],
                                   stdout=subprocess.PIPE, stderr=subprocess.STDOUT, text=True)
                if r.returncode != 0:
                    return (kind, name, 'skipped', f'autorefactor {m} failed: {r.stdout[-200:]}')
            kind_ = 'benign'
        elif not apply_patch(scratch, patch):
            return (kind, name, 'skipped', 'patch does not apply to the current tree')
        # the variant must still be valid Python
        for fn in os.listdir(os.path.join(scratch, 'darr')):
            with open(os.path.join(scratch, 'darr', fn), encoding='utf-8') as fh:
                try:
                    compile(fh.read(), fn, 'exec')
                except SyntaxError as e:
                    return (kind, name, 'skipped', f'variant does not compile: {e}')
        rc, out = run_check(pid, scratch)
        if kind == 'seeded':
            ok = rc == 1 and f'VIOLATION property={pid}' in out
            return (kind, name, 'ok' if ok else 'FAILED', f'exit {rc}' + ('' if ok else ' (expected a VIOLATION)'))
        ok = rc == 0
        first = [l for l in out.splitlines() if 'VIOLATED' in l or 'ANALYSIS-ERROR' in l][:1]
        if kind == 'benign-known-alarm':
            return (kind, name, 'ok' if ok else 'known-alarm', f'exit {rc}' + ('' if ok else f' (known false alarm) {first}'))
        return (kind, name, 'ok' if ok else 'FAILED', f'exit {rc}' + ('' if ok else f' (expected silence) {first}'))
    finally:
        shutil.rmtree(scratch, ignore_errors=True)


def corpus(pid):
    jobs = []
    sd = os.path.join(VERIF, 'seeded')
    if os.path.isdir(sd):
        for name in sorted(os.listdir(sd)):
            mp = os.path.join(sd, name, 'meta.json')
            pp = os.path.join(sd, name, 'patch.diff')
            if os.path.exists(mp) and os.path.exists(pp):
                with open(mp) as fh:
                    meta = json.load(fh)
                if pid in meta.get('detected_by', []):
                    jobs.append(('seeded', name, pp))
    rd = os.path.join(VERIF, 'regress')
    if os.path.isdir(rd):
        for name in sorted(os.listdir(rd)):
            mp = os.path.join(rd, name, 'meta.json')
            pp = os.path.join(rd, name, 'patch.diff')
            if os.path.exists(mp) and os.path.exists(pp):
                with open(mp) as fh:
                    meta = json.load(fh)
                if pid in meta.get('detected_by', []):
                    jobs.append(('seeded', 'reverted-fix-' + name, pp))
    for mode in MECHANICAL:
        jobs.append(('mechanical', mode, mode))
    bd = os.path.join(VERIF, 'benign')
    if os.path.isdir(bd):
        known = set()
        ka = os.path.join(bd, 'KNOWN_ALARMS')
        if os.path.exists(ka):
            with open(ka) as fh:
                known = {l.strip() for l in fh if l.strip() and not l.startswith('#')}
        for name in sorted(os.listdir(bd)):
            pp = os.path.join(bd, name, 'patch.diff')
            if os.path.exists(pp):
                # behaviour-preserving restructurings on which some checks are known to raise a false alarm (DESIGN 10.3):
                # they are run and reported, but an alarm on them does not fail the self-test
                jobs.append(('benign-known-alarm' if name in known else 'benign', name, pp))
    return jobs


def thorough(pid, root, seed):
    jobs = corpus(pid)
    if not jobs:
        print(f'{pid}: self-test corpus empty')
        return 0
    with ThreadPoolExecutor(max_workers=min(16, len(jobs))) as ex:
        results = list(ex.map(lambda j: one(pid, root, *j), jobs))
    failed = [r for r in results if r[2] == 'FAILED']
    skipped = [r for r in results if r[2] == 'skipped']
    nseed = sum(1 for r in results if r[0] == 'seeded' and r[2] == 'ok')
    nben = sum(1 for r in results if r[0] in ('benign', 'mechanical', 'benign-known-alarm') and r[2] == 'ok')
    known = [r for r in results if r[2] == 'known-alarm']
    print(f'{pid}: self-test — {nseed} seeded defect(s) reported, {nben} behaviour-preserving variant(s) silent, '
          f'{len(known)} known false alarm(s) on heavy restructurings, {len(skipped)} skipped, {len(failed)} failed')
    for r in known:
        print(f'  known false alarm: {r[1]}: {r[3][:160]}')
    for r in skipped:
        print(f'  skipped {r[0]} {r[1]}: {r[3]}')
    # merge into the evidence file
    evp = os.path.join(VERIF, 'evidence', f'{pid}.json')
    try:
        with open(evp) as fh:
            ev = json.load(fh)
        ev['tier'] = 'thorough'
        ev['coverage']['selftest'] = {'seeded_defects_reported': nseed, 'benign_variants_silent': nben,
                                      'known_false_alarms': [list(r) for r in known],
                                      'skipped': [list(r) for r in skipped], 'failed': [list(r) for r in failed],
                                      'cases': [list(r) for r in results]}
        with open(evp, 'w') as fh:
            json.dump(ev, fh, indent=1, default=str)
    except Exception:
        pass
    if failed:
        for r in failed:
            print(f'ANALYSIS-ERROR property={pid} self-test: {r[0]} variant {r[1]}: {r[3]}')
        return 2
    return 0
