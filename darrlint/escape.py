"""R-ESC (no view of the memory map escapes a closing context), R-PAIR
(acquire/release of the map and of file objects) and the opener model shared
by C12 / C14 / C19."""
import ast

from .srcmodel import own_nodes, AnalysisError
from .astutil import dotted, get_arg, norm, enclosing, defs_of, assignments
from .resolve import MEMMAP, NDARRAY, FILE
from .cfg import cfg_of, always_raises, handler_names

VIEW_ATTRS = {'T', 'real', 'imag', 'base', 'flat', '_mmap', 'mT'}
SCALAR_ATTRS = {'dtype', 'shape', 'size', 'ndim', 'nbytes', 'itemsize', 'flags', 'strides',
                'filename', 'offset', 'mode'}
VIEW_METHODS = {'reshape', 'view', 'ravel', 'squeeze', 'transpose', 'swapaxes', 'diagonal',
                'byteswap_inplace', 'newbyteorder', 'getfield', '__getitem__'}
COPY_METHODS = {'copy', 'astype', 'tolist', 'tobytes', 'tostring', 'sum', 'mean', 'min', 'max',
                'item', 'flatten', 'all', 'any', 'prod', 'std', 'var', 'argmax', 'argmin',
                'nonzero', 'round', 'cumsum', 'dot', 'byteswap', 'tofile', 'flush', 'close',
                'lstrip', 'splitlines'}
NP_VIEW_FUNCS = {'np.asarray', 'np.asanyarray', 'np.ascontiguousarray', 'np.squeeze', 'np.reshape',
                 'np.ravel', 'np.transpose', 'np.atleast_1d', 'np.atleast_2d', 'np.swapaxes',
                 'np.moveaxis', 'np.broadcast_to', 'np.expand_dims', 'np.flip', 'np.asfortranarray',
                 'np.lib.stride_tricks.as_strided', 'np.frombuffer'}
SCALAR_BUILTINS = {'len', 'str', 'repr', 'int', 'float', 'bool', 'complex', 'hash', 'id', 'type',
                   'isinstance', 'hasattr', 'print', 'slice', 'range', 'min', 'max', 'sum'}
MEMMAP_ONLY = {'flush', '_mmap', 'filename', 'offset', 'mode'}


def find_opener(ctx):
    """(Func, map_attr, fd_attr): the generator context manager of Array that
    caches np.memmap in a self attribute."""
    out = []
    for f in ctx.repo.all_funcs():
        if not (f.is_ctxmgr and f.cls is not None):
            continue
        def is_map(v, depth=0):
            if isinstance(v, ast.Call) and dotted(v.func) in ('np.memmap', 'numpy.memmap'):
                return True
            if isinstance(v, ast.Name) and depth < 3:
                return any(is_map(x, depth + 1) for x, _ in defs_of(f.node, v.id))
            return False
        for n in own_nodes(f.node):
            if isinstance(n, ast.Assign) and is_map(n.value):
                for t in n.targets:
                    d = dotted(t)
                    if d and d.startswith('self.'):
                        out.append((f, d.split('.', 1)[1]))
    out = sorted(set(out), key=lambda x: x[0].key)
    if len(out) != 1:
        raise AnalysisError(f'opener role not unique: {[(f.qualname, a) for f, a in out]}')
    f, mattr = out[0]
    fdattr = None
    for a, lst in f.cls.attr_exprs.items():
        for g, val, _ in lst:
            if g is f and FILE in ctx.R.etype(val, f) and a != mattr:
                fdattr = a
    return f, mattr, fdattr


def map_yielders(ctx):
    """Context managers whose yielded value contains the raw map."""
    out = []
    for f in ctx.repo.all_funcs():
        if not f.is_ctxmgr:
            continue
        ts = ctx.R.yield_types(f)

        def has_map(t):
            if t == MEMMAP:
                return True
            if isinstance(t, tuple) and t and t[0] == 'tuple':
                return any(has_map(x) for fs in t[1] for x in fs)
            return False
        if any(has_map(t) for t in ts):
            out.append(f)
    return out


def _target_names(t, types, R):
    """Names in a with-target that are bound to map-typed components."""
    out = set()
    if isinstance(t, ast.Name):
        if MEMMAP in types:
            out.add(t.id)
    elif isinstance(t, (ast.Tuple, ast.List)):
        for ty in types:
            if isinstance(ty, tuple) and ty and ty[0] == 'tuple' and len(ty[1]) == len(t.elts):
                for sub, st in zip(t.elts, ty[1]):
                    out |= _target_names(sub, set(st), R)
    return out


class Taint:
    """Intra-procedural taint of names that alias the memory map."""
    def __init__(self, ctx, func, seeds, attr_seeds=()):
        self.ctx = ctx
        self.func = func
        self.T = set(seeds)
        self.A = set(attr_seeds)      # dotted attribute expressions that are the map itself
        changed = True
        while changed:
            changed = False
            for nm, val, st in assignments(func.node):
                if '.' in nm or nm in self.T:
                    continue
                if isinstance(st, ast.With):
                    continue
                if isinstance(st, (ast.For, ast.comprehension)):
                    # iterating over a map yields row views
                    if self.level(val) == 'view':
                        self.T.add(nm)
                        changed = True
                    continue
                if isinstance(st, ast.AugAssign):
                    continue
                if self.level(val) == 'view':
                    self.T.add(nm)
                    changed = True

    def level(self, e):
        """'view' (aliases the map), 'clean', or 'unknown'."""
        if e is None:
            return 'clean'
        if isinstance(e, ast.Name):
            return 'view' if e.id in self.T else 'clean'
        if isinstance(e, ast.Constant):
            return 'clean'
        if isinstance(e, ast.Subscript):
            return self.level(e.value) if self.level(e.value) != 'clean' else 'clean'
        if isinstance(e, ast.Starred):
            return self.level(e.value)
        if isinstance(e, ast.Attribute):
            if dotted(e) in self.A:
                return 'view'
            lv = self.level(e.value)
            if lv == 'clean':
                return 'clean'
            if e.attr in SCALAR_ATTRS:
                return 'clean'
            if e.attr in VIEW_ATTRS:
                return lv
            return 'unknown'
        if isinstance(e, (ast.Tuple, ast.List, ast.Set)):
            ls = [self.level(x) for x in e.elts]
            return 'view' if 'view' in ls else ('unknown' if 'unknown' in ls else 'clean')
        if isinstance(e, ast.IfExp):
            ls = [self.level(e.body), self.level(e.orelse)]
            return 'view' if 'view' in ls else ('unknown' if 'unknown' in ls else 'clean')
        if isinstance(e, (ast.BinOp, ast.UnaryOp, ast.Compare, ast.BoolOp, ast.JoinedStr)):
            return 'clean'
        if isinstance(e, ast.Call):
            nm = dotted(e.func) or ''
            args = list(e.args) + [k.value for k in e.keywords]
            if nm == 'np.array':
                cp = get_arg(e, None, 'copy')
                src = self.level(e.args[0]) if e.args else 'clean'
                if cp is None or (isinstance(cp, ast.Constant) and cp.value is True):
                    return 'clean'
                return src
            if nm in NP_VIEW_FUNCS:
                return self.level(e.args[0]) if e.args else 'clean'
            if nm in SCALAR_BUILTINS:
                return 'clean'
            if nm in ('list', 'tuple', 'iter', 'reversed', 'enumerate', 'zip'):
                ls = [self.level(a) for a in args]
                return 'view' if 'view' in ls else 'clean'
            if isinstance(e.func, ast.Attribute):
                lv = self.level(e.func.value)
                if lv == 'clean':
                    # a call on an untainted receiver with tainted arguments: the repo's own
                    # __getitem__ etc. copy; np.* functions compute new arrays
                    return 'clean'
                if e.func.attr in COPY_METHODS:
                    return 'clean'
                if e.func.attr in VIEW_METHODS:
                    return lv
                return 'unknown'
            return 'clean'
        if isinstance(e, (ast.ListComp, ast.GeneratorExp, ast.SetComp)):
            lv = self.level(e.elt)
            return lv
        return 'clean'


def with_blocks(ctx, yielders):
    """Yield (func, with_stmt, seeds) for every with-block on a map-yielding
    context manager."""
    ykeys = {f.key for f in yielders}
    for f in ctx.repo.all_funcs():
        for n in own_nodes(f.node):
            if not isinstance(n, ast.With):
                continue
            seeds = set()
            hit = False
            for it in n.items:
                if not isinstance(it.context_expr, ast.Call):
                    continue
                tg = [t for k, t in ctx.R.resolve_call(it.context_expr, f) if k == 'repo']
                if not tg or tg[0].key not in ykeys:
                    continue
                hit = True
                if it.optional_vars is not None:
                    seeds |= _target_names(it.optional_vars, ctx.R.ctx_yield_types(it.context_expr, f), ctx.R)
            if hit:
                yield f, n, seeds


def esc_obligations(ctx, clause, only_funcs=None):
    """R-ESC over every with-block on a map-yielding manager.  Returns the
    number of blocks analysed."""
    opener, mattr, fdattr = find_opener(ctx)
    yielders = map_yielders(ctx)
    allowed_reyield = {opener.qualname: 'the opener itself (found by role)',
                       'RaggedArray._view': 'deprecated low-level access, documented as such',
                       'RaggedArray.open_arrays': 'low-level access used by RaggedArray internals'}
    for f in yielders:
        if f.qualname not in allowed_reyield:
            ctx.bad('R-ESC', clause, f, None, 'raw-map-yielder',
                    f'{f.qualname} hands out the raw memory map',
                    detail=f'only {sorted(allowed_reyield)} may yield the raw map; a new context manager '
                           f'that yields it lets views outlive the mapping')
        else:
            ctx.ok('R-ESC', clause, f, None, 'raw-map-yielder',
                   f'{f.qualname} yields the raw map — frozen: {allowed_reyield[f.qualname]}')
    nblocks = 0
    for f, w, seeds in with_blocks(ctx, yielders):
        if only_funcs is not None and f.qualname not in only_funcs:
            continue
        nblocks += 1
        if f.qualname in allowed_reyield:
            continue
        T = Taint(ctx, f, seeds)
        leaks = []
        unknown = []
        for n in own_nodes(f.node):
            val = None
            kind = None
            if isinstance(n, ast.Return) and n.value is not None:
                val, kind = n.value, 'return'
            elif isinstance(n, (ast.Yield, ast.YieldFrom)) and n.value is not None:
                val, kind = n.value, 'yield'
            elif isinstance(n, ast.Assign):
                for t in n.targets:
                    d = dotted(t)
                    if d and d.startswith('self.') and not isinstance(t, ast.Subscript):
                        val, kind = n.value, f'store in {d}'
            elif isinstance(n, ast.Call) and isinstance(n.func, ast.Attribute) and \
                    n.func.attr in ('append', 'extend', 'add', 'insert', 'setdefault', 'put') and n.args:
                val, kind = n.args[-1], f'{norm(n.func)}(...)'
            if val is None:
                continue
            lv = T.level(val)
            if lv == 'view':
                leaks.append((n, kind, val))
            elif lv == 'unknown':
                unknown.append((n, kind, val))
        construct = f'with::{norm(w.items[0].context_expr.func)}::{",".join(sorted(seeds)) or "-"}'
        inst = (f'{f.qualname}: nothing aliasing the map ({sorted(T.T)}) leaves the '
                f'`with {norm(w.items[0].context_expr)[:40]}` block except through a copy')
        if leaks:
            n, kind, val = leaks[0]
            ctx.bad('R-ESC', clause, f, n, construct, inst,
                    detail=f'{kind} of `{norm(val)[:60]}`: a view of a memory map that is closed when '
                           f'the context ends (first touch reads unmapped memory)',
                    witness=[f'{f.loc(x)} {k}: {norm(v)[:60]}' for x, k, v in leaks])
        elif unknown:
            n, kind, val = unknown[0]
            ctx.assume('R-ESC', clause, f, n, construct, inst,
                       detail=f'{kind} of `{norm(val)[:60]}` uses an operation the taint table does not know')
        else:
            ctx.ok('R-ESC', clause, f, w, construct, inst)
    # the cached map attribute itself must not escape from any method of the class
    if only_funcs is None:
        for f in opener.cls.all_funcs():
            if f is opener:
                continue
            T = Taint(ctx, f, set(), attr_seeds={f'self.{mattr}'})
            for n in own_nodes(f.node):
                val = None
                if isinstance(n, ast.Return) and n.value is not None:
                    val, kind = n.value, 'return'
                elif isinstance(n, (ast.Yield, ast.YieldFrom)) and n.value is not None:
                    val, kind = n.value, 'yield'
                if val is not None and T.level(val) == 'view':
                    ctx.bad('R-ESC', clause, f, n, f'cached-map-escapes::{kind}',
                            f'{f.qualname}: the cached map self.{mattr} does not leave the method except through a copy',
                            detail=f'{kind} of `{norm(val)[:60]}`: a view of the shared memory map reaches the '
                                   f'caller; it changes under later writes and is unmapped when the context ends')
    return nblocks


def substitute_compat(ctx, clause):
    """The opener may yield a plain ndarray instead of a memmap (empty arrays):
    memmap-only attributes must be guarded."""
    yielders = map_yielders(ctx)
    opener, mattr, fdattr = find_opener(ctx)
    n = 0
    # inside the opener: uses on self.<mattr>
    sites = []
    for f in ctx.repo.all_funcs():
        names = set()
        if f is opener:
            names |= _aliases(f, f'self.{mattr}')
        for g, w, seeds in with_blocks(ctx, yielders):
            if g is f:
                names |= seeds
        if not names:
            continue
        for a in own_nodes(f.node):
            if isinstance(a, ast.Attribute) and a.attr in MEMMAP_ONLY and dotted(a.value) in names:
                sites.append((f, a))
    for f, a in sites:
        n += 1
        guarded = False
        for p, field in enclosing(f.node, a):
            if isinstance(p, ast.If) and field == 'body':
                t = norm(p.test)
                if ('hasattr(' in t and (a.attr in t or '_mmap' in t or 'flush' in t)) or \
                        ('isinstance(' in t and 'memmap' in t):
                    guarded = True
            if isinstance(p, ast.Try) and field == 'body' and any(
                    'AttributeError' in norm(h.type) for h in p.handlers if h.type is not None):
                guarded = True
        ctx.decide(guarded, 'R-SIB', clause, f, a, f'memmap-only::{a.attr}',
                   f'{f.qualname}: memmap-only attribute `{norm(a)}` is used under a hasattr/isinstance guard',
                   detail='for arrays whose first axis has length 0 the opener yields a plain ndarray '
                          f'that has no `{a.attr}`: AttributeError instead of NumPy semantics')
    return n


def _aliases(func, target_text):
    """Flow-insensitive alias closure of a resource held in a name / self attribute (plain copies in both directions)."""
    al = {target_text}
    changed = True
    while changed:
        changed = False
        for n in own_nodes(func.node):
            if isinstance(n, ast.Assign) and len(n.targets) == 1:
                t, v = n.targets[0], n.value
                tt = dotted(t) if isinstance(t, (ast.Name, ast.Attribute)) else None
                vt = dotted(v) if isinstance(v, (ast.Name, ast.Attribute)) else None
                if tt and vt:
                    if vt in al and tt not in al:
                        al.add(tt)
                        changed = True
                    if tt in al and vt not in al:
                        al.add(vt)
                        changed = True
    return al


def _may_raise_implicitly(g, nid):
    """Can the statement of this CFG node raise on its own (calls, subscripts, arithmetic, suspension points)?"""
    st = g.astnode[nid]
    k = g.kind[nid]
    if k in ('entry', 'exit', 'raise_exit', 'finally', 'withexit', 'handler', 'def'):
        return False
    parts = [st]
    if k == 'if':
        parts = [st.test]
    elif k == 'loop':
        parts = [st.iter] if isinstance(st, ast.For) else [st.test]
    elif k == 'with':
        parts = [it.context_expr for it in st.items]
    for p_ in parts:
        for x in ast.walk(p_):
            if isinstance(x, (ast.Call, ast.Subscript, ast.BinOp, ast.Yield, ast.YieldFrom, ast.Await)):
                # hasattr / isinstance / `is None` tests do not raise
                if isinstance(x, ast.Call) and dotted(x.func) in ('hasattr', 'isinstance', 'callable'):
                    continue
                if isinstance(x, ast.Call) and isinstance(x.func, ast.Attribute) and x.func.attr == 'close' and not x.args:
                    continue            # releasing is taken not to fail
                return True
    return False


def _uncaught_base_exception(func, node):
    """A suspension point (yield) can raise GeneratorExit / KeyboardInterrupt there: is there an enclosing try that
    handles BaseException (bare except, BaseException, GeneratorExit) or has a finally?  Returns True when such an
    exception would leave the function without passing any handler or finally block."""
    for p, field in enclosing(func.node, node):
        if isinstance(p, ast.Try) and field in ('body', 'orelse', 'handlers'):
            if p.finalbody:
                return False
            if field == 'body' and any(h.type is None or handler_names(h) & {'BaseException', 'GeneratorExit'} for h in p.handlers):
                return False
        if isinstance(p, ast.With):
            continue
    return True


def leak_paths(func, acq_stmt, target_text, via=None, release_nodes=None):
    """Release-on-all-exits for a resource acquired by `acq_stmt` into `target_text` (name or self.attr): returns a list
    of human-readable leak descriptions (empty = every way out of the function after the acquisition passes a release).
    Release = <alias>.close() (or <alias>.<via>.close() when `via` is given, `del <alias>`).  Tests `<alias> is not
    None` / `hasattr(<alias>, ...)` are taken as true while no reset of that alias to None lies between the acquisition
    and the test.  Implicit exceptions count: a statement that can raise outside any try leaves the function."""
    g = cfg_of(func)
    al = _aliases(func, target_text)
    rel = set()
    for n in own_nodes(func.node):
        if isinstance(n, ast.Call) and isinstance(n.func, ast.Attribute) and n.func.attr == 'close':
            recv = dotted(n.func.value) or ''
            if (via is None and recv in al) or (via is not None and any(recv == f'{a}.{via}' for a in al)):
                rel.add(g.node_for(n))
        if isinstance(n, ast.Delete) and any(dotted(x) in al for x in n.targets):
            rel.add(g.node_for(n))
        # `with <alias>:` — the object's own context-manager protocol closes it on every way out of the block
        if isinstance(n, ast.With) and via is None and any(dotted(it.context_expr) in al for it in n.items):
            try:
                rel.add(g.node_for(n))
            except KeyError:
                pass
    if release_nodes is not None:
        rel = set(release_nodes)
    a0 = g.node_for(acq_stmt)
    resets = {}
    for n in own_nodes(func.node):
        if isinstance(n, ast.Assign) and isinstance(n.value, ast.Constant) and n.value.value is None:
            for t in n.targets:
                d = dotted(t)
                if d in al:
                    resets.setdefault(d, []).append(g.node_for(n))
    after_acq = g.reach(a0)

    def fold_at(nid):
        test = g.astnode[nid].test

        def atom(x):
            subj = None
            val = None
            if isinstance(x, ast.Compare) and len(x.ops) == 1 and isinstance(x.comparators[0], ast.Constant) and \
                    x.comparators[0].value is None and isinstance(x.ops[0], (ast.Is, ast.IsNot)):
                subj, val = dotted(x.left), isinstance(x.ops[0], ast.IsNot)
            elif isinstance(x, ast.Call) and dotted(x.func) == 'hasattr' and x.args:
                subj, val = dotted(x.args[0]), True
                if via is None or not (len(x.args) > 1 and isinstance(x.args[1], ast.Constant) and x.args[1].value == via):
                    return None
            elif isinstance(x, (ast.Name, ast.Attribute)):
                subj, val = dotted(x), True
            if subj is None or subj not in al:
                return None
            for r in resets.get(subj, []):
                if r in after_acq and nid in g.reach(r):
                    return None
            return val
        from .rules import eval_bool
        return eval_bool(test, atom)
    seen, stack, leaks = set(), [b for b, lab in g.succ[a0]], []
    # the acquisition itself may raise: then nothing was acquired (exc edges of a0 are not followed)
    stack = [b for b, lab in g.succ[a0] if lab != 'exc']
    while stack:
        n = stack.pop()
        if n in seen or n in rel:
            continue
        seen.add(n)
        if n == g.exit:
            leaks.append('a normal completion does not release it')
            continue
        if n == g.rexit:
            leaks.append('an exception leaves the function without releasing it')
            continue
        succ = g.succ[n]
        if g.kind[n] == 'if':
            v = fold_at(n)
            succ = [(b, lab) for b, lab in succ if v is None or lab == v or
                    (lab == 'exc' and ((n, b) not in g.after_finally or v in g.after_finally[(n, b)]))]
        has_exc = any(lab == 'exc' for _, lab in succ)
        st_ = g.astnode[n]
        if g.kind[n] == 'stmt' and any(isinstance(x, (ast.Yield, ast.YieldFrom)) for x in ast.walk(st_)) and \
                _uncaught_base_exception(func, st_):
            leaks.append(f'GeneratorExit / KeyboardInterrupt raised at the yield (line {getattr(st_, "lineno", "?")}) is not caught by '
                         f'any enclosing handler (`except Exception` does not catch it) and there is no finally: the generator is '
                         f'closed without releasing it')
        if not has_exc and g.kind[n] not in ('raise', 'return') and _may_raise_implicitly(g, n):
            st = g.astnode[n]
            leaks.append(f'`{norm(st)[:50] if not isinstance(st, (ast.If, ast.For, ast.While, ast.With)) else type(st).__name__.lower()}` '
                         f'(line {getattr(st, "lineno", "?")}) can raise outside any try: the exception leaves the function '
                         f'without releasing it')
        stack.extend(b for b, lab in succ)
    return leaks


def pair_obligations(ctx, clause):
    """R-PAIR: the opener releases map and file on every exit; every other
    open() in the package is a with-item or is closed on all paths."""
    opener, mattr, fdattr = find_opener(ctx)
    ctx.info['opener'] = f'{opener.qualname} caches self.{mattr} / self.{fdattr}'
    tries = [n for n in own_nodes(opener.node) if isinstance(n, ast.Try) and n.finalbody]
    if not tries:
        # no finally block: decide the release on the CFG (every way out after the acquisition — normal, exceptional,
        # generator close at the yield — passes the close of the file and of the map, and resets the cache)
        facq = [n for n in own_nodes(opener.node) if isinstance(n, ast.Assign) and len(n.targets) == 1 and
                isinstance(n.value, ast.Call) and dotted(n.value.func) in ('open', 'io.open')]
        wacq = [n for n in own_nodes(opener.node) if isinstance(n, ast.With) and any(
            isinstance(it.context_expr, ast.Call) and dotted(it.context_expr.func) in ('open', 'io.open') for it in n.items)]
        macq = [n for n in own_nodes(opener.node) if isinstance(n, ast.Assign) and
                any(dotted(x) == f'self.{mattr}' for x in n.targets) and isinstance(n.value, ast.Call) and
                dotted(n.value.func) in ('np.memmap', 'numpy.memmap')]
        regs = [n for n in own_nodes(opener.node) if isinstance(n, ast.Assign) and
                any(dotted(x) == f'self.{mattr}' for x in n.targets) and
                not (isinstance(n.value, ast.Constant) and n.value.value is None)]
        why = []
        for a_ in facq:
            why += leak_paths(opener, a_, dotted(a_.targets[0]) or '?')
        if not facq and not wacq:
            why.append('no acquisition of the data file found')
        for a_ in macq:
            why += leak_paths(opener, a_, f'self.{mattr}', via='_mmap')
        g = cfg_of(opener)
        for a_ in regs:
            resets_ = {g.node_for(n) for n in own_nodes(opener.node) if isinstance(n, ast.Assign) and
                       any(dotted(x) == f'self.{mattr}' for x in n.targets) and isinstance(n.value, ast.Constant)
                       and n.value.value is None}
            lk = leak_paths(opener, a_, f'self.{mattr}', release_nodes=resets_)
            why += [w.replace('releasing it', f'resetting self.{mattr}') for w in lk]
        ctx.decide(not why, 'R-PAIR', clause, opener, None, 'finally', 'the opener releases map and file and resets its cache on '
                   'every exit (decided on the CFG: there is no finally block)',
                   detail=(why[0] if why else ''))
        if why:
            return
        ctx.ok('R-PAIR', clause, opener, None, 'closes-mmap', f'every exit after a map registration passes the close of its mmap')
        ctx.ok('R-PAIR', clause, opener, None, 'closes-fd', 'the data file object is closed on every exit')
        for a in (mattr, fdattr):
            if a:
                ctx.ok('R-PAIR', clause, opener, None, f'resets::{a}', f'self.{a} is reset on every exit')
        _other_opens(ctx, clause)
        return
    t = tries[0]
    fin = ast.Module(body=t.finalbody, type_ignores=[])
    # yields of freshly opened maps are inside the try
    for y in (n for n in own_nodes(opener.node) if isinstance(n, ast.Yield)):
        inside_try = any(p is t and field == 'body' for p, field in enclosing(opener.node, y))
        # a borrower yield is one that no registration of the cache (self.<map attr> = <non-None>) can reach:
        # it hands out an object somebody else owns and has nothing to release
        g = cfg_of(opener)
        regs = [n for n in own_nodes(opener.node) if isinstance(n, ast.Assign) and
                any(dotted(x) == f'self.{mattr}' for x in n.targets) and
                not (isinstance(n.value, ast.Constant) and n.value.value is None)]
        borrowed = not any(g.can_reach(g.node_for(r), g.node_for(y), skip_labels=('exc',)) for r in regs)
        ctx.decide(inside_try or borrowed, 'R-PAIR', clause, opener, y, 'yield-inside-try',
                   'the owner path yields inside the try whose finally releases',
                   detail='yield outside the try: GeneratorExit / exceptions skip the release')
    closes_map = any(isinstance(n, ast.Call) and isinstance(n.func, ast.Attribute) and n.func.attr == 'close'
                     and '_mmap' in norm(n.func) and f'self.{mattr}' in norm(n.func) for n in ast.walk(fin)) or \
        any(isinstance(n, ast.Delete) and any(f'self.{mattr}' == dotted(x) for x in n.targets) for n in ast.walk(fin))
    if not closes_map:
        # semantic form: every way out after a map registration passes `<alias>._mmap.close()`
        macq = [n for n in own_nodes(opener.node) if isinstance(n, ast.Assign) and
                any(dotted(x) == f'self.{mattr}' for x in n.targets) and isinstance(n.value, ast.Call) and
                dotted(n.value.func) in ('np.memmap', 'numpy.memmap')]
        closes_map = bool(macq) and not any(leak_paths(opener, a_, f'self.{mattr}', via='_mmap') for a_ in macq)
    ctx.decide(closes_map, 'R-PAIR', clause, opener, t, 'closes-mmap',
               f'finally closes the mmap of self.{mattr}',
               detail='the map is left to reference counting: a retained exception/traceback keeps the '
                      'mapping and its descriptor open')
    resets = {dotted(x) for n in ast.walk(fin) if isinstance(n, ast.Assign)
              and isinstance(n.value, ast.Constant) and n.value.value is None for x in n.targets}
    for a in (mattr, fdattr):
        if a is None:
            continue
        ctx.decide(f'self.{a}' in resets, 'R-PAIR', clause, opener, t, f'resets::{a}',
                   f'finally resets self.{a} to None',
                   detail='a stale cached handle would be served to the next user')
    fd_closed = any(isinstance(n, ast.Call) and isinstance(n.func, ast.Attribute) and n.func.attr == 'close'
                    and fdattr and f'self.{fdattr}' in norm(n.func) for n in ast.walk(fin))
    fd_with = any(isinstance(n, ast.With) and any(isinstance(it.context_expr, ast.Call) and
                  dotted(it.context_expr.func) == 'open' for it in n.items) for n in own_nodes(opener.node))
    if not (fd_closed or fd_with) and fdattr:
        facq = [n for n in own_nodes(opener.node) if isinstance(n, ast.Assign) and len(n.targets) == 1 and
                isinstance(n.value, ast.Call) and dotted(n.value.func) in ('open', 'io.open')]
        fd_closed = bool(facq) and not any(leak_paths(opener, a_, dotted(a_.targets[0]) or '?') for a_ in facq)
    ctx.decide(fd_closed or fd_with, 'R-PAIR', clause, opener, t, 'closes-fd',
               'the data file object is closed on every exit (with-item and/or close in finally)',
               detail='file descriptor leak')
    bad = [n for n in ast.walk(fin) if isinstance(n, (ast.Return, ast.Yield, ast.YieldFrom))]
    ctx.decide(not bad, 'R-PAIR', clause, opener, bad[0] if bad else t, 'no-return-in-finally',
               'no return/yield inside the finally block', detail='return in finally swallows exceptions')
    _other_opens(ctx, clause)


def _other_opens(ctx, clause):
    # every other open( in the package
    n = 0
    for f in ctx.repo.all_funcs():
        for c in (x for x in own_nodes(f.node) if isinstance(x, ast.Call)):
            if dotted(c.func) not in ('open', 'io.open', 'tarfile.open'):
                continue
            n += 1
            is_with_item = any(isinstance(p, ast.withitem) for p, _ in list(enclosing(f.node, c))[:1])
            if is_with_item:
                ctx.ok('R-PAIR', clause, f, c, f'open::{norm(c)[:40]}', f'{f.qualname}: open() is a with-item')
                continue
            # assigned to a name that is closed on every path afterwards
            ok = False
            for p, field in list(enclosing(f.node, c))[:1]:
                if isinstance(p, ast.Assign) and len(p.targets) == 1 and isinstance(p.targets[0], ast.Name):
                    nm = p.targets[0].id
                    closes = [x for x in own_nodes(f.node) if isinstance(x, ast.Call) and
                              isinstance(x.func, ast.Attribute) and x.func.attr == 'close' and
                              dotted(x.func.value) == nm]
                    from .rules import must_follow
                    cfg = cfg_of(f)
                    s = cfg.node_for(p)
                    obl = {cfg.node_for(x) for x in closes}
                    ok = bool(obl) and not cfg.can_reach(s, cfg.exit, avoid=obl, skip_labels=('exc',)) \
                        and not cfg.can_reach(s, cfg.rexit, avoid=obl, skip_labels=('exc',))
            why = 'file object neither used as a with-item nor closed on all paths'
            if not ok:
                for p, field in list(enclosing(f.node, c))[:1]:
                    if isinstance(p, ast.Assign) and len(p.targets) == 1 and dotted(p.targets[0]):
                        lk = leak_paths(f, p, dotted(p.targets[0]))
                        ok = not lk
                        if lk:
                            why = lk[0]
            ctx.decide(ok, 'R-PAIR', clause, f, c, f'open::{norm(c)[:40]}',
                       f'{f.qualname}: file object from `{norm(c)[:40]}` is closed on every path',
                       detail=why)
    ctx.floor('R-PAIR open() sites', n, 8)
