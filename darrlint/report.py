"""Obligations, verdicts, evidence files, VIOLATION / KNOWN-FINDING lines."""
import json
import os
import sys
import time
import traceback

from .srcmodel import Repo, AnalysisError
from .resolve import Resolver
from .effects import Effects

VERIF = os.path.dirname(os.path.dirname(os.path.abspath(__file__)))
DISCHARGED, VIOLATED, ASSUMED = 'discharged', 'violated', 'assumed'


class Ob:
    """One obligation = one rule instance at one construct."""
    def __init__(self, rule, clause, where, construct, instance, verdict,
                 detail='', witness=None):
        self.rule = rule              # e.g. 'R-DOM'
        self.clause = clause          # e.g. 'D1'
        self.where = where            # 'darr/array.py:123 Func.qualname'
        self.construct = construct    # position-free key
        self.instance = instance      # human text
        self.verdict = verdict
        self.detail = detail
        self.witness = witness or []
        self.known = None

    def line(self, pid):
        v = self.verdict.upper() if self.known is None else 'KNOWN'
        return f'{pid} {self.rule}/{self.clause} {self.where} — {self.instance} — {v}' + \
            (f' ({self.detail})' if self.detail and self.verdict != DISCHARGED else '')

    def as_dict(self):
        return {'rule': self.rule, 'clause': self.clause, 'where': self.where,
                'construct': self.construct, 'instance': self.instance,
                'verdict': self.verdict if self.known is None else 'known-finding',
                'detail': self.detail, 'witness': self.witness}


class Ctx:
    """Shared analysis context handed to every property module."""
    def __init__(self, root, tier, seed, expand=False):
        self.root = root
        self.tier = tier
        self.seed = seed
        self.repo = Repo(root, expand=expand)
        from .astutil import register_signatures
        register_signatures(self.repo)
        self.R = Resolver(self.repo)
        self.E = Effects(self.repo, self.R)
        self.obs = []
        self.info = {}
        self.floors = []      # (label, found, minimum)
        self.notes = []       # triaged candidate reports outside the property

    def ob(self, rule, clause, func_or_where, node, construct, instance, verdict,
           detail='', witness=None, role_key=None):
        if isinstance(func_or_where, str):
            where = func_or_where
            key = f'{construct}::{rule}'
        else:
            f = func_or_where
            ln = getattr(node, 'lineno', f.node.lineno) if node is not None else f.node.lineno
            where = f'{f.module.relpath}:{ln} {f.qualname}'
            key = f'{f.key}::{construct}::{rule}' if role_key is None else \
                f'{f.module.relpath}::<{role_key}>::{construct}::{rule}'
        o = Ob(rule, clause, where, key, instance, verdict, detail, witness)
        self.obs.append(o)
        return o

    def ok(self, *a, **k):
        return self.ob(*a, verdict=DISCHARGED, **k)

    def bad(self, *a, **k):
        return self.ob(*a, verdict=VIOLATED, **k)

    def assume(self, *a, **k):
        return self.ob(*a, verdict=ASSUMED, **k)

    def decide(self, cond, *a, detail='', **k):
        return self.ob(*a, verdict=DISCHARGED if cond else VIOLATED,
                       detail='' if cond else detail, **k)

    def floor(self, label, found, minimum):
        self.floors.append((label, found, minimum))


def load_known():
    p = os.path.join(VERIF, 'known_findings.json')
    if not os.path.exists(p):
        return []
    with open(p) as fh:
        return json.load(fh).get('findings', [])


def _counterpart(key, verdicts):
    """The same obligation positively decided on the inlined form: identical construct key, or a key of the same
    rule in the same function whose construct is a prefix of the other (rules refine the construct with the failure
    mode they found, e.g. `...::self._append` vs `...::self._append::raise`)."""
    if verdicts.get(key) in (DISCHARGED, ASSUMED):
        return True
    stem, _, rule = key.rpartition('::')
    for k, v in verdicts.items():
        s2, _, r2 = k.rpartition('::')
        if r2 == rule and v in (DISCHARGED, ASSUMED) and (stem.startswith(s2 + '::') or s2.startswith(stem + '::')):
            return True
    return False


def _same_clause_decided(o, byfunc):
    """Rules name the construct after what they found (or missed), so the good and the bad outcome of one clause
    can carry different keys: accept when the same rule and clause were positively decided for the same function on
    the inlined form and nothing of that rule/clause is violated there."""
    fn = o.where.split()[-1] if o.where else ''
    mine = [v for r, c, f, v in byfunc if r == o.rule and c == o.clause and f == fn]
    return bool(mine) and VIOLATED not in mine and DISCHARGED in mine


def _second_opinion(pid, module, tier, root, seed, open_known):
    """Re-run the property on the helper-inlined equivalent form of the package (inline.py).
    Returns {'clean': bool, 'inlined': [...]} or None when that form cannot be built/analysed
    or nothing was inlined.  'clean' = no violated obligation (other than open known findings)
    and every non-vacuity floor met."""
    try:
        ctx2 = Ctx(root, tier, seed, expand=True)
        if not ctx2.repo.expanded:
            return None
        _, _, _, ambiguous = ctx2.R.resolution_stats()
        if ambiguous:
            return None
        module.run(ctx2)
        if any(found < minimum for _, found, minimum in ctx2.floors) or not ctx2.obs:
            return {'clean': False, 'inlined': ctx2.repo.expanded}
        bad = [o for o in ctx2.obs if o.verdict == VIOLATED and o.construct not in open_known]
        return {'clean': not bad, 'inlined': ctx2.repo.expanded, 'violated': [o.construct for o in bad],
                'verdicts': {o.construct: o.verdict for o in ctx2.obs},
                'obs': {o.construct: o for o in ctx2.obs},
                'byfunc': [(o.rule, o.clause, o.where.split()[-1] if o.where else '', o.verdict) for o in ctx2.obs]}
    except AnalysisError:
        return None
    except Exception:
        return None


def run(pid, module, tier, root, seed, quiet=False, evidence=True):
    """Run one property check.  Returns exit status (0/1/2)."""
    t0 = time.time()
    evdir = os.path.join(VERIF, 'evidence')
    def attempt(expand):
        c = Ctx(root, tier, seed, expand=expand)
        if expand and not c.repo.expanded:
            raise AnalysisError('nothing to inline')
        # purely structural clauses that need no call resolution come first: what they establish stands even when the
        # resolver has to give up afterwards
        if hasattr(module, 'pre'):
            module.pre(c)
        _, _, _, ambiguous = c.R.resolution_stats()
        try:
            if ambiguous:
                raise AnalysisError(f'unresolved calls on possible repo receivers: {ambiguous}')
            module.run(c)
        except AnalysisError as e:
            # a violation positively identified before the analysis had to stop is still a violation
            if not any(o.verdict == VIOLATED for o in c.obs):
                raise
            c.notes.append(f'analysis stopped early: {e}')
            c.incomplete = str(e)
        ff = [f'{label}: found {found} < {minimum}' for label, found, minimum in c.floors if found < minimum]
        if ff and not any(o.verdict == VIOLATED for o in c.obs):
            raise AnalysisError(f'non-vacuity floor not met: {"; ".join(ff)}')
        if not c.obs:
            raise AnalysisError('no obligations generated')
        return c, ff
    adopted = None
    try:
        try:
            ctx, floor_fail = attempt(False)
        except AnalysisError as e:
            # the source as written is outside the modelled subset: analyse the helper-inlined equivalent form
            try:
                ctx, floor_fail = attempt(True)
                adopted = f'analysis of the source as written was not possible ({e}); the equivalent form with the ' \
                          f'private helper(s) {", ".join(ctx.repo.expanded)} inlined was analysed instead'
            except AnalysisError:
                raise e
            except Exception:
                raise e
    except AnalysisError as e:
        print(f'ANALYSIS-ERROR property={pid} {e}')
        return 2
    except Exception:
        traceback.print_exc()
        print(f'ANALYSIS-ERROR property={pid} internal error in the checker (see traceback)')
        return 2

    known = [k for k in load_known() if k.get('property') == pid]
    open_known = {k['construct']: k for k in known if k.get('status') == 'open'}
    second_opinion = None
    if adopted is None and any(o.verdict == VIOLATED and o.construct not in open_known for o in ctx.obs):
        second_opinion = _second_opinion(pid, module, tier, root, seed, open_known)
        if second_opinion is not None and second_opinion['clean']:
            for o in ctx.obs:
                # the very same obligation (same rule, function and construct) must have been positively decided on
                # the inlined form; an obligation that merely vanished there stays violated
                # (or the obligation is about a helper that no longer exists there because it was inlined into its
                # callers, where its statements were analysed in their context)
                fname = o.where.split()[-1].split('.')[-1] if o.where else ''
                if o.verdict == VIOLATED and o.construct not in open_known and \
                        (_counterpart(o.construct, second_opinion['verdicts']) or
                         _same_clause_decided(o, second_opinion['byfunc']) or
                         (fname in second_opinion['inlined'] and o.construct not in second_opinion['verdicts'])):
                    o.verdict = DISCHARGED
                    o.instance += ' [shape not found in the source as written; found in the equivalent form with the ' \
                                  f'private helper(s) {", ".join(second_opinion["inlined"])} inlined]'
                    o.detail = ''
            if not any(o.verdict == VIOLATED for o in ctx.obs):
                floor_fail = []
    if adopted is None and any(o.verdict == ASSUMED for o in ctx.obs):
        # an obligation the rules could not decide on the source as written (shape outside the modelled subset) is decided
        # on the helper-inlined equivalent form when the very same obligation gets a verdict there; obligations of the
        # same rule and clause in the same function that only arise there (the rule got further) are taken over as well
        so = second_opinion if second_opinion is not None else _second_opinion(pid, module, tier, root, seed, open_known)
        if so is not None and so.get('obs'):
            note = ' [decided on the equivalent form with the private helper(s) / delegated generator(s) ' \
                   f'{", ".join(so["inlined"])} inlined]'
            have = {o.construct for o in ctx.obs}
            for o in list(ctx.obs):
                if o.verdict != ASSUMED:
                    continue
                o2 = so['obs'].get(o.construct)
                if o2 is None or o2.verdict == ASSUMED:
                    continue
                o.verdict, o.detail, o.instance = o2.verdict, o2.detail, o2.instance + note
                fn = o.where.split()[-1] if o.where else ''
                for c2, x in so['obs'].items():
                    if c2 not in have and x.rule == o.rule and x.clause == o.clause and x.verdict == VIOLATED and \
                            (x.where.split()[-1] if x.where else '') == fn:
                        x.instance += note
                        ctx.obs.append(x)
                        have.add(c2)
    nviol = 0
    lines = []
    replay_paths = []
    os.makedirs(os.path.join(evdir, 'replay'), exist_ok=True)
    # clear old replay files of this property
    if not os.environ.get('DARRLINT_NO_REPLAY'):
        for fn in os.listdir(os.path.join(evdir, 'replay')):
            if fn.startswith(pid + '-'):
                os.remove(os.path.join(evdir, 'replay', fn))
    for o in ctx.obs:
        if o.verdict == VIOLATED and o.construct in open_known:
            o.known = open_known[o.construct]
    for o in ctx.obs:
        if o.verdict != DISCHARGED or not quiet:
            lines.append(o.line(pid))
        if o.verdict == VIOLATED and o.known is not None:
            lines.append(f'KNOWN-FINDING: property={pid} {o.known["what_fails"]} [{o.construct}]')
        elif o.verdict == VIOLATED:
            nviol += 1
            rp = os.path.join(evdir, 'replay', f'{pid}-{nviol}.json')
            if not os.environ.get('DARRLINT_NO_REPLAY'):
                with open(rp, 'w') as fh:
                    json.dump({'property': pid, 'root': root, **o.as_dict()}, fh, indent=1)
            replay_paths.append(rp)
            lines.append(f'VIOLATION property={pid} replay={rp}')
    for ff in floor_fail:
        lines.append(f'NOTE: non-vacuity floor not met ({ff}); reported together with the violations above')
    stale = [c for c in open_known if not any(o.construct == c and o.verdict == VIOLATED for o in ctx.obs)]
    for c in stale:
        lines.append(f'NOTE: known finding no longer reproduced by the rules: {c}')
    if adopted:
        lines.append('NOTE: ' + adopted)
    if getattr(ctx, 'incomplete', None):
        lines.append('NOTE: analysis stopped early (' + ctx.incomplete + '); the violations above were established before that point')
    print('\n'.join(lines))
    n = len(ctx.obs)
    nd = sum(1 for o in ctx.obs if o.verdict == DISCHARGED)
    na = sum(1 for o in ctx.obs if o.verdict == ASSUMED)
    nk = sum(1 for o in ctx.obs if o.known is not None)
    print(f'{pid}: {n} obligations, {nd} discharged, {na} assumed, {nk} known findings, '
          f'{nviol} violations [{tier}] {time.time() - t0:.2f}s')
    if evidence:
        rules = {}
        for o in ctx.obs:
            rules.setdefault(f'{o.rule}/{o.clause}', [0, 0])
            rules[f'{o.rule}/{o.clause}'][0] += 1
            rules[f'{o.rule}/{o.clause}'][1] += o.verdict == DISCHARGED
        samples = [o.as_dict() for o in ctx.obs if o.verdict != DISCHARGED][:10]
        seen_rules = set()
        for o in ctx.obs:
            if (o.rule, o.clause) not in seen_rules and len(samples) < 25:
                seen_rules.add((o.rule, o.clause))
                samples.append(o.as_dict())
        total, resolved, unresolved, _ = ctx.R.resolution_stats()
        ev = {
            'property_id': pid, 'tier': tier, 'seed': seed, 'level': 'other',
            'coverage': {
                'explanation': module.EXPLANATION,
                'obligations': n, 'discharged': nd, 'assumed': na,
                'known_findings': nk, 'violated': nviol,
                'evaluations': n,
                'distinct_nontrivial': len({o.construct for o in ctx.obs}),
                'rule': 'one obligation per (rule, construct); distinct = distinct construct keys',
                'rules': {k: {'instances': v[0], 'discharged': v[1]} for k, v in sorted(rules.items())},
                'floors': [{'what': l, 'found': f, 'minimum': m} for l, f, m in ctx.floors],
                'analysed': {
                    'root': root,
                    'files': ctx.repo.digest(),
                    'functions': sum(1 for _ in ctx.repo.all_funcs()),
                    'calls_total': total, 'calls_resolved': resolved,
                    'calls_on_non_repo_receivers_unresolved': len(unresolved),
                    'type_fixpoint_rounds': ctx.R.rounds,
                    **ctx.info,
                },
                'samples': samples,
                'triaged_outside_property': ctx.notes,
                'exhaustive': True,
            },
            'assumptions': list(module.ASSUMPTIONS),
            'wall_s': round(time.time() - t0, 3),
            'violations': nviol,
        }
        os.makedirs(evdir, exist_ok=True)
        with open(os.path.join(evdir, f'{pid}.json'), 'w') as fh:
            json.dump(ev, fh, indent=1, default=str)
    return 1 if nviol else 0
