"""L3: generic rule machinery shared by the property modules."""
import ast

from .cfg import cfg_of, always_raises
from .astutil import dotted, names_in, enclosing, norm, get_arg, derived
from .srcmodel import own_nodes, AnalysisError

# ---------------------------------------------------------------------------
# condition evaluation for mode gates
# ---------------------------------------------------------------------------


def is_mode_expr(e):
    d = dotted(e)
    return d is not None and d.split('.')[-1] in ('accessmode', '_accessmode')


def eval_mode_test(test, mode):
    """Truth value of `test` when every accessmode expression equals `mode`;
    None when the test is not (only) a mode test."""
    if isinstance(test, ast.UnaryOp) and isinstance(test.op, ast.Not):
        v = eval_mode_test(test.operand, mode)
        return None if v is None else (not v)
    if isinstance(test, ast.Compare) and len(test.ops) == 1:
        l, op, r = test.left, test.ops[0], test.comparators[0]
        if is_mode_expr(r) and not is_mode_expr(l):
            l, r = r, l
            swapped = True
        else:
            swapped = False
        if not is_mode_expr(l):
            return None
        try:
            val = ast.literal_eval(r)
        except Exception:
            return None
        if isinstance(op, ast.Eq):
            return mode == val
        if isinstance(op, ast.NotEq):
            return mode != val
        if isinstance(op, ast.In) and not swapped and isinstance(val, (tuple, list, set, frozenset)):
            return mode in val
        if isinstance(op, ast.NotIn) and not swapped and isinstance(val, (tuple, list, set, frozenset)):
            return mode not in val
        return None
    if isinstance(test, ast.BoolOp):
        vals = [eval_mode_test(v, mode) for v in test.values]
        if isinstance(test.op, ast.Or):
            if any(v is True for v in vals):
                return True
            if all(v is False for v in vals):
                return False
            return None
        if all(v is True for v in vals):
            return True
        if any(v is False for v in vals):
            return False
        return None
    return None


def mentions_mode(test):
    return any(is_mode_expr(n) for n in ast.walk(test)
               if isinstance(n, (ast.Name, ast.Attribute)))


def is_writeable_flag(e):
    """ar.flags.writeable / ar.flags['WRITEABLE'] / ar.flags['W']"""
    if isinstance(e, ast.Attribute) and e.attr == 'writeable' and \
            isinstance(e.value, ast.Attribute) and e.value.attr == 'flags':
        return True
    if isinstance(e, ast.Subscript) and isinstance(e.value, ast.Attribute) and \
            e.value.attr == 'flags' and isinstance(e.slice, ast.Constant) and \
            str(e.slice.value).upper() in ('WRITEABLE', 'W'):
        return True
    return False


def eval_writeable_test(test, writeable):
    if isinstance(test, ast.UnaryOp) and isinstance(test.op, ast.Not):
        v = eval_writeable_test(test.operand, writeable)
        return None if v is None else (not v)
    if is_writeable_flag(test):
        return writeable
    if isinstance(test, ast.Compare) and len(test.ops) == 1 and is_writeable_flag(test.left) \
            and isinstance(test.comparators[0], ast.Constant):
        c = test.comparators[0].value
        if isinstance(test.ops[0], (ast.Eq, ast.Is)):
            return writeable == c
        if isinstance(test.ops[0], (ast.NotEq, ast.IsNot)):
            return writeable != c
    return None


# ---------------------------------------------------------------------------
# gate specifications
# ---------------------------------------------------------------------------

class GateSpec:
    """Subclasses decide which `If` tests are gates.  classify() returns
    None (not a gate), ('gate', text) or ('bad', text) / ('assumed', text)."""
    name = 'gate'

    def classify_if(self, ifnode, func, ctx):
        raise NotImplementedError

    def forbidden_fold(self, func, ctx):
        """Optional semantic form of the gate: a branch-test evaluator (test -> True/False/None) describing
        the situation the gate must refuse (mode 'r'; target exists and overwrite is false).  GateAnalysis
        prunes the CFG with it, so that a site counts as gated when it is unreachable in that situation —
        whatever the layout of the tests (nested, split, guard clauses, either polarity)."""
        return None


class ModeGate(GateSpec):
    """G1: accessmode comparison whose read-only outcome always raises (and
    whose read-write outcome does not); G1w: writeable-flag test."""
    name = 'mode-gate'

    def classify_if(self, st, func, ctx):
        body_raises = always_raises(st.body)
        else_raises = always_raises(st.orelse)
        if not (body_raises or else_raises):
            return None
        t = st.test
        r, rw = eval_mode_test(t, 'r'), eval_mode_test(t, 'r+')
        if r is not None and rw is not None:
            ro_raises = body_raises if r else else_raises
            rw_raises = body_raises if rw else else_raises
            if ro_raises and not rw_raises:
                return ('gate', f'G1 mode test `{norm(t)}`')
            if not ro_raises:
                return ('bad', f'mode test `{norm(t)}` does not raise in mode r')
            return ('bad', f'mode test `{norm(t)}` raises in mode r+ as well')
        w, nw = eval_writeable_test(t, True), eval_writeable_test(t, False)
        if w is not None:
            ro_raises = body_raises if nw else else_raises
            w_raises = body_raises if w else else_raises
            if ro_raises and not w_raises:
                return ('gate', f'G1w writeable-flag test `{norm(t)}`')
            return ('bad', f'writeable-flag test `{norm(t)}` has the wrong polarity')
        if (mentions_mode(t) and any(isinstance(n, ast.Constant) and n.value in ('r', 'r+')
                                     for n in ast.walk(t))) or \
                any(is_writeable_flag(n) for n in ast.walk(t)):
            return ('assumed', f'unmodelled mode test `{norm(t)}`')
        return None


def _mode_forbidden(test):
    v = eval_mode_test(test, 'r')
    if v is not None:
        return v
    return eval_writeable_test(test, False)


ModeGate.forbidden_fold = lambda self, func, ctx: _mode_forbidden


class GateAnalysis:
    """Interprocedural gate dominance (R-DOM) for one GateSpec."""

    def __init__(self, ctx, spec, extra_gate_calls=None):
        self.ctx = ctx
        self.spec = spec
        self._gates = {}
        self._isgate = {}
        self._ungated = {}
        self._inprogress = set()
        self.bad_gates = []       # (func, node, text)
        self.assumed_gates = []
        self.extra = extra_gate_calls or (lambda call, func: None)

    def local_gates(self, func, _stack=()):
        """node id -> description, for gate nodes inside func (If tests and
        statements that call a gate function)."""
        if func.key in self._gates:
            return self._gates[func.key]
        if func.key in self._inprogress:
            return {}
        self._inprogress.add(func.key)
        cfg = cfg_of(func)
        gates = {}
        for n in own_nodes(func.node):
            if isinstance(n, ast.If):
                c = self.spec.classify_if(n, func, self.ctx)
                if c is None:
                    continue
                if c[0] == 'gate':
                    gates[cfg.node_for(n)] = c[1]
                elif c[0] == 'bad':
                    self.bad_gates.append((func, n, c[1]))
                else:
                    self.assumed_gates.append((func, n, c[1]))
        for node, callee in self.ctx.E.callees(func):
            if callee.key == func.key or callee.key in _stack:
                continue
            if self.is_gate_func(callee, _stack + (func.key,)):
                try:
                    gates.setdefault(cfg.node_for(node), f'G2 call of gate function {callee.qualname}')
                except KeyError:
                    pass
        for n in own_nodes(func.node):
            if isinstance(n, ast.Call):
                x = self.extra(n, func)
                if x:
                    gates.setdefault(cfg.node_for(n), x)
        self._inprogress.discard(func.key)
        self._gates[func.key] = gates
        return gates

    def free_nodes(self, func, gates):
        """CFG nodes reachable from the entry without passing a gate node and — when the spec has a semantic
        form — still reachable after pruning the branches with the forbidden situation folded in."""
        cfg = cfg_of(func)
        free = cfg.reach(cfg.entry, avoid=gates) | {cfg.entry}
        ft = self.spec.forbidden_fold(func, self.ctx)
        if ft is not None:
            from .pathcond import reach_under
            free &= reach_under(func, ft, avoid=gates) | {cfg.entry}
        return free

    def is_gate_func(self, func, _stack=()):
        """Every path from entry to the normal exit passes a gate."""
        if func.key in self._isgate:
            return self._isgate[func.key]
        if func.key in _stack or len(_stack) > 8:
            return False
        cfg = cfg_of(func)
        gates = self.local_gates(func, _stack)
        res = cfg.exit not in self.free_nodes(func, set(gates))
        if func.key not in self._inprogress:
            self._isgate[func.key] = res
        return res

    def ungated(self, func, is_site, _stack=()):
        """-> list of (chain [(Func, node)...], Effect) for matching effect
        sites reachable from func's entry without passing a gate."""
        if func.key in _stack or len(_stack) > 10:
            return []
        cfg = cfg_of(func)
        gates = set(self.local_gates(func))
        free = self.free_nodes(func, gates)
        out = []
        for e in self.ctx.E.primitives(func):
            if not is_site(e):
                continue
            nid = cfg.node_for(e.node)
            if nid in free:
                out.append(([(func, e.node)], e))
        for node, callee in self.ctx.E.callees(func):
            try:
                nid = cfg.node_for(node)
            except KeyError:
                continue
            if nid not in free:
                continue
            if nid in gates:
                continue
            for chain, e in self.ungated(callee, is_site, _stack + (func.key,)):
                out.append(([(func, node)] + chain, e))
        return out

    def gated_sites(self, func, is_site, _stack=(), gated=False):
        """All (chain, Effect, gated?) reachable from func (for counting)."""
        if func.key in _stack or len(_stack) > 10:
            return []
        cfg = cfg_of(func)
        gates = set(self.local_gates(func))
        free = self.free_nodes(func, gates)
        out = []
        for e in self.ctx.E.primitives(func):
            if is_site(e):
                nid = cfg.node_for(e.node)
                out.append(([(func, e.node)], e, gated or nid not in free))
        for node, callee in self.ctx.E.callees(func):
            try:
                nid = cfg.node_for(node)
            except KeyError:
                continue
            g = gated or nid not in free or nid in gates
            for chain, e, gg in self.gated_sites(callee, is_site, _stack + (func.key,), g):
                out.append(([(func, node)] + chain, e, gg))
        return out


def chain_text(chain):
    return ' -> '.join(f'{f.qualname}@{getattr(n, "lineno", "?")}' for f, n in chain)


def chain_key(chain):
    return '>'.join(f.qualname for f, _ in chain)


# ---------------------------------------------------------------------------
# must-follow (R-POST)
# ---------------------------------------------------------------------------

def must_follow(func, site_node, obligation_nodes, include_exc=False):
    """Every normal path from the site to the function's normal exit passes
    one of obligation_nodes."""
    cfg = cfg_of(func)
    s = cfg.node_for(site_node)
    obl = set()
    for n in obligation_nodes:
        try:
            obl.add(cfg.node_for(n))
        except KeyError:
            pass
    if s in obl:
        return True
    skip = () if include_exc else ('exc',)
    return not cfg.can_reach(s, cfg.exit, avoid=obl, skip_labels=skip)


def must_precede(func, site_node, gate_nodes):
    """Every path from entry to the site passes one of gate_nodes."""
    cfg = cfg_of(func)
    s = cfg.node_for(site_node)
    g = set()
    for n in gate_nodes:
        try:
            g.add(cfg.node_for(n))
        except KeyError:
            pass
    g.discard(s)
    return not cfg.can_reach(cfg.entry, s, avoid=g)


def calls_to(func, ctx, pred):
    """Call nodes in func whose resolved repo callee satisfies pred(Func)."""
    out = []
    for node, callee in ctx.E.callees(func):
        if pred(callee):
            out.append((node, callee))
    return out


def transitively_calls(func, ctx, pred, _seen=None, depth=0):
    """Does func (transitively) call a repo function satisfying pred?"""
    _seen = _seen if _seen is not None else set()
    if func.key in _seen or depth > 8:
        return False
    _seen.add(func.key)
    for _, callee in ctx.E.callees(func):
        if pred(callee) or transitively_calls(callee, ctx, pred, _seen, depth + 1):
            return True
    return False


# ---------------------------------------------------------------------------
# small boolean evaluator over named atoms (overwrite / exists gates)
# ---------------------------------------------------------------------------

def eval_bool(test, atoms):
    """atoms: function(expr) -> True/False/None for atomic sub-expressions."""
    if isinstance(test, ast.UnaryOp) and isinstance(test.op, ast.Not):
        v = eval_bool(test.operand, atoms)
        return None if v is None else (not v)
    if isinstance(test, ast.BoolOp):
        vals = [eval_bool(v, atoms) for v in test.values]
        if isinstance(test.op, ast.Or):
            if any(v is True for v in vals):
                return True
            return False if all(v is False for v in vals) else None
        if any(v is False for v in vals):
            return False
        return True if all(v is True for v in vals) else None
    if isinstance(test, ast.Constant):
        return bool(test.value)
    return atoms(test)


def is_exists_call(e):
    return (isinstance(e, ast.Call) and isinstance(e.func, ast.Attribute)
            and e.func.attr in ('exists', 'is_file', 'is_dir', 'lexists')) or \
        (isinstance(e, ast.Call) and dotted(e.func) in ('os.path.exists', 'os.path.lexists',
                                                         'os.path.isfile', 'os.path.isdir'))


class OverwriteGate(GateSpec):
    """GV: a test that raises exactly when the target exists and `overwrite`
    is false."""
    name = 'overwrite-gate'

    def classify_if(self, st, func, ctx):
        body_raises = always_raises(st.body)
        else_raises = always_raises(st.orelse)
        if not (body_raises or else_raises):
            return None
        has_ow = any(isinstance(n, ast.Name) and n.id == 'overwrite' for n in ast.walk(st.test))
        has_ex = any(is_exists_call(n) for n in ast.walk(st.test))
        if not (has_ow and has_ex):
            return None

        def mk(ex, ow):
            def atoms(e):
                if is_exists_call(e):
                    return ex
                if isinstance(e, ast.Name) and e.id == 'overwrite':
                    return ow
                return None
            return atoms
        res = {}
        for ex in (True, False):
            for ow in (True, False):
                v = eval_bool(st.test, mk(ex, ow))
                if v is None:
                    return ('assumed', f'unmodelled overwrite test `{norm(st.test)}`')
                res[(ex, ow)] = body_raises if v else else_raises
        if res[(True, False)] and not res[(True, True)] and not res[(False, False)] \
                and not res[(False, True)]:
            return ('gate', f'GV overwrite gate `{norm(st.test)}`')
        if not res[(True, False)]:
            return ('bad', f'overwrite test `{norm(st.test)}` does not raise when the target '
                           f'exists and overwrite is false')
        return ('bad', f'overwrite test `{norm(st.test)}` also raises when writing is allowed')


def _overwrite_forbidden(self, func, ctx):
    """exists() -> True, overwrite -> False; an exists() call is folded only when it takes part in a raising
    nest of tests that also mentions `overwrite` (other existence tests of the function are left undecided)."""
    from .pathcond import raising_ifs
    texts = set()
    for st, rb, ob, pol in raising_ifs(func):
        chain = [st] + [p for p, _ in enclosing(func.node, st) if isinstance(p, ast.If)]
        if any(isinstance(n, ast.Name) and n.id == 'overwrite' for c in chain for n in ast.walk(c.test)):
            for c in chain:
                for n in ast.walk(c.test):
                    if is_exists_call(n):
                        texts.add(norm(n))
    if not texts:
        return None

    def atoms(e):
        if is_exists_call(e) and norm(e) in texts:
            return True
        if isinstance(e, ast.Name) and e.id == 'overwrite':
            return False
        return None
    return lambda test: eval_bool(test, atoms)


OverwriteGate.forbidden_fold = _overwrite_forbidden


def handler_reraises(h, exc_names=None):
    """Every path through the handler body ends in raise (optionally of one
    of the given exception class names; bare raise always qualifies)."""
    if not always_raises(h.body):
        return False
    if exc_names is None:
        return True
    ok = True
    for n in ast.walk(ast.Module(body=h.body, type_ignores=[])):
        if isinstance(n, ast.Raise) and n.exc is not None:
            e = n.exc.func if isinstance(n.exc, ast.Call) else n.exc
            nm = (dotted(e) or '').split('.')[-1]
            if nm not in exc_names:
                ok = False
    return ok


# ---------------------------------------------------------------------------
# order-type enumeration: a test that only *compares* a few quantities is
# decided by evaluating it on every weak ordering of those quantities
# ---------------------------------------------------------------------------
import itertools as _it


def weak_orderings(names):
    """All weak orderings of `names` as dicts name -> rank (0-based)."""
    n = len(names)
    seen = set()
    for vals in _it.product(range(n), repeat=n):
        ranks = sorted(set(vals))
        canon = tuple(ranks.index(v) for v in vals)
        if canon in seen:
            continue
        seen.add(canon)
        yield dict(zip(names, canon))
