"""Helper inlining: build a semantically equivalent form of the package in which calls of
eligible private helpers are replaced by the helper's body.

Why: the rules are recognisers of *good shapes* inside one function (a serialisation that
precedes a truncating open, a validation that precedes the first effect, a handle that is
constructed inside a try ...).  "Extract a private helper" is the most common
behaviour-preserving refactoring and moves half of such a shape into another function.
A shape found in the inlined program proves the same thing about the original program
(the two are equivalent), so report.run() consults the inlined form before it turns an
unrecognised shape into a VIOLATION.

Eligible helper: name with a single leading underscore; plain function or method without
decorators, *args/**kwargs, yield, global/nonlocal or nested definitions; not recursive;
its simple name is defined once in the package; it is only ever called (never passed as
a value); every call site is a statement-level call (expression statement, the value of
an assignment / augmented assignment, or of a return); its returns are in tail position
(or the call site is itself a `return`).  A helper is inlined everywhere or not at all.
"""
import ast
import copy

MAXROUNDS = 6


def _is_private(name):
    return name.startswith('_') and not name.startswith('__')


def _simple(e):
    if isinstance(e, (ast.Name, ast.Constant)):
        return True
    if isinstance(e, ast.Attribute):
        return _simple(e.value)
    return False


def _terminal(stmts):
    if not stmts:
        return False
    last = stmts[-1]
    if isinstance(last, (ast.Return, ast.Raise)):
        return True
    if isinstance(last, ast.If):
        return _terminal(last.body) and _terminal(last.orelse)
    if isinstance(last, ast.With):
        return _terminal(last.body)
    return False


def _has_return(node_or_list):
    nodes = node_or_list if isinstance(node_or_list, list) else [node_or_list]
    for n in nodes:
        for x in ast.walk(n):
            if isinstance(x, ast.Return):
                return True
    return False


class NotTail(Exception):
    pass


def _tailify(stmts, sink):
    """Rewrite a statement list whose returns are in tail position, replacing every
    `return e` by sink(e).  Raises NotTail when a return sits in a loop or a try."""
    out = []
    for i, st in enumerate(stmts):
        if isinstance(st, ast.Return):
            return out + sink(st.value)
        if not _has_return(st):
            out.append(st)
            continue
        rest = stmts[i + 1:]
        if isinstance(st, ast.If):
            body = st.body if _terminal(st.body) else st.body + copy.deepcopy(rest)
            orelse = st.orelse if _terminal(st.orelse) else st.orelse + copy.deepcopy(rest)
            new = ast.If(test=st.test, body=_tailify(body, sink) or [ast.Pass()], orelse=_tailify(orelse, sink))
            return out + [ast.copy_location(new, st)]
        if isinstance(st, ast.With) and not rest:
            new = ast.With(items=st.items, body=_tailify(st.body, sink) or [ast.Pass()])
            return out + [ast.copy_location(new, st)]
        if isinstance(st, ast.Try) and not rest and not st.finalbody:
            # `try: return f(x)  except E: raise ...`  ->  `try: t = f(x)  except E: raise ...`
            body = _tailify(st.body, sink) or [ast.Pass()]
            handlers = [ast.copy_location(ast.ExceptHandler(type=h.type, name=h.name,
                                                            body=_tailify(h.body, sink) or [ast.Pass()]), h)
                        for h in st.handlers]
            orelse = _tailify(st.orelse, sink) if st.orelse else []
            new = ast.Try(body=body, handlers=handlers, orelse=orelse, finalbody=[])
            return out + [ast.copy_location(new, st)]
        raise NotTail()
    return out


class _Helper:
    def __init__(self, node, cls, modname):
        self.node, self.cls, self.modname = node, cls, modname
        a = node.args
        self.params = [x.arg for x in a.posonlyargs + a.args]
        self.kwonly = [x.arg for x in a.kwonlyargs]
        pos = a.posonlyargs + a.args
        self.defaults = {}
        for p, d in zip(pos[len(pos) - len(a.defaults):], a.defaults):
            self.defaults[p.arg] = d
        for p, d in zip(a.kwonlyargs, a.kw_defaults):
            if d is not None:
                self.defaults[p.arg] = d
        self.is_method = cls is not None and not any(
            isinstance(d, ast.Name) and d.id == 'staticmethod' for d in node.decorator_list)


def _eligible_def(fn, allow_yield=False):
    if fn.args.vararg or fn.args.kwarg:
        return False
    if any(not (isinstance(d, ast.Name) and d.id == 'staticmethod') for d in fn.decorator_list):
        return False
    for n in ast.walk(fn):
        if n is fn:
            continue
        if allow_yield and isinstance(n, (ast.Yield, ast.YieldFrom)):
            continue
        if isinstance(n, (ast.Yield, ast.YieldFrom, ast.Await, ast.Global, ast.Nonlocal, ast.FunctionDef,
                          ast.AsyncFunctionDef, ast.ClassDef)):
            return False
        if isinstance(n, ast.Call):
            nm = n.func.attr if isinstance(n.func, ast.Attribute) else (n.func.id if isinstance(n.func, ast.Name) else None)
            # recursion: the same name called on self / as a bare name (a same-named method of another object is not)
            if nm == fn.name and (isinstance(n.func, ast.Name) or
                                  (isinstance(n.func.value, ast.Name) and n.func.value.id in ('self', 'cls'))):
                return False
    return True


def _call_name(call):
    if isinstance(call.func, ast.Attribute):
        return call.func.attr
    if isinstance(call.func, ast.Name):
        return call.func.id
    return None


def _stmt_call(st):
    """The call a statement consists of, and its position kind."""
    if isinstance(st, ast.Expr) and isinstance(st.value, ast.Call):
        return st.value, 'expr'
    if isinstance(st, ast.Assign) and isinstance(st.value, ast.Call) and len(st.targets) == 1:
        return st.value, 'assign'
    if isinstance(st, ast.AnnAssign) and isinstance(st.value, ast.Call):
        return st.value, 'assign'
    if isinstance(st, ast.AugAssign) and isinstance(st.value, ast.Call):
        return st.value, 'aug'
    if isinstance(st, ast.Return) and isinstance(st.value, ast.Call):
        return st.value, 'return'
    return None, None


class _Counter:
    n = 0


def _instantiate(h, call, kind, st):
    """Statements that replace `st` (whose call is `call`), or None."""
    _Counter.n += 1
    tag = f'h{_Counter.n}_'
    fn = copy.deepcopy(h.node)
    params = list(h.params)
    args = list(call.args)
    if any(isinstance(a, ast.Starred) for a in args) or any(k.arg is None for k in call.keywords):
        return None
    binding = {}
    if h.is_method:
        if not isinstance(call.func, ast.Attribute):
            return None
        binding[params[0]] = call.func.value
        params = params[1:]
    elif isinstance(call.func, ast.Attribute) and not isinstance(call.func.value, ast.Name):
        return None
    if len(args) > len(params):
        return None
    for p, a in zip(params, args):
        binding[p] = a
    for k in call.keywords:
        if k.arg in binding or k.arg not in params + h.kwonly:
            return None
        binding[k.arg] = k.value
    for p in params + h.kwonly:
        if p not in binding:
            if p not in h.defaults:
                return None
            binding[p] = h.defaults[p]
    stored = set()
    for n in ast.walk(fn):
        if isinstance(n, ast.Name) and isinstance(n.ctx, (ast.Store, ast.Del)):
            stored.add(n.id)
        if isinstance(n, ast.ExceptHandler) and n.name:
            stored.add(n.name)
        if isinstance(n, ast.arg):
            pass
    comp = set()
    for n in ast.walk(fn):
        if isinstance(n, ast.comprehension):
            for t in ast.walk(n.target):
                if isinstance(t, ast.Name):
                    comp.add(t.id)
    pre = []
    subst = {}
    rename = {}
    tgt_name = st.targets[0].id if (kind == 'assign' and isinstance(st, ast.Assign) and
                                    isinstance(st.targets[0], ast.Name)) else None
    for p, a in binding.items():
        if _simple(a) and p not in stored:
            subst[p] = a
        elif isinstance(a, ast.Name) and a.id == tgt_name:
            # `x = helper(x, ...)`: the helper may rebind its parameter freely, it *is* x
            rename[p] = a.id
        else:
            rename[p] = tag + p
            pre.append(ast.copy_location(ast.Assign(targets=[ast.Name(id=tag + p, ctx=ast.Store())], value=a), st))
    for nm in stored - comp:
        if nm not in binding:
            rename[nm] = tag + nm
    # `t = helper(...)` where the helper returns one of its own locals: that local *is* t
    same_as_target = None
    if kind == 'assign' and isinstance(st, ast.Assign) and isinstance(st.targets[0], ast.Name):
        rets = [n for n in ast.walk(fn) if isinstance(n, ast.Return)]
        rn = {n.value.id for n in rets if isinstance(n.value, ast.Name)}
        allnames = {n.id for n in ast.walk(fn) if isinstance(n, ast.Name)} | set(h.params)
        t = st.targets[0].id
        r0 = next(iter(rn)) if len(rn) == 1 else None
        if rets and all(isinstance(n.value, ast.Name) for n in rets) and r0 is not None:
            if rename.get(r0) == t:
                same_as_target = t
            elif (r0 in stored - comp) and r0 not in binding and (t not in allnames or t == r0):
                rename[r0] = t
                same_as_target = t

    class R(ast.NodeTransformer):
        def visit_Name(self, n):
            if n.id in rename:
                return ast.copy_location(ast.Name(id=rename[n.id], ctx=n.ctx), n)
            if n.id in subst and isinstance(n.ctx, ast.Load):
                return ast.copy_location(copy.deepcopy(subst[n.id]), n)
            return n

        def visit_ExceptHandler(self, n):
            self.generic_visit(n)
            if n.name in rename:
                n.name = rename[n.name]
            return n
    body = [R().visit(s) for s in fn.body]
    # drop the docstring
    if body and isinstance(body[0], ast.Expr) and isinstance(body[0].value, ast.Constant) and isinstance(body[0].value.value, str):
        body = body[1:]

    if kind == 'return':
        return pre + body
    if kind == 'expr':
        def sink(e):
            if e is None or not any(isinstance(x, ast.Call) for x in ast.walk(e)):
                return []
            return [ast.copy_location(ast.Expr(value=e), st)]
    elif kind == 'assign':
        def sink(e):
            if same_as_target is not None and isinstance(e, ast.Name) and e.id == same_as_target:
                return []
            new = copy.deepcopy(st)
            new.value = e if e is not None else ast.Constant(value=None)
            return [new]
    else:
        def sink(e):
            new = copy.deepcopy(st)
            new.value = e if e is not None else ast.Constant(value=None)
            return [new]
    try:
        out = _tailify(body, sink)
    except NotTail:
        return None
    if kind in ('assign', 'aug') and not _terminal(body) and not _has_return(body):
        out = out + sink(None)
    return pre + out


def _expr_body(fn):
    body = list(fn.body)
    if body and isinstance(body[0], ast.Expr) and isinstance(body[0].value, ast.Constant) and isinstance(body[0].value.value, str):
        body = body[1:]
    if len(body) == 1 and isinstance(body[0], ast.Return) and body[0].value is not None:
        return body[0].value
    return None


def _expand_expr_helpers(trees, keep):
    """Helpers that consist of a single `return <expr>` are substituted wherever they are called, also inside
    conditions and other expressions."""
    defs = {}
    for mod, tree in trees.items():
        for st in tree.body:
            if isinstance(st, ast.FunctionDef):
                defs.setdefault(st.name, []).append(_Helper(st, None, mod))
            elif isinstance(st, ast.ClassDef):
                for m in st.body:
                    if isinstance(m, ast.FunctionDef):
                        defs.setdefault(m.name, []).append(_Helper(m, st, mod))
    cands = {}
    for nm, hs in defs.items():
        if len(hs) == 1 and _is_private(nm) and nm not in keep and _eligible_def(hs[0].node) and \
                _expr_body(hs[0].node) is not None:
            cands[nm] = hs[0]
    if not cands:
        return []
    mentions = {nm: 0 for nm in cands}
    calls = {nm: 0 for nm in cands}
    for tree in trees.values():
        for n in ast.walk(tree):
            if isinstance(n, ast.Attribute) and n.attr in mentions:
                mentions[n.attr] += 1
            elif isinstance(n, ast.Name) and n.id in mentions:
                mentions[n.id] += 1
            if isinstance(n, ast.Call) and _call_name(n) in calls:
                calls[_call_name(n)] += 1
    todo = {nm for nm in cands if calls[nm] > 0 and calls[nm] == mentions[nm]}
    done = set()

    def instantiate(h, call):
        params = list(h.params)
        binding = {}
        if any(isinstance(a, ast.Starred) for a in call.args) or any(k.arg is None for k in call.keywords):
            return None
        if h.is_method:
            if not isinstance(call.func, ast.Attribute):
                return None
            binding[params[0]] = call.func.value
            params = params[1:]
        if len(call.args) > len(params):
            return None
        for p_, a in zip(params, call.args):
            binding[p_] = a
        for k in call.keywords:
            if k.arg in binding or k.arg not in params + h.kwonly:
                return None
            binding[k.arg] = k.value
        for p_ in params + h.kwonly:
            if p_ not in binding:
                if p_ not in h.defaults:
                    return None
                binding[p_] = h.defaults[p_]
        e = copy.deepcopy(_expr_body(h.node))

        class R(ast.NodeTransformer):
            def visit_Name(self, n):
                if n.id in binding and isinstance(n.ctx, ast.Load):
                    return ast.copy_location(copy.deepcopy(binding[n.id]), n)
                return n
        return R().visit(e)

    class T(ast.NodeTransformer):
        def visit_Call(self, n):
            self.generic_visit(n)
            nm = _call_name(n)
            if nm in todo:
                e = instantiate(cands[nm], n)
                if e is not None:
                    done.add(nm)
                    return ast.copy_location(e, n)
                failed.add(nm)
            return n
    failed = set()
    for tree in trees.values():
        T().visit(tree)
    done -= failed
    for tree in trees.values():
        tree.body = [st for st in tree.body if not (isinstance(st, ast.FunctionDef) and st.name in done)]
        for st in tree.body:
            if isinstance(st, ast.ClassDef):
                st.body = [m for m in st.body if not (isinstance(m, ast.FunctionDef) and m.name in done)] or [ast.Pass()]
        ast.fix_missing_locations(tree)
    return sorted(done)


def _tail_lists(fn):
    """Statement lists of fn whose last statement is in tail position (nothing of fn runs after it)."""
    out = []

    def rec(stmts):
        if not stmts:
            return
        out.append(stmts)
        last = stmts[-1]
        if isinstance(last, ast.If):
            rec(last.body)
            rec(last.orelse)
        elif isinstance(last, ast.With):
            rec(last.body)
    rec(fn.body)
    return out


def _expand_raise_predicates(trees, keep):
    """`if [A and] self._pred(x): raise E` as the last thing a function does, where `_pred` is a private predicate
    helper (returns True/False/a condition):  the helper's body is put in its place with `return True` -> `raise E`,
    `return False` -> `return`, `return <cond>` -> `if <cond>: raise E; return`.  Equivalent because nothing follows
    the statement in the caller.  The definition is removed when no other mention of the helper remains."""
    defs = {}
    for mod, tree in trees.items():
        for st in tree.body:
            if isinstance(st, ast.FunctionDef):
                defs.setdefault(st.name, []).append(_Helper(st, None, mod))
            elif isinstance(st, ast.ClassDef):
                for m in st.body:
                    if isinstance(m, ast.FunctionDef):
                        defs.setdefault(m.name, []).append(_Helper(m, st, mod))
    cands = {nm: hs[0] for nm, hs in defs.items()
             if len(hs) == 1 and _is_private(nm) and nm not in keep and _eligible_def(hs[0].node)
             and _has_return(hs[0].node.body)}
    done = set()
    for tree in trees.values():
        for fn in [n for n in ast.walk(tree) if isinstance(n, ast.FunctionDef)]:
            if fn.name in cands:
                continue
            for stmts in _tail_lists(fn):
                last = stmts[-1]
                if not (isinstance(last, ast.If) and not last.orelse and len(last.body) == 1 and isinstance(last.body[0], ast.Raise)):
                    continue
                test = last.test
                pre_test = None
                call = test
                if isinstance(test, ast.BoolOp) and isinstance(test.op, ast.And):
                    call = test.values[-1]
                    rest = test.values[:-1]
                    pre_test = rest[0] if len(rest) == 1 else ast.BoolOp(op=ast.And(), values=rest)
                if not (isinstance(call, ast.Call) and _call_name(call) in cands):
                    continue
                h = cands[_call_name(call)]
                fake = ast.copy_location(ast.Return(value=call), last)
                body = _instantiate(h, call, 'return', fake)
                if body is None:
                    continue
                raise_st = last.body[0]

                class RT(ast.NodeTransformer):
                    def visit_Return(self, r):
                        v = r.value
                        if v is None or (isinstance(v, ast.Constant) and not v.value):
                            return ast.copy_location(ast.Return(value=None), r)
                        if isinstance(v, ast.Constant) and v.value:
                            return ast.copy_location(copy.deepcopy(raise_st), r)
                        return [ast.copy_location(ast.If(test=v, body=[copy.deepcopy(raise_st)], orelse=[]), r),
                                ast.copy_location(ast.Return(value=None), r)]

                    def visit_FunctionDef(self, n):
                        return n
                new = []
                for st in body:
                    r = RT().visit(st)
                    new.extend(r if isinstance(r, list) else [r])
                if pre_test is not None:
                    new = [ast.copy_location(ast.If(test=pre_test, body=new or [ast.Pass()], orelse=[]), last)]
                stmts[-1:] = new
                done.add(_call_name(call))
    removed = []
    for nm in sorted(done):
        left = 0
        for tree in trees.values():
            for n in ast.walk(tree):
                if (isinstance(n, ast.Attribute) and n.attr == nm) or (isinstance(n, ast.Name) and n.id == nm):
                    left += 1
        if left == 0:
            for tree in trees.values():
                tree.body = [st for st in tree.body if not (isinstance(st, ast.FunctionDef) and st.name == nm)]
                for st in tree.body:
                    if isinstance(st, ast.ClassDef):
                        st.body = [m for m in st.body if not (isinstance(m, ast.FunctionDef) and m.name == nm)] or [ast.Pass()]
            removed.append(nm)
    for tree in trees.values():
        ast.fix_missing_locations(tree)
    return removed, sorted(done)


def _hoist_nested_helper_calls(trees, keep):
    """`return self._values[self._bounds(item)]`  ->  `t = self._bounds(item); return self._values[t]`: a call of a private
    multi-statement helper nested in a simple statement is hoisted into a temporary in front of it, so that the statement-
    level inliner can take it.  Only when everything the statement evaluates before the call is free of effects (names,
    attribute loads, constants), and the statement contains a single such call outside lambdas / comprehensions /
    conditional sub-expressions."""
    names = {}
    for mod, tree in trees.items():
        for st in tree.body:
            if isinstance(st, ast.FunctionDef):
                names.setdefault(st.name, []).append(st)
            elif isinstance(st, ast.ClassDef):
                for m in st.body:
                    if isinstance(m, ast.FunctionDef):
                        names.setdefault(m.name, []).append(m)
    cands = {nm for nm, ds in names.items() if len(ds) == 1 and _is_private(nm) and nm not in keep and _eligible_def(ds[0])
             and _expr_body(ds[0]) is None and _has_return(ds[0].body)}
    if not cands:
        return 0
    count = 0

    def first_effectful(e, target):
        """Walk in evaluation order; True when `target` is reached before any other call/subscript-load/yield."""
        order = []

        def rec(x):
            if isinstance(x, (ast.Lambda, ast.GeneratorExp, ast.ListComp, ast.SetComp, ast.DictComp, ast.IfExp, ast.BoolOp)):
                order.append(('opaque', x))
                return
            for ch in ast.iter_child_nodes(x):
                rec(ch)
            if isinstance(x, (ast.Call, ast.Yield, ast.YieldFrom, ast.Await)):
                order.append(('eff', x))
        rec(e)
        for kind, x in order:
            if x is target:
                return True
            if kind == 'opaque' and any(y is target for y in ast.walk(x)):
                return False
            if kind in ('eff', 'opaque'):
                return False
        return False
    for tree in trees.values():
        for fn in [n for n in ast.walk(tree) if isinstance(n, ast.FunctionDef)]:
            for parent in ast.walk(fn):
                for fld in ('body', 'orelse', 'finalbody'):
                    body = getattr(parent, fld, None)
                    if not (isinstance(body, list) and body and isinstance(body[0], ast.stmt)):
                        continue
                    out = []
                    for st in body:
                        if isinstance(st, (ast.Return, ast.Expr, ast.Assign, ast.AugAssign, ast.AnnAssign)) and \
                                getattr(st, 'value', None) is not None and _stmt_call(st)[0] is None or \
                                (isinstance(st, (ast.Return, ast.Expr, ast.Assign)) and getattr(st, 'value', None) is not None and
                                 _stmt_call(st)[0] is not None and _call_name(_stmt_call(st)[0]) not in cands):
                            calls = [c for c in ast.walk(st.value) if isinstance(c, ast.Call) and _call_name(c) in cands]
                            if len(calls) == 1 and calls[0] is not st.value and first_effectful(st.value, calls[0]):
                                count += 1
                                tmp = f'hoist{count}_{_call_name(calls[0]).lstrip("_")}'
                                c = calls[0]

                                class R(ast.NodeTransformer):
                                    def visit_Call(self, n):
                                        if n is c:
                                            return ast.copy_location(ast.Name(id=tmp, ctx=ast.Load()), n)
                                        return self.generic_visit(n)
                                st.value = R().visit(st.value)
                                out.append(ast.copy_location(ast.Assign(targets=[ast.Name(id=tmp, ctx=ast.Store())], value=c), st))
                        out.append(st)
                    setattr(parent, fld, out)
        ast.fix_missing_locations(tree)
    return count


def _expand_class_local_duplicates(trees, anchored_owner, resolve=None):
    """A private method whose simple name is also defined elsewhere (e.g. a new `RaggedArray._update_len` next to
    `Array._update_len`, or `_truncate` in both classes) is not eligible for the name-based rounds below.  Its calls are
    attributed to a class: `self.<name>(...)` inside the class itself, any other receiver through `resolve(call)` (the
    receiver-type resolver of the unexpanded package; None = unknown).  When every mention that belongs to the class is
    a statement-level call and no mention of the name is of unknown class, the calls are inlined and the definition is
    removed from that class.  `anchored_owner(name, classname)` says which definitions are role-bearing and stay."""
    done = []
    defs = {}
    for tree in trees.values():
        for c in [n for n in tree.body if isinstance(n, ast.ClassDef)]:
            for m in [n for n in c.body if isinstance(n, ast.FunctionDef)]:
                defs.setdefault(m.name, []).append((c, m))
        for f in [n for n in tree.body if isinstance(n, ast.FunctionDef)]:
            defs.setdefault(f.name, []).append((None, f))

    def owner_of(call_or_attr, enclosing_cls):
        f = call_or_attr.func if isinstance(call_or_attr, ast.Call) else call_or_attr
        if isinstance(f, ast.Attribute) and isinstance(f.value, ast.Name) and f.value.id == 'self' and enclosing_cls is not None \
                and any(isinstance(x, ast.FunctionDef) and x.name == f.attr for x in enclosing_cls.body):
            return enclosing_cls.name
        if resolve is not None and isinstance(call_or_attr, ast.Call):
            return resolve(call_or_attr)
        return None
    for nm, lst in defs.items():
        if len(lst) < 2 or not _is_private(nm):
            continue
        # every mention of the name, with the class it belongs to
        mentions = []       # (owner class name or None, is statement-level call, container, field, stmt, call, kind)
        stmt_calls = {}
        for tree in trees.values():
            scopes = [(None, tree)] + [(c, c) for c in tree.body if isinstance(c, ast.ClassDef)]
            for cls_, scope in scopes:
                funcs = [x for x in scope.body if isinstance(x, ast.FunctionDef)]
                for fn in funcs:
                    for n in ast.walk(fn):
                        for fld in ('body', 'orelse', 'finalbody'):
                            body = getattr(n, fld, None)
                            if isinstance(body, list) and body and isinstance(body[0], ast.stmt):
                                for st in body:
                                    cl, kind = _stmt_call(st)
                                    if cl is not None and isinstance(cl.func, ast.Attribute) and cl.func.attr == nm:
                                        stmt_calls[id(cl.func)] = (n, fld, st, cl, kind, owner_of(cl, cls_))
                    for n in ast.walk(fn):
                        if isinstance(n, ast.Attribute) and n.attr == nm:
                            if id(n) in stmt_calls:
                                mentions.append(stmt_calls[id(n)])
                            else:
                                mentions.append((None, None, None, None, None, '?'))
        if any(m_[5] in (None, '?') for m_ in mentions):
            continue
        for c, m in lst:
            if c is None or anchored_owner(nm, c.name) or not _eligible_def(m):
                continue
            h = _Helper(m, c, '')
            if not h.is_method:
                continue
            sites = [m_ for m_ in mentions if m_[5] == c.name and m_[2] is not m]
            if not sites or any(_instantiate(h, cl, kind, st) is None for n, fld, st, cl, kind, _ in sites):
                continue
            for n, fld, st, cl, kind, _ in sites:
                body = getattr(n, fld)
                i = [k for k, x in enumerate(body) if x is st]
                if not i:
                    continue
                rep = _instantiate(h, cl, kind, st) or [ast.copy_location(ast.Pass(), st)]
                body[i[0]:i[0] + 1] = rep
            c.body = [x for x in c.body if x is not m] or [ast.Pass()]
            done.append(nm)
    for tree in trees.values():
        ast.fix_missing_locations(tree)
    return done


def _tail_nodes(stmts):
    """Statements in tail position of a statement list (after them nothing of the list runs)."""
    out = []
    if not stmts:
        return out
    last = stmts[-1]
    out.append(last)
    if isinstance(last, ast.If):
        out += _tail_nodes(last.body) + _tail_nodes(last.orelse)
    elif isinstance(last, ast.With):
        out += _tail_nodes(last.body)
    elif isinstance(last, ast.Try) and not last.finalbody:
        out += _tail_nodes(last.orelse if last.orelse else last.body)
        for h in last.handlers:
            out += _tail_nodes(h.body)
    return out


def _expand_bool_guards(trees, keep):
    """`if not self._helper(args): <return / raise>` (or without `not`), where the private helper does a part of the
    host's work and reports with `return True` / `return False` whether the host should go on: the statement is replaced
    by the helper's body, its "stop" returns become the host's terminal statement (wherever they are, also inside
    handlers and loops) and its "go on" returns — which must be the last thing the helper does — simply fall through to
    what follows the `if` in the host.  Equivalent, and gives the rules the code of the host in one piece again."""
    defs = {}
    for mod, tree in trees.items():
        for st in tree.body:
            if isinstance(st, ast.FunctionDef):
                defs.setdefault(st.name, []).append(_Helper(st, None, mod))
            elif isinstance(st, ast.ClassDef):
                for m in st.body:
                    if isinstance(m, ast.FunctionDef):
                        defs.setdefault(m.name, []).append(_Helper(m, st, mod))
    cands = {}
    for nm, hs in defs.items():
        if len(hs) != 1 or not _is_private(nm) or nm in keep or not _eligible_def(hs[0].node):
            continue
        rets = [r for r in ast.walk(hs[0].node) if isinstance(r, ast.Return)]
        if rets and all(isinstance(r.value, ast.Constant) and isinstance(r.value.value, bool) for r in rets) and \
                _terminal(hs[0].node.body):
            cands[nm] = hs[0]
    used = set()
    for tree in trees.values():
        for host in [n for n in ast.walk(tree) if isinstance(n, ast.FunctionDef)]:
            if host.name in cands:
                continue
            for parent in ast.walk(host):
                for fld in ('body', 'orelse', 'finalbody'):
                    body = getattr(parent, fld, None)
                    if not (isinstance(body, list) and body and isinstance(body[0], ast.stmt)):
                        continue
                    out = []
                    for st in body:
                        rep = None
                        if isinstance(st, ast.If) and not st.orelse and _terminal(st.body):
                            t, neg = st.test, False
                            if isinstance(t, ast.UnaryOp) and isinstance(t.op, ast.Not):
                                t, neg = t.operand, True
                            if isinstance(t, ast.Call) and _call_name(t) in cands:
                                h = cands[_call_name(t)]
                                fake = ast.copy_location(ast.Return(value=t), st)
                                inst = _instantiate(h, t, 'return', fake)
                                if inst is not None:
                                    stop_value = not neg          # `if H(): T` stops on True; `if not H(): T` on False
                                    ok = True
                                    sentinels = []

                                    class RT(ast.NodeTransformer):
                                        def visit_Return(self, r):
                                            if r.value.value is stop_value:
                                                return [copy.deepcopy(x) for x in st.body]
                                            p_ = ast.copy_location(ast.Pass(), r)
                                            sentinels.append(p_)
                                            return p_

                                        def visit_FunctionDef(self, n):
                                            return n
                                    new = []
                                    for x in inst:
                                        r = RT().visit(x)
                                        new.extend(r if isinstance(r, list) else [r])
                                    tails = _tail_nodes(new)
                                    if all(any(s_ is t_ for t_ in tails) for s_ in sentinels):
                                        rep = new
                                        used.add(_call_name(t))
                        if rep is not None:
                            out.extend(rep)
                        else:
                            out.append(st)
                    setattr(parent, fld, out)
        ast.fix_missing_locations(tree)
    removed = []
    for nm in sorted(used):
        left = sum(1 for tree in trees.values() for n in ast.walk(tree)
                   if (isinstance(n, ast.Attribute) and n.attr == nm) or (isinstance(n, ast.Name) and n.id == nm))
        if left == 0:
            for tree in trees.values():
                tree.body = [st for st in tree.body if not (isinstance(st, ast.FunctionDef) and st.name == nm)]
                for st in tree.body:
                    if isinstance(st, ast.ClassDef):
                        st.body = [m for m in st.body if not (isinstance(m, ast.FunctionDef) and m.name == nm)] or [ast.Pass()]
            removed.append(nm)
    return sorted(used)


def _expand_generator_delegation(trees, keep):
    """`yield from gen(args)` as a statement, with `gen` a generator function of the package that is defined once (public
    or private, module level or method called on self): the statement is replaced by the generator's body with its
    parameters bound (its yields become yields of the host, a `return` in tail position ends the delegation).  Equivalent
    for plain iteration protocols (no send/throw into the delegate, no return value used).  The definition stays.
    Free global names of the generator's body must be visible in the host module as well."""
    defs = {}
    modglobals = {}
    for mod, tree in trees.items():
        g = set()
        for st in tree.body:
            if isinstance(st, (ast.FunctionDef, ast.ClassDef)):
                g.add(st.name)
            elif isinstance(st, ast.Assign):
                g |= {t.id for t in st.targets if isinstance(t, ast.Name)}
            elif isinstance(st, (ast.Import, ast.ImportFrom)):
                g |= {(a.asname or a.name).split('.')[0] for a in st.names}
        modglobals[mod] = g
        for st in tree.body:
            if isinstance(st, ast.FunctionDef):
                defs.setdefault(st.name, []).append((_Helper(st, None, mod), mod))
            elif isinstance(st, ast.ClassDef):
                for m in st.body:
                    if isinstance(m, ast.FunctionDef):
                        defs.setdefault(m.name, []).append((_Helper(m, st, mod), mod))
    cands = {}
    for nm, lst in defs.items():
        if len(lst) != 1 or nm in keep:
            continue
        h, mod = lst[0]
        fn = h.node
        if not any(isinstance(x, (ast.Yield, ast.YieldFrom)) for x in ast.walk(fn)) or not _eligible_def(fn, allow_yield=True):
            continue
        if any(isinstance(x, ast.Return) and x.value is not None for x in ast.walk(fn)):
            continue
        cands[nm] = (h, mod)
    done = []
    import builtins
    for mod, tree in trees.items():
        for host in [n for n in ast.walk(tree) if isinstance(n, ast.FunctionDef)]:
            for parent in ast.walk(host):
                for fld in ('body', 'orelse', 'finalbody'):
                    body = getattr(parent, fld, None)
                    if not (isinstance(body, list) and body and isinstance(body[0], ast.stmt)):
                        continue
                    out = []
                    for st in body:
                        rep = None
                        if isinstance(st, ast.Expr) and isinstance(st.value, ast.YieldFrom) and isinstance(st.value.value, ast.Call):
                            call = st.value.value
                            nm = _call_name(call)
                            if nm in cands and cands[nm][0].node is not host:
                                h, hmod = cands[nm]
                                free = {x.id for x in ast.walk(h.node) if isinstance(x, ast.Name) and isinstance(x.ctx, ast.Load)}
                                local = {x.id for x in ast.walk(h.node) if isinstance(x, ast.Name) and isinstance(x.ctx, ast.Store)} | \
                                    set(h.params) | set(h.kwonly)
                                need = {x for x in free - local if x in modglobals[hmod]}
                                fake = ast.copy_location(ast.Expr(value=call), st)
                                rep = _instantiate(h, call, 'expr', fake)
                                if rep is not None and hmod != mod:
                                    # names of the delegate's module that its body uses are made visible in the host module
                                    # of the analysed form (`from .<module> import <name>`)
                                    missing = sorted(need - modglobals[mod])
                                    if missing:
                                        imp = ast.ImportFrom(module=hmod, names=[ast.alias(name=x, asname=None) for x in missing], level=1)
                                        pos = 1 if (tree.body and isinstance(tree.body[0], ast.Expr) and
                                                    isinstance(tree.body[0].value, ast.Constant)) else 0
                                        tree.body.insert(pos, ast.copy_location(imp, tree.body[0]))
                                        modglobals[mod] |= set(missing)
                        if rep is not None:
                            out.extend(rep or [ast.copy_location(ast.Pass(), st)])
                            done.append(_call_name(st.value.value))
                        else:
                            out.append(st)
                    setattr(parent, fld, out)
        ast.fix_missing_locations(tree)
    return sorted(set(done))


def expand(trees, keep=frozenset(), anchored_owner=None, resolve=None):
    """trees: {module name: ast.Module}, modified in place.  Returns the sorted list of
    helpers that were inlined (and whose definitions were removed)."""
    inlined = list(_expand_expr_helpers(trees, keep))
    inlined.extend(x for x in _expand_generator_delegation(trees, keep) if x not in inlined)
    inlined.extend(x for x in _expand_bool_guards(trees, keep) if x not in inlined)
    if anchored_owner is not None:
        inlined.extend(x for x in _expand_class_local_duplicates(trees, anchored_owner, resolve) if x not in inlined)
    _hoist_nested_helper_calls(trees, keep)
    removed, used = _expand_raise_predicates(trees, keep)
    inlined.extend(x for x in used if x not in inlined)
    for _ in range(MAXROUNDS):
        # definitions by simple name
        defs = {}
        for mod, tree in trees.items():
            for st in tree.body:
                if isinstance(st, ast.FunctionDef):
                    defs.setdefault(st.name, []).append(_Helper(st, None, mod))
                elif isinstance(st, ast.ClassDef):
                    for m in st.body:
                        if isinstance(m, ast.FunctionDef):
                            defs.setdefault(m.name, []).append(_Helper(m, st, mod))
        cands = {nm: hs[0] for nm, hs in defs.items()
                 if len(hs) == 1 and _is_private(nm) and nm not in keep and _eligible_def(hs[0].node)}
        if not cands:
            break
        # every mention of the name must be the callee of a statement-level call
        mentions = {nm: 0 for nm in cands}
        good = {nm: 0 for nm in cands}
        for tree in trees.values():
            for n in ast.walk(tree):
                if isinstance(n, ast.Attribute) and n.attr in mentions:
                    mentions[n.attr] += 1
                elif isinstance(n, ast.Name) and n.id in mentions:
                    mentions[n.id] += 1
                elif isinstance(n, ast.Constant) and isinstance(n.value, str) and n.value in mentions:
                    mentions[n.value] += 1
            for n in ast.walk(tree):
                for fld in ('body', 'orelse', 'finalbody'):
                    body = getattr(n, fld, None)
                    if isinstance(body, list) and body and isinstance(body[0], ast.stmt):
                        for st in body:
                            c, kind = _stmt_call(st)
                            if c is not None and _call_name(c) in good:
                                good[_call_name(c)] += 1
        todo = {nm for nm in cands if good[nm] > 0 and good[nm] == mentions[nm]}
        # leaves first: a helper that itself calls another helper of this round waits for the next round (its copies
        # would otherwise carry calls of a definition that is removed at the end of the round)
        leaf = {nm for nm in todo if not any(isinstance(x, ast.Call) and _call_name(x) in todo and _call_name(x) != nm
                                             for x in ast.walk(cands[nm].node))}
        todo = leaf or set()
        if not todo:
            break
        done = set()
        failed = set()
        # trial instantiation first: a helper is inlined everywhere or nowhere
        for tree in trees.values():
            for n in ast.walk(tree):
                for fld in ('body', 'orelse', 'finalbody'):
                    body = getattr(n, fld, None)
                    if isinstance(body, list) and body and isinstance(body[0], ast.stmt):
                        for st in body:
                            c, kind = _stmt_call(st)
                            if c is not None and _call_name(c) in todo:
                                if _instantiate(cands[_call_name(c)], c, kind, st) is None:
                                    failed.add(_call_name(c))
        todo -= failed
        if not todo:
            break
        for tree in trees.values():
            for n in list(ast.walk(tree)):
                for fld in ('body', 'orelse', 'finalbody'):
                    body = getattr(n, fld, None)
                    if isinstance(body, list) and body and isinstance(body[0], ast.stmt):
                        new = []
                        for st in body:
                            c, kind = _stmt_call(st)
                            nm = _call_name(c) if c is not None else None
                            # do not inline a helper into itself / into another helper of this round
                            if nm in todo:
                                rep = _instantiate(cands[nm], c, kind, st)
                                new.extend(rep if rep else [ast.copy_location(ast.Pass(), st)])
                                done.add(nm)
                            else:
                                new.append(st)
                        setattr(n, fld, new)
        # remove the definitions
        for tree in trees.values():
            tree.body = [st for st in tree.body if not (isinstance(st, ast.FunctionDef) and st.name in done)]
            for st in tree.body:
                if isinstance(st, ast.ClassDef):
                    st.body = [m for m in st.body if not (isinstance(m, ast.FunctionDef) and m.name in done)] or [ast.Pass()]
        inlined.extend(sorted(done))
        for tree in trees.values():
            ast.fix_missing_locations(tree)
    return inlined
