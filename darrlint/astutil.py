"""Small AST helpers: parent links, lexical enclosure, def-use closure."""
import ast

from .srcmodel import own_nodes


def dotted(node):
    """'a.b.c' for Name/Attribute chains, else None."""
    parts = []
    while isinstance(node, ast.Attribute):
        parts.append(node.attr)
        node = node.value
    if isinstance(node, ast.Name):
        parts.append(node.id)
        return '.'.join(reversed(parts))
    return None


def call_name(call):
    return dotted(call.func) or ast.unparse(call.func)


_parent_cache = {}


def parents(fn):
    """child id -> (parent node, field name) for all nodes of a function."""
    k = id(fn)
    if k in _parent_cache:
        return _parent_cache[k]
    pm = {}
    for p in ast.walk(fn):
        for field, val in ast.iter_fields(p):
            if isinstance(val, list):
                for c in val:
                    if isinstance(c, ast.AST):
                        pm[id(c)] = (p, field)
            elif isinstance(val, ast.AST):
                pm[id(val)] = (p, field)
    _parent_cache[k] = pm
    return pm


def enclosing(fn, node):
    """Yield (ancestor, field) from innermost to the function itself."""
    pm = parents(fn)
    cur = node
    while id(cur) in pm:
        p, field = pm[id(cur)]
        yield p, field
        if p is fn:
            return
        cur = p


def enclosing_stmt(fn, node):
    if isinstance(node, ast.stmt):
        return node
    for p, _ in enclosing(fn, node):
        if isinstance(p, ast.stmt):
            return p
    return None


def calls_in(fn):
    for n in own_nodes(fn):
        if isinstance(n, ast.Call):
            yield n


def get_arg(call, pos=None, kw=None):
    """Argument expression by keyword name or position (None if absent)."""
    if kw is not None:
        for k in call.keywords:
            if k.arg == kw:
                return k.value
    if pos is not None and pos < len(call.args) and \
            not any(isinstance(a, ast.Starred) for a in call.args[:pos + 1]):
        return call.args[pos]
    return None


def names_in(expr):
    """Free names and dotted attribute chains mentioned in an expression."""
    out = set()
    for n in ast.walk(expr):
        if isinstance(n, ast.Name):
            out.add(n.id)
        elif isinstance(n, ast.Attribute):
            d = dotted(n)
            if d:
                out.add(d)
    return out


def assignments(fn):
    """Yield (target_name_or_dotted, value_expr, stmt) for simple bindings in
    fn: Assign, AugAssign, AnnAssign, For targets, with-as, tuple unpacking
    (each element bound to the whole RHS)."""
    def tnames(t):
        if isinstance(t, (ast.Tuple, ast.List)):
            for e in t.elts:
                yield from tnames(e)
        elif isinstance(t, ast.Starred):
            yield from tnames(t.value)
        else:
            d = dotted(t)
            if d:
                yield d
            elif isinstance(t, ast.Subscript):
                d = dotted(t.value)
                if d:
                    yield d
    for n in own_nodes(fn):
        if isinstance(n, ast.Assign):
            for t in n.targets:
                for nm in tnames(t):
                    yield nm, n.value, n
        elif isinstance(n, ast.AugAssign):
            for nm in tnames(n.target):
                yield nm, n.value, n
        elif isinstance(n, ast.AnnAssign) and n.value is not None:
            for nm in tnames(n.target):
                yield nm, n.value, n
        elif isinstance(n, ast.For):
            for nm in tnames(n.target):
                yield nm, n.iter, n
        elif isinstance(n, ast.With):
            for it in n.items:
                if it.optional_vars is not None:
                    for nm in tnames(it.optional_vars):
                        yield nm, it.context_expr, n
        elif isinstance(n, ast.NamedExpr):
            yield n.target.id, n.value, n
        elif isinstance(n, ast.comprehension):
            for nm in tnames(n.target):
                yield nm, n.iter, n


def derived(fn, expr, maxiter=20):
    """Flow-insensitive def-use closure: every name / attribute chain the
    value of `expr` may be computed from inside fn."""
    defs = {}
    for nm, val, _ in assignments(fn):
        defs.setdefault(nm, []).append(val)
    seen = set()
    work = list(names_in(expr))
    while work:
        nm = work.pop()
        if nm in seen:
            continue
        seen.add(nm)
        for val in defs.get(nm, []):
            work.extend(names_in(val))
        # a.b.c is also derived from a.b and a
        if '.' in nm:
            work.append(nm.rsplit('.', 1)[0])
    return seen


def defs_of(fn, name):
    return [(val, st) for nm, val, st in assignments(fn) if nm == name]


def is_const(node, value=None):
    if not isinstance(node, ast.Constant):
        return False
    return value is None or node.value == value


def norm(node):
    """Normalised source text of a node (position-free key material)."""
    return ' '.join(ast.unparse(node).split())


def stmt_lists(fn):
    """Yield every statement list (body/orelse/finalbody/handler body) in fn."""
    for n in [fn] + list(own_nodes(fn)):
        for field in ('body', 'orelse', 'finalbody'):
            v = getattr(n, field, None)
            if isinstance(v, list) and v and isinstance(v[0], ast.stmt):
                yield n, field, v
