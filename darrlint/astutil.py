"""Small AST helpers: parent links, lexical enclosure, def-use closure."""
import ast

from .srcmodel import own_nodes


def dotted(node):
    """'a.b.c' for Name/Attribute chains, else None."""
    parts = []
    while isinstance(node, ast.Attribute):
        parts.append(node.attr)
        node = node.value
    if isinstance(node, ast.Name):
        parts.append(node.id)
        return '.'.join(reversed(parts))
    return None


def call_name(call):
    return dotted(call.func) or ast.unparse(call.func)


_parent_cache = {}


def parents(fn):
    """child id -> (parent node, field name) for all nodes of a function."""
    k = id(fn)
    if k in _parent_cache:
        return _parent_cache[k]
    pm = {}
    for p in ast.walk(fn):
        for field, val in ast.iter_fields(p):
            if isinstance(val, list):
                for c in val:
                    if isinstance(c, ast.AST):
                        pm[id(c)] = (p, field)
            elif isinstance(val, ast.AST):
                pm[id(val)] = (p, field)
    _parent_cache[k] = pm
    return pm


def enclosing(fn, node):
    """Yield (ancestor, field) from innermost to the function itself."""
    pm = parents(fn)
    cur = node
    while id(cur) in pm:
        p, field = pm[id(cur)]
        yield p, field
        if p is fn:
            return
        cur = p


def enclosing_stmt(fn, node):
    if isinstance(node, ast.stmt):
        return node
    for p, _ in enclosing(fn, node):
        if isinstance(p, ast.stmt):
            return p
    return None


def calls_in(fn):
    for n in own_nodes(fn):
        if isinstance(n, ast.Call):
            yield n


SIGNATURES = {}     # simple name -> [(params, is_method)] for every function of the analysed package


def register_signatures(repo):
    """Called once per run: lets get_arg() find an argument that the rules name by its
    parameter name whether the call site passes it by keyword or positionally."""
    SIGNATURES.clear()
    for f in repo.all_funcs():
        if getattr(f, 'is_setter', False):
            continue
        SIGNATURES.setdefault(f.name, []).append((list(f.params) + list(f.kwonly), f.cls is not None, f))
        if f.name == '__init__' and f.cls is not None:
            SIGNATURES.setdefault(f.cls.name, []).append((list(f.params) + list(f.kwonly), True, f))


def _positional_index(call, kw):
    name = call.func.attr if isinstance(call.func, ast.Attribute) else (call.func.id if isinstance(call.func, ast.Name) else None)
    sigs = SIGNATURES.get(name) or []
    idxs = set()
    for params, is_method, f in sigs:
        if kw not in params:
            continue
        i = params.index(kw)
        if is_method:
            # bound call (obj.m(...), Class(...)): self is implicit
            i -= 1
        idxs.add(i)
    if len(idxs) == 1:
        i = idxs.pop()
        return i if i >= 0 else None
    return None


def get_arg(call, pos=None, kw=None):
    """Argument expression by keyword name or position (None if absent).  When only the
    parameter name is known, the position is looked up in the package's own signatures
    (unambiguous names only), so `f(x, index=v)` and `f(x, v)` are the same to a rule."""
    if kw is not None:
        for k in call.keywords:
            if k.arg == kw:
                return k.value
    if pos is None and kw is not None:
        pos = _positional_index(call, kw)
    if pos is not None and pos < len(call.args) and \
            not any(isinstance(a, ast.Starred) for a in call.args[:pos + 1]):
        return call.args[pos]
    return None


def names_in(expr):
    """Free names and dotted attribute chains mentioned in an expression."""
    out = set()
    for n in ast.walk(expr):
        if isinstance(n, ast.Name):
            out.add(n.id)
        elif isinstance(n, ast.Attribute):
            d = dotted(n)
            if d:
                out.add(d)
    return out


def assignments(fn):
    """Yield (target_name_or_dotted, value_expr, stmt) for simple bindings in
    fn: Assign, AugAssign, AnnAssign, For targets, with-as, tuple unpacking
    (each element bound to the whole RHS)."""
    def tnames(t):
        if isinstance(t, (ast.Tuple, ast.List)):
            for e in t.elts:
                yield from tnames(e)
        elif isinstance(t, ast.Starred):
            yield from tnames(t.value)
        else:
            d = dotted(t)
            if d:
                yield d
            elif isinstance(t, ast.Subscript):
                d = dotted(t.value)
                if d:
                    yield d
    for n in own_nodes(fn):
        if isinstance(n, ast.Assign):
            for t in n.targets:
                for nm in tnames(t):
                    yield nm, n.value, n
        elif isinstance(n, ast.AugAssign):
            for nm in tnames(n.target):
                yield nm, n.value, n
        elif isinstance(n, ast.AnnAssign) and n.value is not None:
            for nm in tnames(n.target):
                yield nm, n.value, n
        elif isinstance(n, ast.For):
            for nm in tnames(n.target):
                yield nm, n.iter, n
        elif isinstance(n, ast.With):
            for it in n.items:
                if it.optional_vars is not None:
                    for nm in tnames(it.optional_vars):
                        yield nm, it.context_expr, n
        elif isinstance(n, ast.NamedExpr):
            yield n.target.id, n.value, n
        elif isinstance(n, ast.comprehension):
            for nm in tnames(n.target):
                yield nm, n.iter, n


def derived(fn, expr, maxiter=20):
    """Flow-insensitive def-use closure: every name / attribute chain the
    value of `expr` may be computed from inside fn."""
    defs = {}
    for nm, val, _ in assignments(fn):
        defs.setdefault(nm, []).append(val)
    seen = set()
    work = list(names_in(expr))
    while work:
        nm = work.pop()
        if nm in seen:
            continue
        seen.add(nm)
        for val in defs.get(nm, []):
            work.extend(names_in(val))
        # a.b.c is also derived from a.b and a
        if '.' in nm:
            work.append(nm.rsplit('.', 1)[0])
    return seen


def defs_of(fn, name):
    return [(val, st) for nm, val, st in assignments(fn) if nm == name]


def is_const(node, value=None):
    if not isinstance(node, ast.Constant):
        return False
    return value is None or node.value == value


def norm(node):
    """Normalised source text of a node (position-free key material)."""
    return ' '.join(ast.unparse(node).split())


def stmt_lists(fn):
    """Yield every statement list (body/orelse/finalbody/handler body) in fn."""
    for n in [fn] + list(own_nodes(fn)):
        for field in ('body', 'orelse', 'finalbody'):
            v = getattr(n, field, None)
            if isinstance(v, list) and v and isinstance(v[0], ast.stmt):
                yield n, field, v


def dict_entries(fn, var):
    """key -> value expression of the dictionary held in local `var`, built by a dict
    literal / dict(k=v) call and/or `var[k] = v` stores and `var.update({...})` calls
    (later entries win).  Keys must be string constants; others are ignored."""
    from .srcmodel import own_nodes
    out = {}
    nodes = sorted((n for n in own_nodes(fn) if hasattr(n, 'lineno')), key=lambda n: (n.lineno, n.col_offset))
    for n in nodes:
        if isinstance(n, ast.Assign) and len(n.targets) == 1:
            t = n.targets[0]
            if isinstance(t, ast.Name) and t.id == var:
                v = n.value
                if isinstance(v, ast.Dict):
                    for k, x in zip(v.keys, v.values):
                        if isinstance(k, ast.Constant):
                            out[k.value] = x
                elif isinstance(v, ast.Call) and dotted(v.func) == 'dict':
                    for kw in v.keywords:
                        if kw.arg:
                            out[kw.arg] = kw.value
            elif isinstance(t, ast.Subscript) and isinstance(t.value, ast.Name) and t.value.id == var and \
                    isinstance(t.slice, ast.Constant):
                out[t.slice.value] = n.value
        elif isinstance(n, ast.Call) and isinstance(n.func, ast.Attribute) and n.func.attr == 'update' and \
                isinstance(n.func.value, ast.Name) and n.func.value.id == var:
            if n.args and isinstance(n.args[0], ast.Dict):
                for k, x in zip(n.args[0].keys, n.args[0].values):
                    if isinstance(k, ast.Constant):
                        out[k.value] = x
            for kw in n.keywords:
                if kw.arg:
                    out[kw.arg] = kw.value
    return out


_PUB = [('._shape', '.shape'), ('._dtype', '.dtype'), ('._size', '.size'), ('._path', '.path'), ('._metadata', '.metadata'),
        ('._accessmode', '.accessmode'), ('._datadir', '.datadir'), ('.dtype.itemsize', '.itemsize')]


def pubnorm(text_or_node):
    """Normalised text in which attributes that back a plain getter property are spelled like the property
    (`a._shape` == `a.shape`, `a.dtype.itemsize` == `a.itemsize`): one spelling for rules that compare texts."""
    t = text_or_node if isinstance(text_or_node, str) else norm(text_or_node)
    for a, b in _PUB:
        t = t.replace(a, b)
    return t


def arg_for(call, callee, name):
    """Argument of `call` bound to parameter `name` of the resolved callee (a srcmodel.Func): by keyword, or by the
    parameter's position in the callee's own signature (minus self for bound calls)."""
    for k in call.keywords:
        if k.arg == name:
            return k.value
    params = list(callee.params)
    static = any(isinstance(d, ast.Name) and d.id == 'staticmethod' for d in getattr(callee.node, 'decorator_list', []))
    if callee.cls is not None and params and not static and (isinstance(call.func, ast.Attribute) or callee.name == '__init__'):
        params = params[1:]
    if name in params:
        i = params.index(name)
        if i < len(call.args) and not any(isinstance(a, ast.Starred) for a in call.args[:i + 1]):
            return call.args[i]
    return None


def written_base(write_call):
    """For `<recv>.tofile(...)`: (expression that is written without a write-time conversion wrapper, dtype expression of
    the wrapper or None).  `x.astype(D, ...).tofile(fd)` -> (x, D);  `np.asarray(x, dtype=D).tofile(fd)` -> (x, D)."""
    recv = write_call.func.value if isinstance(write_call.func, ast.Attribute) else None
    if isinstance(recv, ast.Call) and isinstance(recv.func, ast.Attribute) and recv.func.attr == 'astype' and \
            (recv.args or recv.keywords):
        d = recv.args[0] if recv.args else next((k.value for k in recv.keywords if k.arg == 'dtype'), None)
        return recv.func.value, d
    if isinstance(recv, ast.Call) and dotted(recv.func) in ('np.asarray', 'np.array', 'np.ascontiguousarray') and recv.args:
        d = recv.args[1] if len(recv.args) > 1 else next((k.value for k in recv.keywords if k.arg == 'dtype'), None)
        return recv.args[0], d
    return recv, None
