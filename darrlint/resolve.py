"""L1: receiver-type inference and call resolution (repo-specific, no type
checker is available in this sandbox)."""
import ast

from .srcmodel import AnalysisError, own_nodes, FuncRef, Opaque
from .astutil import dotted, assignments, get_arg

MEMMAP, FILE, PATH, NDARRAY, TARFILE = 'MEMMAP', 'FILE', 'PATH', 'NDARRAY', 'TARFILE'
DICT, LIST, STR, SET = 'DICT', 'LIST', 'STR', 'SET'
BUILTIN_TYPES = (MEMMAP, FILE, PATH, NDARRAY, TARFILE, DICT, LIST, STR, SET, 'HASH')

EXT_MODULES = {'np', 'numpy', 'os', 'sys', 'json', 'shutil', 'tf', 'tempfile',
               'tarfile', 'warnings', 'hashlib', 'textwrap', 'version', 'Path',
               'pathlib'}
NDARRAY_CTORS = {'np.zeros', 'np.empty', 'np.array', 'np.asarray', 'np.ones',
                 'np.full', 'np.arange', 'np.ascontiguousarray', 'np.copy',
                 'np.diff', 'np.frombuffer', 'np.fromfile'}
PATH_METHODS = {'joinpath', 'absolute', 'resolve', 'with_name', 'with_suffix',
                'expanduser', 'relative_to'}


def _depth(t):
    if isinstance(t, tuple) and t and t[0] == 'tuple':
        return 1 + max([0] + [_depth(x) for fs in t[1] for x in fs])
    return 0


def inst(name):
    return ('inst', name)


import io as _io
import pathlib as _pl
_BUILTIN_METHOD_NAMES = set()
for _t in (dict, list, tuple, set, frozenset, str, bytes, bytearray, int, float, complex, _io.TextIOWrapper, _io.BufferedReader,
           _io.BufferedWriter, _io.BytesIO, _pl.Path, type(iter(())), type((x for x in ()))):
    _BUILTIN_METHOD_NAMES |= set(dir(_t))
# NumPy arrays / memmaps / mmap / tarfile objects (names only; nothing is imported from numpy)
_BUILTIN_METHOD_NAMES |= {'tofile', 'tolist', 'tobytes', 'astype', 'reshape', 'flush', 'close', 'copy', 'view', 'fill', 'item',
                          'squeeze', 'transpose', 'ravel', 'flatten', 'byteswap', 'newbyteorder', 'sum', 'min', 'max', 'all', 'any',
                          'add', 'extractall', 'getmembers', 'seek', 'tell', 'truncate', 'read', 'write', 'open', 'append',
                          'update', 'warn', 'debug', 'info', 'warning', 'error', 'archive'}


class Resolver:
    """Types are computed by a global round-based fixpoint (no recursion):
    each round recomputes every function environment, return/yield type,
    class attribute type and parameter type from the previous round."""

    def __init__(self, repo):
        self.repo = repo
        self.param_types = {}     # Func.key -> {param: set(types)}
        self._env = {}
        self._ret = {}
        self._yld = {}
        self._attr = {}
        self.rounds = 0
        funcs = list(repo.all_funcs())
        classes = [c for m in repo.modules.values() for c in m.classes.values()]
        for _ in range(12):
            self.rounds += 1
            env = {f.key: self._compute_env(f) for f in funcs}
            ret = {f.key: self._compute_ret(f) for f in funcs}
            yld = {f.key: self._compute_yield(f) for f in funcs}
            attr = {}
            for c in classes:
                for a, lst in c.attr_exprs.items():
                    out = set()
                    for f, val, _ in lst:
                        out |= self.etype(val, f)
                    attr[(c.name, a)] = out
            params = {}
            for f in funcs:
                for call in (n for n in own_nodes(f.node) if isinstance(n, ast.Call)):
                    for kind, tgt in self.resolve_call(call, f):
                        if kind == 'repo':
                            self._bind_args(call, f, tgt, params)
            stable = (env == self._env and ret == self._ret and yld == self._yld
                      and attr == self._attr and params == self.param_types)
            self._env, self._ret, self._yld, self._attr, self.param_types = \
                env, ret, yld, attr, params
            if stable:
                break

    def _bind_args(self, call, caller, callee, out):
        params = list(callee.params)
        if callee.cls is not None and params and params[0] == 'self':
            params = params[1:]
        slot = out.setdefault(callee.key, {})
        for i, a in enumerate(call.args):
            if isinstance(a, ast.Starred) or i >= len(params):
                break
            ts = self.etype(a, caller)
            if ts:
                slot.setdefault(params[i], set()).update(ts)
        for k in call.keywords:
            if k.arg and (k.arg in params or k.arg in callee.kwonly):
                ts = self.etype(k.value, caller)
                if ts:
                    slot.setdefault(k.arg, set()).update(ts)

    # ---- class attribute types ---------------------------------------------
    def attr_types(self, clsname, attr):
        return self._attr.get((clsname, attr), set())

    # ---- function environments ---------------------------------------------
    def env(self, func):
        return self._env.get(func.key, {})

    def _compute_env(self, func):
        env = {k: set(v) for k, v in self._env.get(func.key, {}).items()}
        for p, ts in self.param_types.get(func.key, {}).items():
            env.setdefault(p, set()).update(ts)
        for nm, val, st in assignments(func.node):
            if '.' in nm:
                continue
            if isinstance(st, ast.With):
                ts = self._with_target_types(st, nm, func)
            elif isinstance(st, (ast.For, ast.comprehension, ast.AugAssign)):
                ts = set()
            elif isinstance(st, ast.Assign) and any(
                    isinstance(t, (ast.Tuple, ast.List)) for t in st.targets):
                ts = self._unpack_types(st, nm, func)
            else:
                ts = self.etype(val, func)
            if ts:
                env.setdefault(nm, set()).update(ts)
        for n in own_nodes(func.node):     # isinstance idiom
            if isinstance(n, ast.Call) and dotted(n.func) == 'isinstance' and \
                    len(n.args) == 2 and isinstance(n.args[0], ast.Name):
                cn = dotted(n.args[1])
                r = self._class_of_name(cn, func) if cn else None
                if r is not None:
                    env.setdefault(n.args[0].id, set()).add(inst(r.name))
        return env

    def _class_of_name(self, name, func):
        if name is None or '.' in name:
            return None
        r = self.repo.resolve_import(func.module, name)
        if r and r[0] == 'class':
            return r[1]
        return None

    def _unpack_types(self, st, nm, func):
        ts = self.etype(st.value, func)
        out = set()
        for t in st.targets:
            out |= self._destructure(t, ts, nm)
        return out

    def _destructure(self, target, types, nm):
        """types of name nm when `target` is bound to a value of `types`."""
        if isinstance(target, ast.Name):
            return set(types) if target.id == nm else set()
        if isinstance(target, (ast.Tuple, ast.List)):
            out = set()
            for t in types:
                if isinstance(t, tuple) and t and t[0] == 'tuple' and \
                        len(t[1]) == len(target.elts):
                    for sub, st in zip(target.elts, t[1]):
                        out |= self._destructure(sub, st, nm)
            return out
        return set()

    def _with_target_types(self, st, nm, func):
        out = set()
        for it in st.items:
            if it.optional_vars is None:
                continue
            ts = self.ctx_yield_types(it.context_expr, func)
            out |= self._destructure(it.optional_vars, ts, nm)
        return out

    def ctx_yield_types(self, expr, func):
        """Type of the value bound by `with <expr> as ...`."""
        if isinstance(expr, ast.Call):
            nm = dotted(expr.func)
            if nm == 'open':
                return {FILE}
            if nm in ('tarfile.open',):
                return {TARFILE}
            out = set()
            for kind, tgt in self.resolve_call(expr, func):
                if kind == 'repo' and tgt.is_ctxmgr:
                    out |= self.yield_types(tgt)
                elif kind == 'repo':
                    out |= self.ret_types(tgt)
            return out
        return set()

    def yield_types(self, func):
        return self._yld.get(func.key, set())

    def ret_types(self, func):
        return self._ret.get(func.key, set())

    def _compute_yield(self, func):
        out = set()
        for n in own_nodes(func.node):
            if isinstance(n, ast.Yield) and n.value is not None:
                out |= self.etype(n.value, func)
        return out

    def _compute_ret(self, func):
        out = set()
        if func.is_generator and not func.is_ctxmgr:
            return out
        for n in own_nodes(func.node):
            if isinstance(n, ast.Return) and n.value is not None:
                out |= self.etype(n.value, func)
        return out

    # ---- expression types ----------------------------------------------------
    def etype(self, e, func):
        """Set of abstract types of an expression (empty set = unknown)."""
        if isinstance(e, ast.Name):
            if e.id == 'self' and func.cls is not None:
                return {inst(func.cls.name)}
            env = self.env(func)
            if e.id in env:
                return set(env[e.id])
            r = self.repo.resolve_import(func.module, e.id)
            if r:
                if r[0] == 'const':
                    v = r[1][0].consts.get(r[1][1])
                    return {{dict: DICT, list: LIST, tuple: LIST, str: STR,
                             frozenset: SET}.get(type(v))} - {None}
                if r[0] == 'class':
                    return {('class', r[1].name)}
                if r[0] == 'func':
                    return {('func', r[1])}
                if r[0] == 'module':
                    return {('module', r[1].name)}
            return set()
        if isinstance(e, ast.Attribute):
            out = set()
            for t in self.etype(e.value, func):
                if isinstance(t, tuple) and t[0] == 'inst':
                    c = self.repo.cls(t[1])
                    if e.attr in c.methods:
                        m = c.methods[e.attr]
                        if m.is_property:
                            out |= self.ret_types(m)
                        else:
                            out.add(('func', m))
                    else:
                        out |= self.attr_types(t[1], e.attr)
                elif isinstance(t, tuple) and t[0] == 'module':
                    m = self.repo.modules[t[1]]
                    if e.attr in m.funcs:
                        out.add(('func', m.funcs[e.attr]))
                    elif e.attr in m.classes:
                        out.add(('class', e.attr))
                elif t == PATH and e.attr in ('parent',):
                    out.add(PATH)
                elif t in (MEMMAP, NDARRAY) and e.attr == 'T':
                    out.add(t)
            return out
        if isinstance(e, ast.Call):
            nm = dotted(e.func)
            if nm == 'open':
                return {FILE}
            if nm in ('np.memmap',):
                return {MEMMAP}
            if nm in NDARRAY_CTORS:
                return {NDARRAY}
            if nm in ('Path', 'pathlib.Path'):
                return {PATH}
            if nm in ('tarfile.open',):
                return {TARFILE}
            if nm and nm.startswith('hashlib.'):
                return {'HASH'}
            if nm in ('dict', 'json.load', 'json.loads'):
                return {DICT}
            if nm in ('copy.deepcopy', 'copy.copy', 'deepcopy') and e.args:
                return self.etype(e.args[0], func)
            if nm in ('list', 'sorted'):
                return {LIST}
            if nm in ('set', 'frozenset'):
                return {SET}
            if nm in ('str', 'repr', 'wrap', 'json.dumps'):
                return {STR}
            if isinstance(e.func, ast.Attribute) and e.func.attr in (
                    'lstrip', 'rstrip', 'strip', 'format', 'join', 'as_posix', 'lower',
                    'upper', 'replace') and STR in (self.etype(e.func.value, func) | (
                    {STR} if isinstance(e.func.value, (ast.Constant, ast.JoinedStr)) else set())):
                return {STR}
            if isinstance(e.func, ast.Attribute) and e.func.attr in ('splitlines', 'split'):
                return {LIST}
            if isinstance(e.func, ast.Attribute) and e.func.attr in PATH_METHODS:
                if PATH in self.etype(e.func.value, func) or e.func.attr == 'joinpath':
                    return {PATH}
            if isinstance(e.func, ast.Attribute) and e.func.attr in ('astype', 'copy', 'flatten', 'reshape'):
                ts = self.etype(e.func.value, func)
                if ts & {MEMMAP, NDARRAY}:
                    return {NDARRAY}
            out = set()
            for kind, tgt in self.resolve_call(e, func):
                if kind == 'class':
                    out.add(inst(tgt.name))
                elif kind == 'repo':
                    if tgt.name == '__init__' and tgt.cls is not None:
                        out.add(inst(tgt.cls.name))
                    elif not tgt.is_ctxmgr:
                        out |= self.ret_types(tgt)
            return out
        if isinstance(e, ast.Tuple):
            t = ('tuple', tuple(frozenset(self.etype(x, func)) for x in e.elts))
            return {t} if _depth(t) <= 3 else set()
        if isinstance(e, ast.BinOp) and isinstance(e.op, ast.Div):
            if PATH in self.etype(e.left, func):
                return {PATH}
            return set()
        if isinstance(e, ast.Subscript):
            ts = self.etype(e.value, func)
            if MEMMAP in ts:
                return {MEMMAP}      # a view of the map
            if NDARRAY in ts:
                return {NDARRAY}
            out = set()
            for t in ts:
                if isinstance(t, tuple) and t[0] == 'inst':
                    c = self.repo.cls(t[1])
                    if '__getitem__' in c.methods:
                        out |= self.ret_types(c.methods['__getitem__'])
            return out
        if isinstance(e, ast.IfExp):
            return self.etype(e.body, func) | self.etype(e.orelse, func)
        if isinstance(e, ast.Lambda):
            return {('lambda', id(e))}
        if isinstance(e, (ast.Dict, ast.DictComp)):
            return {DICT}
        if isinstance(e, (ast.List, ast.ListComp)):
            return {LIST}
        if isinstance(e, (ast.Set, ast.SetComp)):
            return {SET}
        if isinstance(e, ast.JoinedStr) or (isinstance(e, ast.Constant) and isinstance(e.value, str)):
            return {STR}
        return set()

    # ---- calls ---------------------------------------------------------------
    def resolve_call(self, call, func):
        """-> list of (kind, target): ('repo', Func) | ('class', ClassInfo)
        (class without __init__) | ('ext', dotted-name)."""
        f = call.func
        if isinstance(f, ast.Name):
            env = self.env(func)
            out = []
            if f.id in env:
                for t in env[f.id]:
                    if isinstance(t, tuple) and t[0] == 'func':
                        out.append(('repo', t[1]))
                if out:
                    return out
            r = self.repo.resolve_import(func.module, f.id)
            if r:
                if r[0] == 'func':
                    return [('repo', r[1])]
                if r[0] == 'class':
                    c = r[1]
                    if '__init__' in c.methods:
                        return [('repo', c.methods['__init__'])]
                    return [('class', c)]
                if r[0] == 'ext':
                    return [('ext', r[1])]
            return [('ext', f.id)]
        if isinstance(f, ast.Attribute):
            d = dotted(f)
            recv = f.value
            head = d.split('.')[0] if d else None
            if head is not None and isinstance(recv, ast.Name) and \
                    head in func.module.imports and head not in self.env(func):
                src, orig = func.module.imports[head]
                if not src.startswith('.'):
                    return [('ext', d)]
            ts = self.etype(recv, func)
            out = []
            for t in ts:
                if isinstance(t, tuple) and t[0] == 'inst':
                    c = self.repo.cls(t[1])
                    if f.attr in c.methods and not c.methods[f.attr].is_property:
                        out.append(('repo', c.methods[f.attr]))
                    else:
                        for at in self.attr_types(t[1], f.attr):
                            if isinstance(at, tuple) and at[0] == 'func':
                                out.append(('repo', at[1]))
                            elif isinstance(at, tuple) and at[0] == 'lambda':
                                out.append(('ext', '<lambda>'))
                        if not out and f.attr in c.methods:
                            # calling the value of a property
                            out.append(('ext', f'<{t[1]}.{f.attr}>()'))
                elif isinstance(t, tuple) and t[0] == 'class':
                    c = self.repo.cls(t[1])
                    if f.attr in c.methods:
                        out.append(('repo', c.methods[f.attr]))
                elif isinstance(t, tuple) and t[0] == 'module':
                    m = self.repo.modules[t[1]]
                    if f.attr in m.funcs:
                        out.append(('repo', m.funcs[f.attr]))
                    elif f.attr in m.classes:
                        c = m.classes[f.attr]
                        out.append(('repo', c.methods['__init__']) if '__init__' in c.methods
                                   else ('class', c))
                elif t in BUILTIN_TYPES:
                    out.append(('ext', f'<{t}>.{f.attr}'))
            if out:
                return out
            if d and head in EXT_MODULES:
                return [('ext', d)]
            # receiver of unknown type: a method name that exactly one repo class defines and that no built-in container,
            # string, file, path or array type has can only be that method (may-call edge)
            owners = self._owners_by_name().get(f.attr, [])
            if len(owners) == 1 and f.attr not in _BUILTIN_METHOD_NAMES and not (f.attr.startswith('__') and f.attr.endswith('__')):
                return [('repo', owners[0])]
            return [('ext', f'?.{f.attr}')]
        if isinstance(f, ast.Subscript):
            # registry call: table[key](...)
            nm = dotted(f.value)
            if nm and '.' not in nm:
                r = self.repo.resolve_import(func.module, nm)
                if r and r[0] == 'const':
                    m, cname = r[1]
                    val = m.consts.get(cname)
                    if isinstance(val, dict) and val and all(
                            isinstance(v, FuncRef) for v in val.values()):
                        out = []
                        for v in val.values():
                            if v.name in m.funcs:
                                out.append(('repo', m.funcs[v.name]))
                        if out:
                            return out
            return [('ext', '?[]()')]
        return [('ext', '?()')]

    def _owners_by_name(self):
        if not hasattr(self, '_owners'):
            self._owners = {}
            for m in self.repo.modules.values():
                for c in m.classes.values():
                    for nm, fn in c.methods.items():
                        if not fn.is_property:
                            self._owners.setdefault(nm, []).append(fn)
        return self._owners

    # implicit calls: property loads, setters, dunder protocol
    def implicit_calls(self, func):
        """Yield (node, Func) for property reads/writes and container-protocol
        uses on repo instances inside func."""
        for n in own_nodes(func.node):
            if isinstance(n, ast.Attribute):
                for t in self.etype(n.value, func):
                    if isinstance(t, tuple) and t[0] == 'inst':
                        c = self.repo.cls(t[1])
                        if isinstance(n.ctx, ast.Load) and n.attr in c.methods and \
                                c.methods[n.attr].is_property:
                            yield n, c.methods[n.attr]
                        elif isinstance(n.ctx, ast.Store) and n.attr in c.setters:
                            yield n, c.setters[n.attr]
            elif isinstance(n, ast.Subscript):
                meth = {ast.Load: '__getitem__', ast.Store: '__setitem__',
                        ast.Del: '__delitem__'}[type(n.ctx)]
                for t in self.etype(n.value, func):
                    if isinstance(t, tuple) and t[0] == 'inst':
                        c = self.repo.cls(t[1])
                        if meth in c.methods:
                            yield n, c.methods[meth]
            elif isinstance(n, ast.Call) and isinstance(n.func, ast.Name) and \
                    n.func.id in ('len', 'dict', 'str', 'repr', 'iter', 'list', 'tuple') and n.args:
                meths = {'len': ['__len__'], 'str': ['__str__'], 'repr': ['__repr__'],
                         'dict': ['keys', '__getitem__'], 'iter': ['__iter__'],
                         'list': ['__iter__'], 'tuple': ['__iter__']}[n.func.id]
                for t in self.etype(n.args[0], func):
                    if isinstance(t, tuple) and t[0] == 'inst':
                        c = self.repo.cls(t[1])
                        for meth in meths:
                            if meth in c.methods:
                                yield n, c.methods[meth]
            elif isinstance(n, ast.Compare) and any(isinstance(o, (ast.In, ast.NotIn)) for o in n.ops):
                for comp in n.comparators:
                    for t in self.etype(comp, func):
                        if isinstance(t, tuple) and t[0] == 'inst':
                            c = self.repo.cls(t[1])
                            if '__contains__' in c.methods:
                                yield n, c.methods['__contains__']

    def callees(self, func, implicit=True):
        """All (node, Func) repo call edges out of func."""
        for n in own_nodes(func.node):
            if isinstance(n, ast.Call):
                for kind, tgt in self.resolve_call(n, func):
                    if kind == 'repo':
                        yield n, tgt
        if implicit:
            yield from self.implicit_calls(func)

    def resolution_stats(self, funcs=None):
        """-> (total calls, resolved, unresolved list, ambiguous list).  An
        unresolved call is *ambiguous* when its method name is also defined by
        a repo class: only those could hide an effect from the may-analysis."""
        total = resolved = 0
        unresolved = []
        repo_meths = set()
        for m in self.repo.modules.values():
            for c in m.classes.values():
                repo_meths.update(c.methods)
                repo_meths.update(c.setters)
        for f in (funcs or self.repo.all_funcs()):
            for n in own_nodes(f.node):
                if not isinstance(n, ast.Call):
                    continue
                total += 1
                r = self.resolve_call(n, f)
                if any(k == 'ext' and (t.startswith('?')) for k, t in r):
                    unresolved.append((f.key, n.lineno, ast.unparse(n.func)))
                else:
                    resolved += 1
        ambiguous = [u for u in unresolved if u[2].rsplit('.', 1)[-1] in repo_meths
                     and not u[2].startswith('super(') and not self._external_value(u)]
        return total, resolved, unresolved, ambiguous

    def _external_value(self, u):
        """The receiver of an unresolved method call is a local whose every definition is the result of a call into the
        standard library / NumPy (other than copy.copy / copy.deepcopy, which return what they are given), a literal or a
        comprehension: such a value cannot be an instance of a class of this package, so the call cannot hide one of its
        methods."""
        from .astutil import defs_of
        fkey, lineno, ftxt = u
        recv = ftxt.rsplit('.', 1)[0]
        if not recv.isidentifier():
            return False
        func = next((f for f in self.repo.all_funcs() if f.key == fkey), None)
        if func is None or recv in func.params:
            return False
        ds = defs_of(func.node, recv)
        if not ds:
            return False
        for v, st in ds:
            if isinstance(v, (ast.Dict, ast.List, ast.Set, ast.Tuple, ast.Constant, ast.DictComp, ast.ListComp, ast.SetComp,
                              ast.JoinedStr)):
                continue
            if isinstance(v, ast.Call) and not isinstance(st, (ast.For, ast.With, ast.comprehension)):
                d = dotted(v.func) or ''
                if d in ('copy.copy', 'copy.deepcopy', 'deepcopy', 'copy'):
                    return False
                r = self.resolve_call(v, func)
                if r and all(k == 'ext' and not t.startswith('?') for k, t in r):
                    continue
            return False
        return True
