"""L1: primitive file-system effects, file roles, handle provenance and
transitive may-effect summaries.

The primitive table is the trusted reading of stdlib / NumPy semantics."""
import ast

from .srcmodel import own_nodes, Opaque, AnalysisError
from .astutil import dotted, get_arg, defs_of, derived, enclosing, parents
from .resolve import MEMMAP, FILE, PATH, NDARRAY

# file roles by the *documented* on-disk names (C02): the strings are the
# public format; the attribute names that hold them are free to change.
ROLE_BY_NAME = {
    'arrayvalues.bin': 'DATA',
    'arraydescription.json': 'DESCR',
    'metadata.json': 'META',
    'README.txt': 'README',
    'values': 'VALUESDIR',
    'indices': 'INDICESDIR',
}

MUTATING = {'TRUNC-WRITE', 'CREATE', 'APPEND-OPEN', 'UPDATE-OPEN', 'WRITE-PATH',
            'WRITE-HANDLE', 'RESIZE', 'DELETE', 'RMDIR', 'RMTREE', 'MKDIR',
            'STORE', 'COPYTREE', 'RENAME', 'TAR-CREATE', 'TAR-WRITE', 'OPEN-DYNAMIC'}


class PathVal:
    """Symbolic path: base directory + (optional) final name.
    name is one of ('lit', s) | ('protected', cls) | ('param', p) |
    ('elem', x) | ('unknown', text)."""
    def __init__(self, base, name=None, text=''):
        self.base = base
        self.name = name
        self.text = text

    @property
    def role(self):
        if self.name is None:
            if isinstance(self.base, tuple) and self.base[0] in ('TEMP', 'META', 'ARCHIVE'):
                return self.base[0]
            return 'DIR'
        k = self.name[0]
        if k == 'lit':
            return ROLE_BY_NAME.get(self.name[1], 'OTHERFILE')
        if k == 'protected':
            return 'PROTECTED'
        if k in ('param', 'elem'):
            return 'USERFILE'
        return 'UNKNOWN'

    def __repr__(self):
        return f'PathVal({self.base}, {self.name})'


class Effect:
    def __init__(self, kind, func, node, path=None, mode=None, handle=None, note=''):
        self.kind = kind
        self.func = func
        self.node = node
        self.path = path          # PathVal or None
        self.mode = mode          # ('const', 'wb') | ('derived', names) | None
        self.handle = handle      # handle provenance for WRITE-HANDLE / STORE
        self.note = note

    @property
    def role(self):
        if self.path is not None:
            return self.path.role
        if self.handle is not None and self.handle.get('path') is not None:
            return self.handle['path'].role
        return 'UNKNOWN'

    @property
    def mode_derived(self):
        if self.mode and self.mode[0] == 'derived':
            return True
        if self.handle is not None:
            return bool(self.handle.get('mode_derived'))
        return False

    def loc(self):
        return f'{self.func.module.relpath}:{self.node.lineno}'

    def describe(self):
        src = ' '.join(ast.unparse(self.node).split())
        if len(src) > 90:
            src = src[:87] + '...'
        return f'{self.loc()} {self.func.qualname}: {self.kind}[{self.role}] {src}'

    def __repr__(self):
        return f'<Effect {self.describe()}>'


class Effects:
    def __init__(self, repo, resolver):
        self.repo = repo
        self.R = resolver
        self._prim = {}
        self._may = {}
        self._callees = {}

    # ---- symbolic paths ---------------------------------------------------
    def _name_of(self, expr, func, depth=0):
        """Symbolic final path component."""
        if isinstance(expr, ast.Constant) and isinstance(expr.value, str):
            return ('lit', expr.value)
        d = dotted(expr)
        if d:
            parts = d.split('.')
            # Class._const / self._const / inst._const
            if len(parts) == 2:
                cls = None
                if parts[0] == 'self' and func.cls is not None:
                    cls = func.cls
                else:
                    for t in self.R.etype(expr.value, func):
                        if isinstance(t, tuple) and t[0] in ('class', 'inst'):
                            cls = self.repo.cls(t[1])
                if cls is not None and parts[1] in cls.consts:
                    v = cls.consts[parts[1]]
                    if isinstance(v, str):
                        return ('lit', v)
                    if isinstance(v, frozenset):
                        return ('protected', cls.name)
            if len(parts) == 1:
                if parts[0] in func.params or parts[0] in func.kwonly:
                    ds = defs_of(func.node, parts[0])
                    if not ds:
                        return ('param', parts[0])
                ds = defs_of(func.node, parts[0])
                if len(ds) == 1 and depth < 4:
                    val, st = ds[0]
                    if isinstance(st, (ast.For, ast.comprehension)):
                        inner = self._name_of(val, func, depth + 1)
                        if inner[0] == 'protected':
                            return inner
                        return ('elem', inner)
                    return self._name_of(val, func, depth + 1)
                if parts[0] in func.module.consts and isinstance(func.module.consts[parts[0]], str):
                    return ('lit', func.module.consts[parts[0]])
        if isinstance(expr, ast.Call) and dotted(expr.func) in ('str', 'Path') and expr.args:
            return self._name_of(expr.args[0], func, depth + 1)
        return ('unknown', ast.unparse(expr)[:40])

    def pathval(self, expr, func, depth=0):
        """Symbolic value of a path expression, or None if not path-like."""
        if depth > 6 or expr is None:
            return None
        txt = ast.unparse(expr)
        if isinstance(expr, ast.Call):
            nm = dotted(expr.func)
            if nm in ('str', 'Path', 'pathlib.Path', 'os.fspath') and expr.args:
                return self.pathval(expr.args[0], func, depth + 1)
            if isinstance(expr.func, ast.Attribute):
                if expr.func.attr == 'joinpath' and expr.args:
                    base = self.pathval(expr.func.value, func, depth + 1)
                    return PathVal(base.base if base and base.name is None else (base or ('expr', txt)),
                                   self._name_of(expr.args[-1], func), txt)
                if expr.func.attr in ('absolute', 'resolve', 'expanduser', 'as_posix'):
                    return self.pathval(expr.func.value, func, depth + 1)
            if nm in ('tf.mkdtemp', 'tempfile.mkdtemp'):
                return PathVal(('TEMP',), None, txt)
            return None
        if isinstance(expr, ast.BinOp) and isinstance(expr.op, ast.Div):
            base = self.pathval(expr.left, func, depth + 1)
            return PathVal(base.base if base and base.name is None else (base or ('expr', txt)),
                           self._name_of(expr.right, func), txt)
        if isinstance(expr, ast.JoinedStr):
            return PathVal(('fstring', txt), None, txt)
        d = dotted(expr)
        if d is None:
            return None
        parts = d.split('.')
        if len(parts) == 1:
            nm = parts[0]
            ds = defs_of(func.node, nm)
            is_param = nm in func.params or nm in func.kwonly
            vals = [self.pathval(v, func, depth + 1) for v, st in ds
                    if not isinstance(st, (ast.For, ast.With, ast.comprehension))]
            vals = [v for v in vals if v is not None and not (
                v.base == ('param', nm) and v.name is None)]
            if vals:
                # prefer a value with a final name
                named = [v for v in vals if v.name is not None]
                return named[0] if named else vals[0]
            if is_param:
                return PathVal(('param', nm), None, txt)
            for v, st in ds:
                if isinstance(st, ast.With):
                    pv = self.pathval(v, func, depth + 1)
                    if pv is not None:
                        return pv
                    # `with tempdirfile() as path`
                    for kind, tgt in (self.R.resolve_call(v, func) if isinstance(v, ast.Call) else []):
                        if kind == 'repo' and tgt.is_ctxmgr:
                            return PathVal(('TEMP',), None, txt)
            return None
        # attribute chains
        recv = expr.value
        attr = parts[-1]
        for t in self.R.etype(recv, func):
            if isinstance(t, tuple) and t[0] == 'inst':
                cname = t[1]
                c = self.repo.cls(cname)
                if cname == 'MetaData' and attr in ('_path', 'path'):
                    return PathVal(('META',), None, txt)
                if attr in ('_path', 'path') and cname in ('Array', 'RaggedArray', 'DataDir'):
                    return PathVal(('dir', ast.unparse(recv)), None, txt)
                tgt = None
                if attr in c.init_attr_exprs:
                    tgt = (c.methods['__init__'], c.init_attr_exprs[attr])
                elif attr in c.methods and c.methods[attr].is_property:
                    m = c.methods[attr]
                    rets = [n.value for n in own_nodes(m.node)
                            if isinstance(n, ast.Return) and n.value is not None]
                    if len(rets) == 1:
                        tgt = (m, rets[0])
                if tgt is not None:
                    pv = self.pathval(tgt[1], tgt[0], depth + 1)
                    if pv is not None:
                        base = pv.base
                        if isinstance(base, tuple) and base[0] == 'dir' and base[1] == 'self':
                            base = ('dir', ast.unparse(recv))
                        return PathVal(base, pv.name, txt)
        return None

    # ---- modes ------------------------------------------------------------------
    def _callers(self, func):
        if not hasattr(self, '_rev'):
            self._rev = {}
            for g in self.repo.all_funcs():
                for node, cal in self.callees(g):
                    if isinstance(node, ast.Call):
                        self._rev.setdefault(cal.key, []).append((g, node))
        return self._rev.get(func.key, [])

    def mode_of(self, expr, func, _depth=0):
        m = self._mode_of(expr, func)
        if m[0] != 'unknown' or _depth > 2 or not func.name.startswith('_') or func.name.startswith('__'):
            return m
        # the mode is a parameter of a private helper: what do its call sites pass?
        from .astutil import arg_for
        names = derived(func.node, expr)
        ps = [p for p in func.params if p != 'self' and p in names]
        callers = self._callers(func)
        if len(ps) != 1 or not callers:
            return m
        got = []
        for g, call in callers:
            a = arg_for(call, func, ps[0])
            if a is None:
                return m
            got.append(self.mode_of(a, g, _depth + 1))
        if any(x[0] in ('unknown', 'fstring') for x in got):
            return m
        if any(x[0] == 'derived' for x in got):
            return ('derived', sorted({n for x in got if x[0] == 'derived' for n in x[1]}))
        vals = set()
        for x in got:
            vals |= set([x[1]] if x[0] == 'const' else x[1])
        return ('constset', sorted(vals))

    def _mode_of(self, expr, func):
        if expr is None:
            return ('const', 'r')
        if isinstance(expr, ast.Constant) and isinstance(expr.value, str):
            return ('const', expr.value)
        if isinstance(expr, ast.JoinedStr):
            return ('fstring', ast.unparse(expr))
        names = derived(func.node, expr)
        if any(n.endswith('accessmode') or n.endswith('_accessmode') for n in names):
            return ('derived', sorted(n for n in names if 'accessmode' in n))
        # a name with constant definitions only
        d = dotted(expr)
        if d and '.' not in d:
            vals = set()
            for v, st in defs_of(func.node, d):
                if isinstance(v, ast.Constant) and isinstance(v.value, str):
                    vals.add(v.value)
                else:
                    vals = None
                    break
            if vals:
                return ('constset', sorted(vals))
        return ('unknown', ast.unparse(expr))

    # ---- handle provenance --------------------------------------------------------
    def handle_origin(self, expr, func):
        """Where does a file-object / memmap expression come from?
        -> dict(kind=param|open|opener|attr|unknown, path=PathVal|None,
                mode=..., mode_derived=bool, opener=Func|None, name=...)"""
        d = dotted(expr)
        if d is None:
            if isinstance(expr, ast.Subscript):
                return self.handle_origin(expr.value, func)
            return {'kind': 'unknown'}
        if '.' in d:
            if d.startswith('self.') and func.cls is not None:
                # cached handle attribute: provenance of its assignments
                attr = d.split('.')[1]
                for f2, val, _ in func.cls.attr_exprs.get(attr, []):
                    if isinstance(val, ast.Constant) and val.value is None:
                        continue
                    if isinstance(val, ast.Call) and dotted(val.func) in ('np.memmap', 'open'):
                        return self._origin_of_call(val, f2)
                    if isinstance(val, ast.Name):
                        return self.handle_origin(val, f2)
            return {'kind': 'attr', 'name': d}
        for v, st in defs_of(func.node, d):
            if isinstance(st, ast.With):
                for it in st.items:
                    if it.optional_vars is None:
                        continue
                    names = {n.id for n in ast.walk(it.optional_vars) if isinstance(n, ast.Name)}
                    if d in names and isinstance(it.context_expr, ast.Call):
                        return self._origin_of_call(it.context_expr, func)
            elif isinstance(v, ast.Call):
                o = self._origin_of_call(v, func)
                if o['kind'] != 'unknown':
                    return o
        if d in func.params or d in func.kwonly:
            return {'kind': 'param', 'name': d}
        return {'kind': 'unknown', 'name': d}

    def _origin_of_call(self, call, func):
        nm = dotted(call.func)
        if nm == 'open':
            p = get_arg(call, 0, 'file')
            m = self.mode_of(get_arg(call, 1, 'mode'), func)
            return {'kind': 'open', 'path': self.pathval(p, func), 'mode': m,
                    'mode_derived': m[0] == 'derived'}
        if nm == 'np.memmap':
            m = self.mode_of(get_arg(call, 2, 'mode') if get_arg(call, 2, 'mode') is not None
                             else ast.Constant('r+'), func)
            fn = get_arg(call, 0, 'filename')
            inner = self.handle_origin(fn, func) if fn is not None else {}
            return {'kind': 'memmap', 'path': inner.get('path'), 'mode': m,
                    'mode_derived': m[0] == 'derived'}
        for kind, tgt in self.R.resolve_call(call, func):
            if kind == 'repo' and tgt.is_ctxmgr:
                am = get_arg(call, None, 'accessmode')
                if am is None and call.args:
                    # positional accessmode
                    ps = [p for p in tgt.params if p != 'self']
                    if ps and ps[0] == 'accessmode':
                        am = call.args[0]
                if am is None or (isinstance(am, ast.Constant) and am.value is None):
                    md, mode = True, ('derived', ['<default: handle accessmode>'])
                else:
                    mode = self.mode_of(am, func)
                    md = mode[0] == 'derived'
                recv = call.func.value if isinstance(call.func, ast.Attribute) else None
                return {'kind': 'opener', 'opener': tgt, 'mode': mode, 'mode_derived': md,
                        'recv': ast.unparse(recv) if recv is not None else None,
                        'path': None}
        return {'kind': 'unknown'}

    # ---- primitive effects ----------------------------------------------------------
    def primitives(self, func):
        if func.key in self._prim:
            return self._prim[func.key]
        out = []
        R = self.R
        for n in own_nodes(func.node):
            if isinstance(n, ast.Call):
                out.extend(self._call_effects(n, func))
            elif isinstance(n, (ast.Assign, ast.AugAssign)):
                tgts = n.targets if isinstance(n, ast.Assign) else [n.target]
                for t in tgts:
                    if isinstance(t, ast.Subscript) and MEMMAP in R.etype(t.value, func):
                        out.append(Effect('STORE', func, n, handle=self.handle_origin(t.value, func)))
        self._prim[func.key] = out
        return out

    def _call_effects(self, call, func):
        R = self.R
        nm = dotted(call.func) or ''
        attr = call.func.attr if isinstance(call.func, ast.Attribute) else None
        res = R.resolve_call(call, func)
        if any(k == 'repo' for k, _ in res):
            return []
        E = lambda kind, **kw: Effect(kind, func, call, **kw)
        out = []
        if nm in ('open', 'io.open') or (attr == 'open' and PATH in R.etype(call.func.value, func)):
            if nm in ('open', 'io.open'):
                p = self.pathval(get_arg(call, 0, 'file'), func)
                marg = get_arg(call, 1, 'mode')
            else:
                p = self.pathval(call.func.value, func)
                marg = get_arg(call, 0, 'mode')
            m = self.mode_of(marg, func)
            if m[0] == 'const':
                ms = m[1]
                if 'w' in ms:
                    out.append(E('TRUNC-WRITE', path=p, mode=m))
                elif 'x' in ms:
                    out.append(E('CREATE', path=p, mode=m))
                elif 'a' in ms:
                    out.append(E('APPEND-OPEN', path=p, mode=m))
                elif '+' in ms:
                    out.append(E('UPDATE-OPEN', path=p, mode=m))
                else:
                    out.append(E('READ-OPEN', path=p, mode=m))
            elif m[0] == 'derived':
                out.append(E('MODE-OPEN', path=p, mode=m))
            else:
                out.append(E('OPEN-DYNAMIC', path=p, mode=m))
            return out
        if attr == 'tofile':
            a = call.args[0] if call.args else get_arg(call, None, 'fid')
            ts = R.etype(a, func) if a is not None else set()
            if FILE in ts:
                out.append(E('WRITE-HANDLE', handle=self.handle_origin(a, func)))
            else:
                out.append(E('WRITE-PATH', path=self.pathval(a, func)))
            return out
        if attr in ('write', 'writelines') and FILE in R.etype(call.func.value, func):
            out.append(E('WRITE-HANDLE', handle=self.handle_origin(call.func.value, func)))
            return out
        if attr == 'truncate' and nm != 'os.truncate':
            if FILE in R.etype(call.func.value, func) or True:
                out.append(E('RESIZE', handle=self.handle_origin(call.func.value, func)))
            return out
        if nm in ('os.truncate', 'os.ftruncate'):
            out.append(E('RESIZE', path=self.pathval(call.args[0], func) if call.args else None))
            return out
        if attr == 'unlink' or nm in ('os.remove', 'os.unlink'):
            tgt = call.args[0] if nm.startswith('os.') and call.args else call.func.value
            out.append(E('DELETE', path=self.pathval(tgt, func)))
            return out
        if attr == 'rmdir' or nm in ('os.rmdir', 'os.removedirs'):
            tgt = call.args[0] if nm.startswith('os.') and call.args else call.func.value
            out.append(E('RMDIR', path=self.pathval(tgt, func)))
            return out
        if nm in ('shutil.rmtree',):
            out.append(E('RMTREE', path=self.pathval(call.args[0], func) if call.args else None))
            return out
        if attr in ('mkdir', 'makedirs', 'touch') or nm in ('os.mkdir', 'os.makedirs', 'tf.mkdtemp',
                                                   'tempfile.mkdtemp'):
            tgt = call.args[0] if call.args and (nm.startswith('os.') or nm == 'Path.mkdir') \
                else (call.func.value if attr else None)
            out.append(E('MKDIR', path=self.pathval(tgt, func) if tgt is not None else None))
            return out
        if nm in ('shutil.copytree', 'shutil.copy', 'shutil.copy2', 'shutil.copyfile'):
            out.append(E('COPYTREE', path=self.pathval(call.args[1], func) if len(call.args) > 1 else None))
            return out
        if nm in ('shutil.move', 'os.rename', 'os.replace') or attr in ('rename', 'replace') and \
                PATH in R.etype(call.func.value, func):
            out.append(E('RENAME', path=self.pathval(call.args[0], func) if call.args else None))
            return out
        if attr in ('write_text', 'write_bytes'):
            out.append(E('TRUNC-WRITE', path=self.pathval(call.func.value, func), mode=('const', 'w')))
            return out
        if nm in ('np.save', 'np.savetxt', 'np.savez'):
            out.append(E('TRUNC-WRITE', path=self.pathval(call.args[0], func) if call.args else None,
                         mode=('const', 'w')))
            return out
        if nm == 'np.memmap':
            o = self._origin_of_call(call, func)
            out.append(E('MAP', handle=o, mode=o['mode']))
            return out
        if nm == 'tarfile.open':
            m = self.mode_of(get_arg(call, 1, 'mode'), func)
            out.append(E('TAR-CREATE', path=self.pathval(get_arg(call, 0, 'name'), func) or
                         PathVal(('ARCHIVE',), None, ''), mode=m))
            return out
        if attr in ('flush',):
            out.append(E('FLUSH', handle=self.handle_origin(call.func.value, func)))
            return out
        if attr == 'seek':
            out.append(E('SEEK', handle=self.handle_origin(call.func.value, func)))
            return out
        if attr == 'close':
            out.append(E('CLOSE', handle=self.handle_origin(call.func.value, func)))
            return out
        if nm in ('json.dumps',):
            out.append(E('SERIALISE'))
            return out
        if nm == 'next' and len(call.args) == 1:
            out.append(E('NEXT-NODEFAULT'))
            return out
        return out

    # ---- call graph & summaries ---------------------------------------------------------
    def callees(self, func):
        if func.key not in self._callees:
            self._callees[func.key] = list(self.R.callees(func))
        return self._callees[func.key]

    def may(self, func, _stack=None):
        """Transitive may-effects (list of Effect) of a function."""
        if func.key in self._may:
            return self._may[func.key]
        _stack = _stack or set()
        if func.key in _stack:
            return []
        _stack = _stack | {func.key}
        out = list(self.primitives(func))
        seen = {id(e) for e in out}
        for _, tgt in self.callees(func):
            for e in self.may(tgt, _stack):
                if id(e) not in seen:
                    seen.add(id(e))
                    out.append(e)
        if len(_stack) == 1:
            self._may[func.key] = out
        return out

    def may_mutating(self, func):
        return [e for e in self.may(func) if e.kind in MUTATING]
