"""Polynomial normal forms over opaque atoms, and a tiny symbolic executor for straight-line integer code with one
counted loop.  Used to verify *recurrences* by induction (e.g. "the k-th frame is (start + k*step, start + k*step +
chunklen)") without running anything and without a solver: two expressions are equal iff their normal forms are.

Poly = {monomial: coefficient}; monomial = sorted tuple of atom names ('' -> the empty tuple is the constant term).
Atoms: names and attribute chains, opaque calls by their text, and floordiv(P, Q) with P, Q normalised and the
identity  floordiv(P + m*Q, Q) = floordiv(P, Q) + m  applied (Q a single atom or constant).
"""
import ast


class NotPoly(Exception):
    pass


class NeedChoice(Exception):
    """A two-way choice point (max/min of two polynomials) met during case analysis and not resolved yet."""
    def __init__(self, key):
        Exception.__init__(self, key)
        self.key = key


# Case analysis over max()/min(): `max(a, b)` is `a` in the case a - b >= 0 and `b` in the case b - a - 1 >= 0
# (integers).  Active only inside with_cases(); elsewhere max/min stay outside the fragment (NotPoly).
_CHOICES = None
_CONDS = None


def with_cases(fn, limit=16):
    """Run fn() under every resolution of the max/min choice points it meets.
    Returns [(conds, result)], conds = list of (poly Q, text) each meaning Q >= 0."""
    global _CHOICES, _CONDS
    out, stack = [], [{}]
    while stack:
        ch = stack.pop()
        _CHOICES, _CONDS = ch, []
        try:
            r = fn()
            out.append((list(_CONDS), r))
        except NeedChoice as e:
            stack.append({**ch, e.key: 1})
            stack.append({**ch, e.key: 0})
            if len(stack) + len(out) > limit:
                raise Unsupported('too many max/min cases')
        finally:
            _CHOICES = _CONDS = None
    return out


_FLOORDIVS = {}     # atom name -> (P, Q) for every floordiv atom built (lets infeasible() reason about its sign)


def nonneg(p, facts):
    """Sound, incomplete: p >= 0 follows when p is a non-negative integer combination (coefficients 0..2) of the
    fact polynomials (each >= 0) plus a non-negative constant."""
    import itertools
    for lam in itertools.product((0, 1, 2), repeat=len(facts)):
        acc = {}
        for l, f in zip(lam, facts):
            if l:
                acc = add(acc, mul(const(l), f))
        rest = add(p, acc, -1)
        if is_const(rest) and rest.get((), 0) >= 0:
            return True
    return False


def infeasible(conds, facts):
    """Sound, incomplete: a case is infeasible when one of its conditions Q >= 0 contradicts the facts, i.e.
    -Q - 1 >= 0 follows from them.  floor(P/Q) >= 0 is added as a fact when P >= 0 and Q >= 1 follow."""
    base = list(facts)
    facts = list(facts)
    for q, _t in conds:
        for m in q:
            for a in m:
                if a in _FLOORDIVS:
                    pp, qq = _FLOORDIVS[a]
                    if nonneg(pp, base) and nonneg(add(qq, const(1), -1), base) and atom(a) not in facts:
                        facts.append(atom(a))
    for q, _t in conds:
        if nonneg(add(mul(const(-1), q), const(1), -1), facts):
            return True
    return False


def const(c):
    return {(): c} if c else {}


def atom(name):
    return {(name,): 1}


def add(a, b, sign=1):
    out = dict(a)
    for m, c in b.items():
        out[m] = out.get(m, 0) + sign * c
        if out[m] == 0:
            del out[m]
    return out


def mul(a, b):
    out = {}
    for m1, c1 in a.items():
        for m2, c2 in b.items():
            m = tuple(sorted(m1 + m2))
            out[m] = out.get(m, 0) + c1 * c2
            if out[m] == 0:
                del out[m]
    return out


def is_const(p):
    return all(m == () for m in p)


def text(p):
    if not p:
        return '0'
    parts = []
    for m, c in sorted(p.items()):
        t = '*'.join(m) if m else ''
        if not t:
            parts.append(str(c))
        elif c == 1:
            parts.append(t)
        elif c == -1:
            parts.append('-' + t)
        else:
            parts.append(f'{c}*{t}')
    return ' + '.join(parts).replace('+ -', '- ')


def subst(p, name, q):
    """Replace atom `name` by polynomial q."""
    out = {}
    for m, c in p.items():
        term = const(c)
        for a in m:
            term = mul(term, q if a == name else atom(a))
        out = add(out, term)
    return out


def floordiv(p, q):
    if is_const(q) and q.get((), 0) == 1:
        return p
    if is_const(p) and is_const(q) and q.get((), 0):
        return const(p.get((), 0) // q[()])
    # pull whole multiples of q out:  floordiv(P + m*Q, Q) = floordiv(P, Q) + m   (Q a single atom)
    extra = {}
    if len(q) == 1:
        (qm, qc), = q.items()
        if qc == 1 and len(qm) == 1:
            rest = {}
            for m, c in p.items():
                if qm[0] in m:
                    mm = list(m)
                    mm.remove(qm[0])
                    extra = add(extra, {tuple(mm): c})
                else:
                    rest[m] = c
            p = rest
    name = f'floordiv({text(p)}, {text(q)})'
    _FLOORDIVS[name] = (p, q)
    return add(atom(name), extra)


def of_expr(e, env):
    """Normal form of an integer expression; names are looked up in env (name -> Poly), unknown names are atoms."""
    if isinstance(e, ast.Constant):
        if isinstance(e.value, bool) or not isinstance(e.value, int):
            raise NotPoly(ast.unparse(e))
        return const(e.value)
    if isinstance(e, ast.Name):
        return env[e.id] if e.id in env else atom(e.id)
    if isinstance(e, ast.Attribute):
        t = ' '.join(ast.unparse(e).split())
        return env[t] if t in env else atom(t)
    if isinstance(e, ast.UnaryOp) and isinstance(e.op, ast.USub):
        return mul(const(-1), of_expr(e.operand, env))
    if isinstance(e, ast.BinOp):
        l, r = of_expr(e.left, env), of_expr(e.right, env)
        if isinstance(e.op, ast.Add):
            return add(l, r)
        if isinstance(e.op, ast.Sub):
            return add(l, r, -1)
        if isinstance(e.op, ast.Mult):
            return mul(l, r)
        if isinstance(e.op, ast.FloorDiv):
            return floordiv(l, r)
        raise NotPoly(ast.unparse(e))
    if isinstance(e, ast.Call):
        fn = ast.unparse(e.func)
        if fn == 'int' and len(e.args) == 1:
            return of_expr(e.args[0], env)
        if fn == 'len' and len(e.args) == 1:
            t = ' '.join(ast.unparse(e).split())
            return env[t] if t in env else atom(t)
        if fn in ('max', 'min') and len(e.args) == 2 and not e.keywords and _CHOICES is not None:
            a, b = of_expr(e.args[0], env), of_expr(e.args[1], env)
            d = add(a, b, -1)
            if is_const(d):
                first = d.get((), 0) >= 0
            else:
                key = f'{text(a)} >= {text(b)}'
                if key not in _CHOICES:
                    raise NeedChoice(key)
                first = _CHOICES[key] == 0
                if first:
                    _CONDS.append((d, f'{text(a)} >= {text(b)}'))
                else:
                    _CONDS.append((add(mul(const(-1), d), const(1), -1), f'{text(a)} < {text(b)}'))
            if fn == 'max':
                return a if first else b
            return b if first else a
        raise NotPoly(ast.unparse(e))
    if isinstance(e, ast.Subscript):
        t = ' '.join(ast.unparse(e).split())
        return env[t] if t in env else atom(t)
    raise NotPoly(ast.unparse(e))


class Unsupported(Exception):
    pass


def exec_block(stmts, env, on_yield, skip_raising_ifs=True, on_if=None):
    """Straight-line symbolic execution.  Assignments of integer expressions update env; `yield` reports the tuple of
    normal forms; ifs whose body only raises are skipped (validation); other statements are unsupported."""
    for st in stmts:
        if isinstance(st, ast.Expr) and isinstance(st.value, (ast.Yield,)):
            v = st.value.value
            elts = v.elts if isinstance(v, ast.Tuple) else [v]
            on_yield(st, tuple(of_expr(x, env) for x in elts), env)
        elif isinstance(st, ast.Expr) and isinstance(st.value, ast.Constant):
            continue
        elif isinstance(st, ast.Assign) and len(st.targets) == 1:
            t = st.targets[0]
            if isinstance(t, ast.Name):
                v = st.value
                # `p = <default> if p is None else p` / `p = p if p is not None else <default>`: p keeps its value
                # whenever it was given (the default case is handled by the caller's specification)
                if isinstance(v, ast.IfExp) and isinstance(v.test, ast.Compare) and len(v.test.ops) == 1 and \
                        isinstance(v.test.ops[0], (ast.Is, ast.IsNot)) and isinstance(v.test.left, ast.Name) and \
                        v.test.left.id == t.id and isinstance(v.test.comparators[0], ast.Constant) and \
                        v.test.comparators[0].value is None:
                    keep = v.orelse if isinstance(v.test.ops[0], ast.Is) else v.body
                    if isinstance(keep, ast.Name) and keep.id == t.id:
                        continue
                try:
                    env[t.id] = of_expr(st.value, env)
                except NotPoly:
                    env[t.id] = atom(f'<{t.id}@{st.lineno}>')
            elif isinstance(t, ast.Tuple) and isinstance(st.value, ast.Tuple) and len(t.elts) == len(st.value.elts):
                vals = []
                for x in st.value.elts:
                    try:
                        vals.append(of_expr(x, env))
                    except NotPoly:
                        vals.append(None)
                for te, v in zip(t.elts, vals):
                    if isinstance(te, ast.Name):
                        env[te.id] = v if v is not None else atom(f'<{te.id}@{st.lineno}>')
            elif isinstance(t, ast.Tuple):
                for i, te in enumerate(t.elts):
                    if isinstance(te, ast.Name):
                        env[te.id] = atom(f'<{te.id}@{st.lineno}>')
            else:
                raise Unsupported(f'assignment target at line {st.lineno}')
        elif isinstance(st, ast.AugAssign) and isinstance(st.target, ast.Name):
            cur = env.get(st.target.id, atom(st.target.id))
            try:
                v = of_expr(st.value, env)
            except NotPoly:
                raise Unsupported(f'augmented assignment at line {st.lineno}')
            if isinstance(st.op, ast.Add):
                env[st.target.id] = add(cur, v)
            elif isinstance(st.op, ast.Sub):
                env[st.target.id] = add(cur, v, -1)
            elif isinstance(st.op, ast.Mult):
                env[st.target.id] = mul(cur, v)
            else:
                raise Unsupported(f'augmented assignment at line {st.lineno}')
        elif isinstance(st, ast.If):
            if on_if is not None and on_if(st, env):
                continue
            raise Unsupported(f'if at line {st.lineno}')
        elif isinstance(st, (ast.Pass, ast.Assert)):
            continue
        else:
            raise Unsupported(f'{type(st).__name__} at line {st.lineno}')
    return env


def loop_closed_form(loop, env, kname='k'):
    """For `for <v> in range(N)`: returns (N poly, yields [(stmt, tuple of polys in terms of k)], env after the loop).
    Loop-carried variables must advance by a loop-invariant amount per iteration (checked on three unrolled
    iterations); the state at iteration k is then  v0 + k*c."""
    if not (isinstance(loop.iter, ast.Call) and ast.unparse(loop.iter.func) == 'range' and len(loop.iter.args) == 1
            and isinstance(loop.target, ast.Name)) or loop.orelse:
        raise Unsupported(f'loop shape at line {loop.lineno}')
    n = of_expr(loop.iter.args[0], env)
    assigned = set()
    for x in ast.walk(ast.Module(body=loop.body, type_ignores=[])):
        if isinstance(x, ast.Name) and isinstance(x.ctx, ast.Store):
            assigned.add(x.id)
    ivar = loop.target.id
    # unroll three iterations symbolically to find the per-iteration increments
    states = [dict(env)]
    for it in range(3):
        e = dict(states[-1])
        e[ivar] = const(it)
        exec_block(loop.body, e, lambda *a: None, on_if=lambda st, en: False)
        states.append(e)
    incr = {}
    for v in assigned:
        if v == ivar:
            continue
        if v not in states[0]:
            # defined inside the body from other state: not loop-carried at entry; handled by re-execution at k
            continue
        d1 = add(states[1][v], states[0][v], -1)
        d2 = add(states[2][v], states[1][v], -1)
        d3 = add(states[3][v], states[2][v], -1)
        if d1 != d2 or d2 != d3:
            raise Unsupported(f'`{v}` does not advance by a loop-invariant amount per iteration')
        incr[v] = d1
    k = atom(kname)
    at_k = dict(env)
    for v, c in incr.items():
        at_k[v] = add(env[v], mul(k, c))
    at_k[ivar] = k
    ys = []
    exec_block(loop.body, dict(at_k), lambda st, vals, en: ys.append((st, vals)), on_if=lambda st, en: False)
    after = dict(env)
    for v, c in incr.items():
        after[v] = add(env[v], mul(n, c))
    return n, ys, after


def has_placeholder(*polys):
    return any(a.startswith('<') for p in polys for m in p for a in m)
