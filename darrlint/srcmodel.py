"""L0 source model: parse /repo's darr package (no import, no execution).

Everything here is derived from the working tree on every run.
"""
import ast
import hashlib
import os

EXCLUDE_FILES = {'_version.py'}          # vendored versioneer output
PKG = 'darr'


class AnalysisError(Exception):
    """The analysis cannot be carried out (anchor vanished, unsupported
    construct, count below the confirmed floor).  Exit status 2, never a
    VIOLATION."""


class Opaque:
    """A constant whose value the literal evaluator does not model."""
    def __init__(self, why):
        self.why = why

    def __repr__(self):
        return f'<opaque {self.why}>'


def const_eval(node, env):
    """Evaluate a literal-ish expression with names looked up in env.
    Raises ValueError if not a constant expression."""
    if isinstance(node, ast.Constant):
        return node.value
    if isinstance(node, ast.Name):
        if node.id in env and not isinstance(env[node.id], Opaque):
            return env[node.id]
        raise ValueError(node.id)
    if isinstance(node, ast.Tuple):
        return tuple(const_eval(e, env) for e in node.elts)
    if isinstance(node, ast.List):
        return [const_eval(e, env) for e in node.elts]
    if isinstance(node, ast.Set):
        return frozenset(const_eval(e, env) for e in node.elts)
    if isinstance(node, ast.Dict):
        out = {}
        for k, v in zip(node.keys, node.values):
            if k is None:
                raise ValueError('dict unpack')
            kk = const_eval(k, env)
            try:
                out[kk] = const_eval(v, env)
            except ValueError:
                if isinstance(v, ast.Name):
                    out[kk] = FuncRef(v.id)
                else:
                    raise
        return out
    if isinstance(node, ast.UnaryOp) and isinstance(node.op, ast.USub):
        return -const_eval(node.operand, env)
    if isinstance(node, ast.BinOp) and isinstance(node.op, ast.Add):
        return const_eval(node.left, env) + const_eval(node.right, env)
    if isinstance(node, ast.JoinedStr):
        parts = []
        for v in node.values:
            if isinstance(v, ast.Constant):
                parts.append(v.value)
            else:
                raise ValueError('f-string hole')
        return ''.join(parts)
    if isinstance(node, ast.BinOp) and isinstance(node.op, ast.Mult):
        l, r = const_eval(node.left, env), const_eval(node.right, env)
        if isinstance(l, (str, int)) and isinstance(r, (str, int)) and not (isinstance(l, str) and isinstance(r, str)):
            if max(x for x in (l, r) if isinstance(x, int)) > 10000:
                raise ValueError('large repeat')
            return l * r
        raise ValueError('mult')
    if isinstance(node, ast.Call) and not node.keywords:
        # constant folding of pure text functions on constant text
        fn = ast.unparse(node.func)
        if fn in ('textwrap.dedent', 'dedent') and len(node.args) == 1:
            v = const_eval(node.args[0], env)
            if isinstance(v, str):
                import textwrap
                return textwrap.dedent(v)
        if isinstance(node.func, ast.Attribute) and node.func.attr in _PURE_STR_METHODS:
            recv = const_eval(node.func.value, env)
            if isinstance(recv, str):
                args = [const_eval(a, env) for a in node.args]
                if all(isinstance(a, (str, int, tuple, list)) for a in args):
                    return getattr(recv, node.func.attr)(*args)
        raise ValueError('call')
    raise ValueError(type(node).__name__)


_PURE_STR_METHODS = ('strip', 'lstrip', 'rstrip', 'lower', 'upper', 'replace', 'join', 'splitlines', 'split', 'expandtabs',
                     'removeprefix', 'removesuffix')


class FuncRef:
    """A dict value that names a function (registry tables)."""
    def __init__(self, name):
        self.name = name

    def __repr__(self):
        return f'<func {self.name}>'

    def __eq__(self, o):
        return isinstance(o, FuncRef) and o.name == self.name

    def __hash__(self):
        return hash(('FuncRef', self.name))


def decorator_names(fn):
    out = set()
    for d in fn.decorator_list:
        if isinstance(d, ast.Name):
            out.add(d.id)
        elif isinstance(d, ast.Attribute):
            out.add(ast.unparse(d))
        elif isinstance(d, ast.Call):
            out.add(ast.unparse(d.func))
    return out


def own_nodes(fn):
    """Walk the nodes of a function without descending into nested
    function/class definitions (lambdas and comprehensions are included)."""
    stack = list(ast.iter_child_nodes(fn))
    while stack:
        n = stack.pop()
        yield n
        if isinstance(n, (ast.FunctionDef, ast.AsyncFunctionDef, ast.ClassDef)):
            continue
        stack.extend(ast.iter_child_nodes(n))


def normalise(tree):
    """Canonical form applied to every parsed module before any rule looks at it, so that
    rules need one shape only:  `tmp = <expr>` immediately followed by `return tmp` (tmp a
    plain local: it is dead after the return) becomes `return <expr>`."""
    for fn in [n for n in ast.walk(tree) if isinstance(n, (ast.FunctionDef, ast.Lambda))]:
        if isinstance(fn, ast.Lambda):
            continue
        globs = set()
        for n in ast.walk(fn):
            if isinstance(n, (ast.Global, ast.Nonlocal)):
                globs |= set(n.names)
        for parent in ast.walk(fn):
            for fld in ('body', 'orelse', 'finalbody'):
                body = getattr(parent, fld, None)
                if not (isinstance(body, list) and body and isinstance(body[0], ast.stmt)):
                    continue
                i = 0
                while i + 1 < len(body):
                    a, b = body[i], body[i + 1]
                    if isinstance(a, ast.Assign) and len(a.targets) == 1 and isinstance(a.targets[0], ast.Name) and \
                            isinstance(b, ast.Return) and isinstance(b.value, ast.Name) and b.value.id == a.targets[0].id and \
                            b.value.id not in globs:
                        b.value = a.value
                        del body[i]
                        continue
                    i += 1
    _slice_calls_to_slices(tree)
    _with_names_to_calls(tree)
    _sink_attribute_copies(tree)
    _split_parallel_assignments(tree)
    _raising_loops_to_any(tree)
    _self_properties_to_attributes(tree)
    return tree


def _slice_calls_to_slices(tree):
    """`x[slice(a, b)]` is `x[a:b]` (also with a step, and with None for an open end): one spelling for the rules."""
    for n in ast.walk(tree):
        if isinstance(n, ast.Subscript) and isinstance(n.slice, ast.Call) and isinstance(n.slice.func, ast.Name) and \
                n.slice.func.id == 'slice' and not n.slice.keywords and 1 <= len(n.slice.args) <= 3 and \
                not any(isinstance(a, ast.Starred) for a in n.slice.args):
            a = list(n.slice.args)
            if len(a) == 1:
                a = [None, a[0], None]
            elif len(a) == 2:
                a = [a[0], a[1], None]
            a = [None if (isinstance(x, ast.Constant) and x.value is None) else x for x in a]
            n.slice = ast.copy_location(ast.Slice(lower=a[0], upper=a[1], step=a[2]), n.slice)


def _raising_loops_to_any(tree):
    """`for v in IT: if TEST: raise E`  ->  `if any(TEST for v in IT): raise E`  when the loop does nothing else, `v` is a
    plain name that is read neither by the raise nor after the loop (both forms evaluate TEST on the same elements in
    the same order and raise at the first hit)."""
    for fn in [n for n in ast.walk(tree) if isinstance(n, ast.FunctionDef)]:
        for parent in ast.walk(fn):
            for fld in ('body', 'orelse', 'finalbody'):
                body = getattr(parent, fld, None)
                if not (isinstance(body, list) and body and isinstance(body[0], ast.stmt)):
                    continue
                for i, st in enumerate(body):
                    if not (isinstance(st, ast.For) and not st.orelse and isinstance(st.target, ast.Name) and
                            len(st.body) == 1 and isinstance(st.body[0], ast.If) and not st.body[0].orelse and
                            len(st.body[0].body) == 1 and isinstance(st.body[0].body[0], ast.Raise)):
                        continue
                    v, cond = st.target.id, st.body[0]
                    if any(isinstance(n, ast.Name) and n.id == v for n in ast.walk(cond.body[0])):
                        continue
                    if any(isinstance(n, (ast.Yield, ast.YieldFrom, ast.Await, ast.NamedExpr)) for n in ast.walk(cond.test)):
                        continue
                    inside = {id(n) for n in ast.walk(st)}
                    if any(isinstance(n, ast.Name) and n.id == v and id(n) not in inside for n in ast.walk(fn)):
                        continue
                    gen = ast.GeneratorExp(elt=cond.test, generators=[ast.comprehension(target=st.target, iter=st.iter, ifs=[], is_async=0)])
                    call = ast.Call(func=ast.Name(id='any', ctx=ast.Load()), args=[gen], keywords=[])
                    body[i] = ast.copy_location(ast.If(test=call, body=cond.body, orelse=[]), st)
    ast.fix_missing_locations(tree)


def _split_parallel_assignments(tree):
    """`a, b = x, y`  ->  `a = x; b = y`  when no name or attribute stored on the left is read on the right (so the
    sequential form computes the same values)."""
    for parent in ast.walk(tree):
        for fld in ('body', 'orelse', 'finalbody'):
            body = getattr(parent, fld, None)
            if not (isinstance(body, list) and body and isinstance(body[0], ast.stmt)):
                continue
            out = []
            for st in body:
                if isinstance(st, ast.Assign) and len(st.targets) == 1 and isinstance(st.targets[0], ast.Tuple) and \
                        isinstance(st.value, ast.Tuple) and len(st.targets[0].elts) == len(st.value.elts) and \
                        not any(isinstance(e, ast.Starred) for e in st.targets[0].elts + st.value.elts):
                    stored = {ast.unparse(t) for t in st.targets[0].elts}
                    read = {ast.unparse(n) for v in st.value.elts for n in ast.walk(v) if isinstance(n, (ast.Name, ast.Attribute, ast.Subscript))}
                    if not (stored & read):
                        for t, v in zip(st.targets[0].elts, st.value.elts):
                            out.append(ast.copy_location(ast.Assign(targets=[t], value=v), st))
                        continue
                out.append(st)
            setattr(parent, fld, out)
    ast.fix_missing_locations(tree)


def _self_properties_to_attributes(tree):
    """Inside a class, reading `self.<p>` where `<p>` is a plain getter property of that class
    (`return self._x`, no computation) is the same as reading `self._x`: rewrite to the attribute, so that rules need one
    spelling.  Stores are left alone (setters may do more)."""
    for c in [n for n in ast.walk(tree) if isinstance(n, ast.ClassDef)]:
        props = {}
        for m in c.body:
            if isinstance(m, ast.FunctionDef) and any(isinstance(d, ast.Name) and d.id == 'property' for d in m.decorator_list):
                body = [s for s in m.body if not (isinstance(s, ast.Expr) and isinstance(s.value, ast.Constant))]
                if len(body) == 1 and isinstance(body[0], ast.Return) and isinstance(body[0].value, ast.Attribute) and \
                        isinstance(body[0].value.value, ast.Name) and body[0].value.value.id == 'self':
                    props[m.name] = body[0].value.attr
        if not props:
            continue
        for m in c.body:
            if not isinstance(m, ast.FunctionDef) or m.name in props:
                continue
            for n in ast.walk(m):
                if isinstance(n, ast.Attribute) and isinstance(n.ctx, ast.Load) and isinstance(n.value, ast.Name) and \
                        n.value.id == 'self' and n.attr in props:
                    n.attr = props[n.attr]


def _with_names_to_calls(tree):
    """`m = <call>` ... `with m as x:` -> `with <call> as x:` when `m` is bound once, used only as that context
    expression, and everything between the binding and the `with` in the same statement list is another such binding
    consumed by the same `with` (creating a context-manager object does nothing until it is entered; the calls keep
    their relative order)."""
    for fn in [n for n in ast.walk(tree) if isinstance(n, (ast.FunctionDef, ast.AsyncFunctionDef))]:
        for parent in ast.walk(fn):
            for fld in ('body', 'orelse', 'finalbody'):
                body = getattr(parent, fld, None)
                if not (isinstance(body, list) and body and isinstance(body[0], ast.stmt)):
                    continue
                for w in [x for x in body if isinstance(x, ast.With)]:
                    wi = body.index(w)
                    names = [it.context_expr.id for it in w.items if isinstance(it.context_expr, ast.Name)]
                    if not names:
                        continue
                    # the run of statements immediately before the with
                    j = wi
                    binds = {}
                    while j > 0:
                        a = body[j - 1]
                        if isinstance(a, ast.Assign) and len(a.targets) == 1 and isinstance(a.targets[0], ast.Name) and \
                                a.targets[0].id in names and isinstance(a.value, ast.Call) and a.targets[0].id not in binds:
                            binds[a.targets[0].id] = a
                            j -= 1
                        else:
                            break
                    for nm, a in binds.items():
                        uses = [n for n in ast.walk(fn) if isinstance(n, ast.Name) and n.id == nm]
                        if len(uses) != 2:          # the store and the context expression
                            continue
                        for it in w.items:
                            if isinstance(it.context_expr, ast.Name) and it.context_expr.id == nm:
                                it.context_expr = a.value
                        body.remove(a)


def _sink_attribute_copies(tree):
    """Second canonical form: a local that only serves to build the object stored in an instance attribute
    (`t = <expr>` in one or more branches, possibly `t.flags... = ...`, then `self.A = t`) is replaced by the
    attribute itself, so that rules see `self.A = <expr>` in each branch.  The attribute is thereby considered set
    slightly earlier; the rewrite is applied only when nothing in between can observe the attribute (see below)."""
    for fn in [n for n in ast.walk(tree) if isinstance(n, ast.FunctionDef)]:
        a = fn.args
        params = {x.arg for x in a.posonlyargs + a.args + a.kwonlyargs}
        copies = []
        for parent in ast.walk(fn):
            for fld in ('body', 'orelse', 'finalbody'):
                body = getattr(parent, fld, None)
                if isinstance(body, list) and body and isinstance(body[0], ast.stmt):
                    for st in body:
                        if isinstance(st, ast.Assign) and len(st.targets) == 1 and isinstance(st.value, ast.Name) and \
                                isinstance(st.targets[0], ast.Attribute) and isinstance(st.targets[0].value, ast.Name) and \
                                st.targets[0].value.id == 'self' and st.value.id not in params:
                            copies.append((body, st))
        for body, st in copies:
            t, attr = st.value.id, st.targets[0].attr
            stores = [n for n in ast.walk(fn) if isinstance(n, ast.Name) and n.id == t and isinstance(n.ctx, ast.Store)]
            defs = [n for n in ast.walk(fn) if isinstance(n, ast.Assign) and len(n.targets) == 1 and
                    isinstance(n.targets[0], ast.Name) and n.targets[0].id == t]
            if not defs or len(stores) != len(defs):
                continue            # bound by a loop, with-target, tuple unpacking ...
            if not all(isinstance(d.value, ast.Call) for d in defs):
                continue            # only freshly constructed objects
            others = [n for n in ast.walk(fn) if isinstance(n, ast.Assign) and n is not st and
                      any(isinstance(x, ast.Attribute) and isinstance(x.value, ast.Name) and x.value.id == 'self' and x.attr == attr
                          for x in n.targets) and not (isinstance(n.value, ast.Constant) and n.value.value is None)]
            if others:
                # still fine when the definition and the copy are neighbours in one statement list and nothing in between
                # touches the attribute (other branches may set the attribute in their own way)
                idx = body.index(st)
                di = [i for i, x in enumerate(body[:idx]) if x in defs]
                between = body[di[-1] + 1:idx] if len(di) == len(defs) == 1 else None
                if between is None or any(isinstance(x, ast.Attribute) and x.attr == attr and isinstance(x.value, ast.Name) and
                                          x.value.id == 'self' for b in between for x in ast.walk(b)):
                    continue
            if sum(1 for b, c in copies if c.value.id == t) != 1:
                continue
            # sound only when nothing between the first definition and the copy can observe the attribute: a call that
            # involves `self` (a method of the object, or the object handed to a function) or a read of the attribute in
            # that span would see the new value too early in the rewritten form (e.g. a README generated from the handle
            # before the handle's shape is updated)
            # (position = index in a structural pre-order walk: line numbers are meaningless once helpers were inlined)
            order = []

            def _flat(stmts):
                for x_ in stmts:
                    if isinstance(x_, (ast.FunctionDef, ast.AsyncFunctionDef, ast.ClassDef)):
                        continue
                    order.append(x_)
                    for fld_ in ('body', 'orelse', 'handlers', 'finalbody'):
                        sub_ = getattr(x_, fld_, None)
                        if isinstance(sub_, list):
                            _flat([h_ for h_ in sub_ if isinstance(h_, ast.stmt)] +
                                  [b_ for h_ in sub_ if isinstance(h_, ast.ExceptHandler) for b_ in h_.body])
            _flat(fn.body)
            pos = {id(x_): i_ for i_, x_ in enumerate(order)}
            if id(st) not in pos or any(id(d) not in pos for d in defs):
                continue
            first = min(pos[id(d)] for d in defs)
            observed = False
            for x in order[first + 1:pos[id(st)]]:
                if x is st or x in defs:
                    continue
                if isinstance(x, (ast.If, ast.For, ast.While, ast.With, ast.Try)):
                    # compound statements: only their header expressions; their simple statements come on their own
                    hdr = [getattr(x, 'test', None), getattr(x, 'iter', None)] + \
                          [it.context_expr for it in getattr(x, 'items', [])]
                    parts = [h for h in hdr if h is not None]
                else:
                    parts = [x]
                for part in parts:
                    for y in ast.walk(part):
                        if isinstance(y, ast.Call) and any(isinstance(z, ast.Name) and z.id == 'self' for z in ast.walk(y)):
                            observed = True
                        if isinstance(y, ast.Attribute) and y.attr == attr and isinstance(y.value, ast.Name) and \
                                y.value.id == 'self' and isinstance(y.ctx, ast.Load):
                            observed = True
            if observed:
                continue

            class R(ast.NodeTransformer):
                def visit_Name(self, n):
                    if n.id == t:
                        return ast.copy_location(ast.Attribute(value=ast.Name(id='self', ctx=ast.Load()), attr=attr, ctx=n.ctx), n)
                    return n
            body.remove(st)
            if not body:
                body.append(ast.copy_location(ast.Pass(), st))
            R().visit(fn)
            ast.fix_missing_locations(fn)


class Func:
    def __init__(self, module, cls, node):
        self.module = module
        self.cls = cls
        self.node = node
        self.name = node.name
        self.qualname = f'{cls.name}.{node.name}' if cls else node.name
        self.key = f'{module.relpath}::{self.qualname}'
        self.decorators = decorator_names(node)
        a = node.args
        self.params = [x.arg for x in a.posonlyargs + a.args]
        self.kwonly = [x.arg for x in a.kwonlyargs]
        self.vararg = a.vararg.arg if a.vararg else None
        self.kwarg = a.kwarg.arg if a.kwarg else None
        self.is_generator = any(isinstance(n, (ast.Yield, ast.YieldFrom))
                                for n in own_nodes(node))
        self.is_ctxmgr = 'contextmanager' in self.decorators
        self.is_property = 'property' in self.decorators
        self.is_setter = any(d.endswith('.setter') for d in self.decorators)
        if self.is_setter:
            self.qualname += '.setter'
            self.key += '.setter'

    @property
    def is_public(self):
        return not self.name.startswith('_')

    def param_defaults(self):
        a = self.node.args
        pos = a.posonlyargs + a.args
        out = {}
        for p, d in zip(pos[len(pos) - len(a.defaults):], a.defaults):
            out[p.arg] = d
        for p, d in zip(a.kwonlyargs, a.kw_defaults):
            if d is not None:
                out[p.arg] = d
        return out

    def loc(self, node=None):
        n = node if node is not None else self.node
        return f'{self.module.relpath}:{getattr(n, "lineno", self.node.lineno)}'

    def __repr__(self):
        return f'<Func {self.key}>'


class ClassInfo:
    def __init__(self, module, node):
        self.module = module
        self.node = node
        self.name = node.name
        self.consts = {}
        self.methods = {}        # name -> Func (getter for properties)
        self.setters = {}        # name -> Func
        self.aliases = {}        # __str__ = __repr__
        self.attr_exprs = {}     # attr -> list of RHS expr assigned to self.attr anywhere
        self.init_attr_exprs = {}  # attr -> RHS in __init__ (last)
        for st in node.body:
            if isinstance(st, ast.Assign) and len(st.targets) == 1 and \
                    isinstance(st.targets[0], ast.Name):
                tgt = st.targets[0].id
                try:
                    self.consts[tgt] = const_eval(st.value, self.consts)
                except ValueError:
                    if isinstance(st.value, ast.Name):
                        self.aliases[tgt] = st.value.id
                    self.consts.setdefault(tgt, Opaque(ast.unparse(st.value)))
            elif isinstance(st, ast.FunctionDef):
                f = Func(module, self, st)
                if f.is_setter:
                    self.setters[st.name] = f
                else:
                    self.methods[st.name] = f
            elif isinstance(st, ast.AsyncFunctionDef):
                raise AnalysisError(f'async def in {module.relpath}')
        for f in list(self.methods.values()) + list(self.setters.values()):
            for n in own_nodes(f.node):
                if isinstance(n, ast.Assign):
                    for t in n.targets:
                        for tt in (t.elts if isinstance(t, ast.Tuple) else [t]):
                            if isinstance(tt, ast.Attribute) and \
                                    isinstance(tt.value, ast.Name) and tt.value.id == 'self':
                                self.attr_exprs.setdefault(tt.attr, []).append((f, n.value, n))
                                if f.name == '__init__':
                                    self.init_attr_exprs[tt.attr] = n.value
        for a, tgt in self.aliases.items():
            if tgt in self.methods:
                self.methods.setdefault(a, self.methods[tgt])

    def all_funcs(self):
        seen = set()
        for f in list(self.methods.values()) + list(self.setters.values()):
            if id(f) not in seen:
                seen.add(id(f))
                yield f


class Module:
    def __init__(self, root, relpath):
        self.relpath = relpath
        self.name = os.path.splitext(os.path.basename(relpath))[0]
        with open(os.path.join(root, relpath), 'rb') as fh:
            raw = fh.read()
        self.sha256 = hashlib.sha256(raw).hexdigest()
        self.src = raw.decode('utf-8')
        self.lines = self.src.splitlines()
        try:
            self.tree = normalise(ast.parse(self.src, filename=relpath))
        except SyntaxError as e:
            raise AnalysisError(f'{relpath} does not parse: {e}')
        self.build()

    def build(self):
        relpath = self.relpath
        self.funcs = {}
        self.func_aliases = {}
        self.classes = {}
        self.consts = {}
        self.imports = {}   # local name -> (module basename or dotted, original name or None)
        self.star_imports = []
        for st in self.tree.body:
            if isinstance(st, ast.FunctionDef):
                self.funcs[st.name] = Func(self, None, st)
            elif isinstance(st, ast.AsyncFunctionDef):
                raise AnalysisError(f'async def in {relpath}')
            elif isinstance(st, ast.ClassDef):
                self.classes[st.name] = ClassInfo(self, st)
            elif isinstance(st, ast.Assign) and len(st.targets) == 1 and \
                    isinstance(st.targets[0], ast.Name):
                tgt = st.targets[0].id
                # `x = lru_cache(...)(f)` / `x = cache(f)`: x is f behind a memoising wrapper — calls of x resolve to f
                v_ = st.value
                if isinstance(v_, ast.Call) and len(v_.args) == 1 and isinstance(v_.args[0], ast.Name) and \
                        v_.args[0].id in self.funcs:
                    w_ = v_.func.func if isinstance(v_.func, ast.Call) else v_.func
                    wn_ = ast.unparse(w_)
                    if wn_ in ('lru_cache', 'cache', 'functools.lru_cache', 'functools.cache'):
                        self.func_aliases[tgt] = v_.args[0].id
                try:
                    self.consts[tgt] = const_eval(st.value, self.consts)
                except ValueError:
                    self.consts[tgt] = Opaque(ast.unparse(st.value)[:60])
            elif isinstance(st, ast.ImportFrom):
                modname = st.module or ''
                for al in st.names:
                    if al.name == '*':
                        self.star_imports.append(('.' * st.level) + modname)
                        continue
                    self.imports[al.asname or al.name] = (
                        ('.' * st.level) + modname, al.name)
            elif isinstance(st, ast.Import):
                for al in st.names:
                    self.imports[al.asname or al.name.split('.')[0]] = (al.name, None)

    def all_funcs(self):
        yield from self.funcs.values()
        for c in self.classes.values():
            yield from c.all_funcs()

    def line(self, lineno):
        if 1 <= lineno <= len(self.lines):
            return self.lines[lineno - 1].strip()
        return ''


# Private helpers of the analysed tree that the rules anchor on by name or discover by role.  Only consulted for
# the *inlined equivalent form* (Repo(expand=True)): these are left as they are, every other eligible private
# helper is inlined into its callers (see inline.py).  A name missing here costs nothing but precision of that
# second opinion; it can never produce a VIOLATION.
ANCHORED_PRIVATE = frozenset({
    '_update_readmetxt', '_append', '_write_txt', '_write_jsonfile', '_write_jsondict', '_view', '_update_len',
    '_update_jsondict', '_update_arrayinfo', '_update_arraydescr', '_read_arraydescr', '_read', '_open_array',
    '_fillgenerator', '_delete_files', '_checkarrayforappend', '_check_writeprotected',
    '_check_arrayinfoconsistency', '_archunkgenerator'})


# which class owns each anchored private method on today's tree (a method of the same name that appears in another
# class is a new helper and may be inlined inside that class)
ANCHORED_OWNERS = {
    '_update_readmetxt': ('Array', 'RaggedArray'), '_append': ('Array', 'RaggedArray'), '_write_txt': ('DataDir',),
    '_write_jsonfile': ('DataDir',), '_write_jsondict': ('DataDir',), '_view': ('RaggedArray',), '_update_len': ('Array',),
    '_update_jsondict': ('DataDir',), '_update_arrayinfo': ('Array',), '_update_arraydescr': ('RaggedArray',),
    '_read_arraydescr': ('Array',), '_read': ('MetaData',), '_open_array': ('Array',), '_delete_files': ('DataDir',),
    '_checkarrayforappend': ('Array',), '_check_writeprotected': ('DataDir',), '_check_arrayinfoconsistency': ('Array',)}


class Repo:
    def __init__(self, root='/repo', expand=False):
        self.root = root
        self.expanded = []
        pkgdir = os.path.join(root, PKG)
        if not os.path.isdir(pkgdir):
            raise AnalysisError(f'{pkgdir} not found')
        self.modules = {}
        for fn in sorted(os.listdir(pkgdir)):
            if fn.endswith('.py') and fn not in EXCLUDE_FILES:
                m = Module(root, f'{PKG}/{fn}')
                self.modules[m.name] = m
        # customary private names (canon.py): a no-op unless a private name the rules spell has been renamed
        from .canon import canonicalise
        trees = {n: m.tree for n, m in self.modules.items()}
        self.renamed = canonicalise(trees)
        if self.renamed:
            for m in self.modules.values():
                m.build()
        if expand:
            from .inline import expand as _expand
            trees = {n: m.tree for n, m in self.modules.items()}
            self.expanded = _expand(trees, keep=self._role_keep(trees),
                                    anchored_owner=lambda nm, cls: cls in ANCHORED_OWNERS.get(nm, ()),
                                    resolve=self._call_class_resolver())
            for m in self.modules.values():
                m.tree = normalise(m.tree)
                m.build()
        self.docs = {}
        for rel in ('docs/readcode.rst', 'docs/design.rst'):
            p = os.path.join(root, rel)
            if os.path.exists(p):
                with open(p, 'rb') as fh:
                    raw = fh.read()
                self.docs[rel] = (raw.decode('utf-8'), hashlib.sha256(raw).hexdigest())

    def _call_class_resolver(self):
        """call node -> name of the class whose method it calls (receiver types of the package as written), or None."""
        try:
            from .resolve import Resolver
            R = Resolver(self)
            owner = {}
            for f in self.all_funcs():
                for n in own_nodes(f.node):
                    if isinstance(n, ast.Call):
                        owner[id(n)] = f
        except Exception:
            return None

        def resolve(call):
            f = owner.get(id(call))
            if f is None:
                return None
            try:
                tg = [t for k, t in R.resolve_call(call, f) if k == 'repo']
            except Exception:
                return None
            cls = {t.cls.name for t in tg if t.cls is not None}
            return next(iter(cls)) if len(cls) == 1 and len(tg) == len([t for t in tg if t.cls is not None]) else None
        return resolve

    @staticmethod
    def _role_keep(trees):
        """Helpers the inlined form leaves alone: the frozen list of today's role-bearing private helpers, adjusted by
        role — a method that assigns the cached shape of the handle (the length committer) is always kept; a customary
        committer name that has become a thin wrapper around such a method is not (it is inlined into its callers, so
        that every commit is a call of the one function that does the work)."""
        keep = set(ANCHORED_PRIVATE)
        core = set()
        thin = set()
        for tree in trees.values():
            for c in [n for n in tree.body if isinstance(n, ast.ClassDef)]:
                for m in [n for n in c.body if isinstance(n, ast.FunctionDef)]:
                    if m.name == '__init__':
                        continue
                    if any(isinstance(n, ast.Assign) and any(isinstance(t, ast.Attribute) and t.attr == '_shape' and
                                                             isinstance(t.value, ast.Name) and t.value.id == 'self'
                                                             for t in n.targets) for n in ast.walk(m)):
                        core.add(m.name)
        for tree in trees.values():
            for c in [n for n in tree.body if isinstance(n, ast.ClassDef)]:
                for m in [n for n in c.body if isinstance(n, ast.FunctionDef)]:
                    body = [s for s in m.body if not (isinstance(s, ast.Expr) and isinstance(s.value, ast.Constant))]
                    if m.name in keep and m.name not in core and len(body) == 1 and isinstance(body[0], (ast.Expr, ast.Return)) and \
                            isinstance(body[0].value, ast.Call) and isinstance(body[0].value.func, ast.Attribute) and \
                            body[0].value.func.attr in core:
                        thin.add(m.name)
        return frozenset((keep | core) - thin)

    # -- lookups -------------------------------------------------------
    def module(self, name):
        if name not in self.modules:
            raise AnalysisError(f'module darr/{name}.py vanished')
        return self.modules[name]

    def cls(self, name):
        for m in self.modules.values():
            if name in m.classes:
                return m.classes[name]
        raise AnalysisError(f'class {name} vanished')

    def has_cls(self, name):
        return any(name in m.classes for m in self.modules.values())

    def func(self, spec, required=True):
        """spec: 'module.func' or 'module.Class.method' or 'Class.method'."""
        parts = spec.split('.')
        f = None
        if parts[0] in self.modules:
            m = self.modules[parts[0]]
            if len(parts) == 2:
                f = m.funcs.get(parts[1])
            elif len(parts) >= 3 and parts[1] in m.classes:
                c = m.classes[parts[1]]
                f = c.setters.get(parts[2]) if parts[-1] == 'setter' else c.methods.get(parts[2])
        if f is None and len(parts) >= 2 and self.has_cls(parts[0]):
            c = self.cls(parts[0])
            f = c.setters.get(parts[1]) if parts[-1] == 'setter' else c.methods.get(parts[1])
        if f is None and required:
            raise AnalysisError(f'anchor {spec} vanished')
        return f

    def all_funcs(self):
        for m in self.modules.values():
            yield from m.all_funcs()

    def resolve_import(self, module, name):
        """Resolve a name used in `module` to ('func', Func) / ('class',
        ClassInfo) / ('module', Module) / ('ext', dotted) / None."""
        if name in module.funcs:
            return ('func', module.funcs[name])
        if name in getattr(module, 'func_aliases', {}):
            return ('func', module.funcs[module.func_aliases[name]])
        if name in module.classes:
            return ('class', module.classes[name])
        if name in module.imports:
            src, orig = module.imports[name]
            if src.startswith('.'):
                base = src.lstrip('.')
                if base == '' and orig in self.modules:      # from . import readcodearray
                    return ('module', self.modules[orig])
                if base in self.modules:
                    m2 = self.modules[base]
                    if orig is None:
                        return ('module', m2)
                    if orig in m2.funcs or orig in m2.classes or orig in m2.imports:
                        return self.resolve_import(m2, orig)
                    if orig in m2.consts:
                        return ('const', (m2, orig))
                    return None
                return None
            return ('ext', src if orig is None else f'{src}.{orig}')
        if name in module.consts:
            return ('const', (module, name))
        for src in module.star_imports:
            base = src.lstrip('.')
            if src.startswith('.') and base in self.modules:
                m2 = self.modules[base]
                allnames = m2.consts.get('__all__')
                if isinstance(allnames, (list, tuple)) and name not in allnames:
                    continue
                if name in m2.funcs or name in m2.classes:
                    return self.resolve_import(m2, name)
        return None

    def digest(self, modnames=None):
        out = {}
        for n, m in self.modules.items():
            if modnames is None or n in modnames:
                out[m.relpath] = 'sha256:' + m.sha256
        return out
