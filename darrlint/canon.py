"""Canonical private names.

The rules anchor on public API names (the properties are stated over them) and discover most private helpers by
role.  Some rules nevertheless spell a private attribute or helper of Darr (`self._accessmode`, `_datafilename`,
`_update_readmetxt`, `DataDir._write_txt` ...).  Renaming such a name is behaviour-preserving, so before any rule
runs this module *recognises by role* every private entity whose customary name is missing from the analysed tree
and renames it back, consistently in all modules of the in-memory parse trees (never on disk).  On a tree that still
uses the customary names this is a no-op.

Recognisers (each returns {current name: customary name}):
 * attribute behind a public property   `@property def accessmode(self): return self.X`      X -> _accessmode
 * file-name constants by value         'arrayvalues.bin' -> _datafilename, ...
 * protected set                        class constant built from those constants           -> _protectedfiles
 * paths                                self.X = self._path / self._datafilename             -> _datapath, ...
 * sub-handles                          self.X = Array(self._valuespath, ...) / MetaData(..) -> _values, _indices, _metadata
 * DataDir private counterparts         public write_txt calls self.X after the guard        X -> _write_txt
 * helpers by what they do              README regeneration, descriptor rewrite, reader, size check, committer,
                                        appender + checker, opener, chunk generators, MetaData reader/callback
"""
import ast

CUSTOMARY = frozenset({
    '_accessmode', '_path', '_dtype', '_shape', '_size', '_datadir', '_metadata', '_datafilename', '_arraydescrfilename',
    '_metadatafilename', '_readmefilename', '_valuesdirname', '_indicesdirname', '_protectedfiles', '_datapath',
    '_arraydescrpath', '_valuespath', '_indicespath', '_values', '_indices', '_protectedpaths', '_check_writeprotected',
    '_write_jsonfile', '_write_jsondict', '_write_txt', '_update_jsondict', '_delete_files', '_read',
    '_callatfilecreationordeletion', '_update_readmetxt', '_update_arrayinfo', '_update_arraydescr', '_read_arraydescr',
    '_check_arrayinfoconsistency', '_open_array', '_append', '_checkarrayforappend', '_update_len', '_arrayinfo', '_view',
    '_archunkgenerator', '_fillgenerator', '_memmap', '_valuesfd', '_formatversion'})

FILECONSTS = {'arrayvalues.bin': '_datafilename', 'arraydescription.json': '_arraydescrfilename',
              'metadata.json': '_metadatafilename', 'README.txt': '_readmefilename',
              'values': '_valuesdirname', 'indices': '_indicesdirname'}


def _own(fn):
    stack = list(ast.iter_child_nodes(fn))
    while stack:
        n = stack.pop()
        yield n
        if isinstance(n, (ast.FunctionDef, ast.ClassDef)):
            continue
        stack.extend(ast.iter_child_nodes(n))


def _selfattr(e):
    return e.attr if isinstance(e, ast.Attribute) and isinstance(e.value, ast.Name) and e.value.id == 'self' else None


def _decos(fn):
    out = set()
    for d in fn.decorator_list:
        out.add(ast.unparse(d.func if isinstance(d, ast.Call) else d))
    return out


def _calls(fn):
    return [n for n in _own(fn) if isinstance(n, ast.Call)]


def _callname(c):
    return c.func.attr if isinstance(c.func, ast.Attribute) else (c.func.id if isinstance(c.func, ast.Name) else None)


def _private(n):
    return isinstance(n, str) and n.startswith('_') and not n.startswith('__')


def find_renames(trees):
    defined = set()
    classes = {}
    modfuncs = {}
    for mod, t in trees.items():
        for st in t.body:
            if isinstance(st, ast.ClassDef):
                classes[st.name] = st
            elif isinstance(st, ast.FunctionDef):
                modfuncs[st.name] = (mod, st)
                defined.add(st.name)
    for c in classes.values():
        for st in c.body:
            if isinstance(st, ast.FunctionDef):
                defined.add(st.name)
                for n in _own(st):
                    if isinstance(n, (ast.Assign, ast.AnnAssign, ast.AugAssign)):
                        for tg in (n.targets if isinstance(n, ast.Assign) else [n.target]):
                            for x in ast.walk(tg):
                                a = _selfattr(x)
                                if a:
                                    defined.add(a)
            elif isinstance(st, ast.Assign):
                for tg in st.targets:
                    if isinstance(tg, ast.Name):
                        defined.add(tg.id)
    ren = {}
    # where each simple name is defined: class names / '<module>' — a customary name may be restored for one class while
    # another class still (or again) uses it, e.g. Array._append and RaggedArray._append
    where = {}
    for mod, t in trees.items():
        for st in t.body:
            if isinstance(st, ast.FunctionDef):
                where.setdefault(st.name, set()).add('<module>')
            elif isinstance(st, ast.ClassDef):
                for m in st.body:
                    if isinstance(m, ast.FunctionDef):
                        where.setdefault(m.name, set()).add(st.name)
                        for n in _own(m):
                            if isinstance(n, (ast.Assign, ast.AnnAssign, ast.AugAssign)):
                                for tg in (n.targets if isinstance(n, ast.Assign) else [n.target]):
                                    for x in ast.walk(tg):
                                        if _selfattr(x):
                                            where.setdefault(_selfattr(x), set()).add(st.name)
                    elif isinstance(m, ast.Assign):
                        for tg in m.targets:
                            if isinstance(tg, ast.Name):
                                where.setdefault(tg.id, set()).add(st.name)

    def want(old, new):
        if not _private(old) or old == new or old in ren or old in CUSTOMARY:
            return
        # the customary name must be free in every scope that defines the current name
        if where.get(old, set()) & where.get(new, set()):
            return
        for o2, n2 in ren.items():
            if n2 == new and where.get(o2, set()) & where.get(old, set()):
                return
        ren[old] = new

    def methods(c):
        return {st.name: st for st in c.body if isinstance(st, ast.FunctionDef)}

    # ---- file-name constants by value, protected set
    for cname in ('Array', 'RaggedArray'):
        c = classes.get(cname)
        if c is None:
            continue
        for st in c.body:
            if isinstance(st, ast.Assign) and len(st.targets) == 1 and isinstance(st.targets[0], ast.Name):
                v = st.value
                if isinstance(v, ast.Constant) and v.value in FILECONSTS:
                    want(st.targets[0].id, FILECONSTS[v.value])
                elif isinstance(v, (ast.Set, ast.Call)) and sum(1 for x in ast.walk(v) if isinstance(x, ast.Name)) >= 3 and \
                        (isinstance(v, ast.Set) or ast.unparse(v.func) in ('frozenset', 'set')):
                    want(st.targets[0].id, '_protectedfiles')
    # (constants may have been renamed: work with current -> customary view from here on)
    cur = lambda customary: next((o for o, n in ren.items() if n == customary), customary)

    # ---- paths and sub-handles built in __init__
    for cname in ('Array', 'RaggedArray'):
        c = classes.get(cname)
        init = methods(c).get('__init__') if c is not None else None
        if init is None:
            continue
        for n in _own(init):
            if not (isinstance(n, ast.Assign) and len(n.targets) == 1 and _selfattr(n.targets[0])):
                continue
            a, v = _selfattr(n.targets[0]), n.value
            parts = None
            if isinstance(v, ast.BinOp) and isinstance(v.op, ast.Div):
                parts = (v.left, v.right)
            elif isinstance(v, ast.Call) and isinstance(v.func, ast.Attribute) and v.func.attr == 'joinpath' and len(v.args) == 1:
                parts = (v.func.value, v.args[0])
            if parts and _selfattr(parts[1]):
                m = {cur('_datafilename'): '_datapath', cur('_arraydescrfilename'): '_arraydescrpath',
                     cur('_valuesdirname'): '_valuespath', cur('_indicesdirname'): '_indicespath'}
                if _selfattr(parts[1]) in m:
                    want(a, m[_selfattr(parts[1])])
            if isinstance(v, ast.Call) and _callname(v) == 'MetaData':
                want(a, '_metadata')
            if isinstance(v, ast.Call) and _callname(v) in ('DataDir', 'create_datadir'):
                want(a, '_datadir')
            if isinstance(v, ast.Call) and _callname(v) == 'Array' and cname == 'RaggedArray' and v.args:
                src = _selfattr(v.args[0])
                if src in (cur('_valuespath'), '_valuespath'):
                    want(a, '_values')
                elif src in (cur('_indicespath'), '_indicespath'):
                    want(a, '_indices')
            if isinstance(v, ast.Call) and _callname(v) == 'check_accessmode':
                want(a, '_accessmode')
    # ---- DataDir: private counterparts of the public writers, guard, protected paths, path
    dd = classes.get('DataDir')
    if dd is not None:
        ms = methods(dd)
        init = ms.get('__init__')
        if init is not None:
            for n in _own(init):
                if isinstance(n, ast.Assign) and len(n.targets) == 1 and _selfattr(n.targets[0]):
                    names = {x.id for x in ast.walk(n.value) if isinstance(x, ast.Name)}
                    if 'protectedpaths' in names:
                        want(_selfattr(n.targets[0]), '_protectedpaths')
        guard = None
        for name, fn in ms.items():
            if _private(name) and any(isinstance(x, ast.Raise) and 'OSError' in ast.unparse(x) for x in _own(fn)) and \
                    any(_selfattr(x) in (cur('_protectedpaths'), '_protectedpaths') for x in _own(fn)):
                guard = name
        if guard:
            want(guard, '_check_writeprotected')
        for pub in ('write_jsonfile', 'write_jsondict', 'write_txt', 'update_jsondict', 'delete_files'):
            fn = ms.get(pub)
            if fn is None:
                continue
            priv = [_callname(c) for c in _calls(fn) if isinstance(c.func, ast.Attribute) and _selfattr(c.func)
                    and _private(_callname(c)) and _callname(c) != guard and _callname(c) in ms]
            if len(set(priv)) == 1:
                want(priv[0], '_' + pub)
    # ---- MetaData: reader and callback
    md = classes.get('MetaData')
    if md is not None:
        ms = methods(md)
        for name, fn in ms.items():
            if _private(name) and any(_callname(c) in ('load', 'loads') and 'json' in ast.unparse(c.func) for c in _calls(fn)):
                want(name, '_read')
        init = ms.get('__init__')
        if init is not None:
            for n in _own(init):
                if isinstance(n, ast.Assign) and len(n.targets) == 1 and _selfattr(n.targets[0]) and \
                        isinstance(n.value, ast.Name) and n.value.id == 'callatfilecreationordeletion':
                    want(_selfattr(n.targets[0]), '_callatfilecreationordeletion')
                if isinstance(n, ast.Assign) and len(n.targets) == 1 and _selfattr(n.targets[0]) and \
                        isinstance(n.value, ast.Call) and _callname(n.value) == 'Path':
                    want(_selfattr(n.targets[0]), '_path')
    # ---- Array / RaggedArray helpers by what they do
    for cname in ('Array', 'RaggedArray'):
        c = classes.get(cname)
        if c is None:
            continue
        ms = methods(c)
        for name, fn in ms.items():
            if not _private(name):
                continue
            calls = _calls(fn)
            texts = [ast.unparse(x) for x in calls]
            decos = _decos(fn)
            # README regeneration: writes the README file name through the data directory
            if any(_callname(x) in (cur('_write_txt'), '_write_txt', 'write_txt') and
                   any(_selfattr(a) in (cur('_readmefilename'), '_readmefilename') for a in list(x.args) + [k.value for k in x.keywords])
                   for x in calls):
                want(name, '_update_readmetxt')
            # descriptor rewrite
            if any(_callname(x) in (cur('_write_jsondict'), '_write_jsondict') and
                   any(_selfattr(a) in (cur('_arraydescrfilename'), '_arraydescrfilename') for a in list(x.args) + [k.value for k in x.keywords])
                   for x in calls):
                want(name, '_update_arrayinfo' if cname == 'Array' else '_update_arraydescr')
            if cname == 'Array':
                if any(_callname(x) == 'read_jsondict' and any(k.arg == 'requiredkeys' for k in x.keywords) for x in calls):
                    want(name, '_read_arraydescr')
                if any(isinstance(x, ast.Attribute) and x.attr == 'st_size' for x in _own(fn)) and \
                        any(isinstance(x, ast.Raise) for x in _own(fn)) and \
                        not any(isinstance(x, (ast.Assign, ast.AugAssign)) and any(_selfattr(t) for t in ast.walk(x) if isinstance(t, ast.Attribute) and isinstance(t.ctx, ast.Store)) for x in _own(fn)):
                    want(name, '_check_arrayinfoconsistency')
                if 'contextmanager' in decos and any(_callname(x) == 'memmap' for x in calls):
                    want(name, '_open_array')
                if any(_callname(x) == 'tofile' for x in calls) and any(_callname(x) == 'seek' for x in calls):
                    want(name, '_append')
                    for x in calls:
                        if isinstance(x.func, ast.Attribute) and _selfattr(x.func) and _private(_callname(x)) and _callname(x) in ms:
                            want(_callname(x), '_checkarrayforappend')
        if cname == 'Array':
            # committer: assigns the cached shape and calls the descriptor rewriter
            for name, fn in ms.items():
                if _private(name) and name not in ren and \
                        any(isinstance(x, ast.Assign) and any(_selfattr(t) in (cur('_shape'), '_shape') for t in x.targets) for x in _own(fn)) and \
                        any(_callname(x) in (cur('_update_arrayinfo'), '_update_arrayinfo') for x in _calls(fn)) and name != '__init__':
                    want(name, '_update_len')
            # private property that re-reads the description
            for name, fn in ms.items():
                if _private(name) and 'property' in _decos(fn) and \
                        any(_callname(x) in (cur('_read_arraydescr'), '_read_arraydescr') for x in _calls(fn)):
                    want(name, '_arrayinfo')
        if cname == 'RaggedArray':
            for name, fn in ms.items():
                if _private(name) and sum(1 for x in _calls(fn) if _callname(x) in (cur('_append'), '_append')) >= 2:
                    want(name, '_append')
            init = ms.get('__init__')
            if init is not None:
                for n in _own(init):
                    if isinstance(n, ast.Assign) and len(n.targets) == 1 and _selfattr(n.targets[0]) and \
                            isinstance(n.value, (ast.Name, ast.Dict)):
                        a = _selfattr(n.targets[0])
                        src = n.value
                        if isinstance(src, ast.Name):
                            keys = {t.slice.value for x in _own(init) if isinstance(x, ast.Assign) for t in x.targets
                                    if isinstance(t, ast.Subscript) and isinstance(t.value, ast.Name) and t.value.id == src.id
                                    and isinstance(t.slice, ast.Constant)}
                        else:
                            keys = {k.value for k in src.keys if isinstance(k, ast.Constant)}
                        if {'len', 'size', 'atom'} <= keys:
                            want(a, '_arrayinfo')
    # ---- module-level generators of array.py
    asarray = modfuncs.get('asarray')
    if asarray is not None:
        for c in _calls(asarray[1]):
            nm = _callname(c)
            if _private(nm) and nm in modfuncs and any(isinstance(x, (ast.Yield, ast.YieldFrom)) for x in ast.walk(modfuncs[nm][1])):
                want(nm, '_archunkgenerator')
    create = modfuncs.get('create_array')
    if create is not None:
        for c in _calls(create[1]):
            nm = _callname(c)
            if _private(nm) and nm in modfuncs and any(isinstance(x, (ast.Yield, ast.YieldFrom)) for x in ast.walk(modfuncs[nm][1])):
                want(nm, '_fillgenerator')
    # ---- RaggedArray: private context manager that yields both raw maps
    ra = classes.get('RaggedArray')
    if ra is not None:
        for name, fn in methods(ra).items():
            if _private(name) and 'contextmanager' in _decos(fn) and \
                    sum(1 for x in _calls(fn) if _callname(x) in (cur('_open_array'), '_open_array')) >= 2:
                want(name, '_view')
    # ---- cached state of Array taken from what the opener yields
    a_ = classes.get('Array')
    if a_ is not None and methods(a_).get('__init__') is not None:
        for n in _own(methods(a_)['__init__']):
            if isinstance(n, ast.Assign) and len(n.targets) == 1 and _selfattr(n.targets[0]) and \
                    isinstance(n.value, ast.Attribute) and isinstance(n.value.value, ast.Name) and \
                    n.value.attr in ('size', 'shape', 'dtype'):
                want(_selfattr(n.targets[0]), '_' + n.value.attr)
    # ---- attributes behind public properties
    for c in classes.values():
        for fn in [st for st in c.body if isinstance(st, ast.FunctionDef)]:
            name = fn.name
            if 'property' in _decos(fn) and not name.startswith('_'):
                body = [s for s in fn.body if not (isinstance(s, ast.Expr) and isinstance(s.value, ast.Constant))]
                if len(body) == 1 and isinstance(body[0], ast.Return):
                    v = body[0].value
                    if isinstance(v, ast.Call) and _callname(v) in ('int', 'tuple', 'str') and len(v.args) == 1:
                        v = v.args[0]
                    if _selfattr(v) and not (c.name == 'DataDir' and name == 'protectedfiles'):
                        want(_selfattr(v), '_' + name)
    return ren


def apply_renames(trees, ren):
    if not ren:
        return

    class V(ast.NodeTransformer):
        def visit_FunctionDef(self, n):
            self.generic_visit(n)
            if n.name in ren:
                n.name = ren[n.name]
            return n

        def visit_Attribute(self, n):
            self.generic_visit(n)
            if n.attr in ren:
                n.attr = ren[n.attr]
            return n

        def visit_Name(self, n):
            if n.id in ren:
                n.id = ren[n.id]
            return n

        def visit_Constant(self, n):
            if isinstance(n.value, str) and n.value in ren:
                return ast.copy_location(ast.Constant(value=ren[n.value]), n)
            return n
    for t in trees.values():
        V().visit(t)


# customary parameter names of the private helpers (positional), keyed by (class or None, customary function name);
# only used to undo a renaming of such a parameter (definition, uses in the body, keywords at the call sites)
CUSTOM_PARAMS = {
    ('Array', '_append'): ['self', 'array', 'fd'],
    ('RaggedArray', '_append'): ['self', 'array', 'fdv', 'fdi', 'vlen'],
    (None, '_archunkgenerator'): ['array', 'dtype', 'chunklen'],
    ('DataDir', '_check_writeprotected'): ['self', 'filename', 'accessmode'],
    ('Array', '_checkarrayforappend'): ['self', 'array'],
    ('DataDir', '_delete_files'): ['self', 'filenames'],
    (None, '_fillgenerator'): ['shape', 'dtype', 'fill', 'fillfunc', 'chunklen'],
    ('Array', '_open_array'): ['self', 'accessmode'],
    ('DataDir', '_update_jsondict'): ['self', 'filename'],
    ('Array', '_update_len'): ['self', 'lenincrease'],
    ('RaggedArray', '_view'): ['self', 'accessmode'],
    ('DataDir', '_write_jsondict'): ['self', 'filename', 'd', 'skipkeys', 'cls', 'overwrite'],
    ('DataDir', '_write_jsonfile'): ['self', 'filename', 'data', 'sort_keys', 'skipkeys', 'indent', 'cls', 'overwrite'],
    ('DataDir', '_write_txt'): ['self', 'filename', 'text', 'overwrite'],
}


def canonicalise_params(trees):
    """Undo renamed parameters of the private helpers.  Returns {(function, old): new}."""
    done = {}
    defs = {}
    for t in trees.values():
        for st in t.body:
            if isinstance(st, ast.FunctionDef):
                defs.setdefault((None, st.name), []).append(st)
            elif isinstance(st, ast.ClassDef):
                for m in st.body:
                    if isinstance(m, ast.FunctionDef):
                        defs.setdefault((st.name, m.name), []).append(m)
    kwren = {}          # simple function name -> {old kw: new kw}; applied at call sites when unambiguous
    for key, want in CUSTOM_PARAMS.items():
        fns = defs.get(key, [])
        if len(fns) != 1:
            continue
        fn = fns[0]
        have = [a.arg for a in fn.args.args + fn.args.kwonlyargs]
        if len(have) != len(want) or have == want or fn.args.vararg:
            continue
        m = {h: w for h, w in zip(have, want) if h != w}
        local = {x.id for x in ast.walk(fn) if isinstance(x, ast.Name)} | set(have)
        if any(w in local and w not in m for w in m.values()):
            continue            # the customary name is taken by something else in this function
        for a in fn.args.args + fn.args.kwonlyargs:
            if a.arg in m:
                a.arg = m[a.arg]
        for x in ast.walk(fn):
            if isinstance(x, ast.Name) and x.id in m:
                x.id = m[x.id]
        kwren.setdefault(key[1], []).append(m)
        done.update({(key[1], h): w for h, w in m.items()})
    if kwren:
        for t in trees.values():
            for c in ast.walk(t):
                if isinstance(c, ast.Call):
                    nm = _callname(c)
                    for m in kwren.get(nm, []):
                        if all((k.arg in m) or (k.arg not in m.values()) for k in c.keywords):
                            for k in c.keywords:
                                if k.arg in m:
                                    k.arg = m[k.arg]
    return done


def canonicalise(trees, rounds=3):
    """Repeat until no recogniser fires (renames enable further recognisers).  Returns all renames applied."""
    done = {}
    for _ in range(rounds):
        ren = find_renames(trees)
        if not ren:
            break
        apply_renames(trees, ren)
        done.update(ren)
    for k, v in canonicalise_params(trees).items():
        done[f'{k[0]}({k[1]})'] = v
    done.update(_split_inlined_reader(trees))
    return done


def _split_inlined_reader(trees):
    """Inverse of "inline a helper into its only caller": when the description reader has been merged into the
    `_arrayinfo` property, give it back its own method so that the rules find the reader role:
        @property
        def _arrayinfo(self): <reader body>      ->    def _read_arraydescr(self): <reader body>
                                                        @property
                                                        def _arrayinfo(self): return self._read_arraydescr()"""
    for t in trees.values():
        for c in t.body:
            if not (isinstance(c, ast.ClassDef) and c.name == 'Array'):
                continue
            names = {m.name for m in c.body if isinstance(m, ast.FunctionDef)}
            if '_read_arraydescr' in names:
                return {}
            for i, m in enumerate(c.body):
                if isinstance(m, ast.FunctionDef) and m.name == '_arrayinfo' and 'property' in _decos(m) and \
                        any(_callname(x) == 'read_jsondict' for x in _calls(m)):
                    new = ast.FunctionDef(name='_read_arraydescr', args=m.args, body=m.body, decorator_list=[],
                                          returns=None, type_comment=None)
                    try:
                        new.type_params = []
                    except Exception:
                        pass
                    ast.copy_location(new, m)
                    call = ast.Call(func=ast.Attribute(value=ast.Name(id='self', ctx=ast.Load()), attr='_read_arraydescr',
                                                       ctx=ast.Load()), args=[], keywords=[])
                    m.body = [ast.copy_location(ast.Return(value=call), m)]
                    c.body.insert(i, new)
                    ast.fix_missing_locations(c)
                    return {'<reader inlined into _arrayinfo>': '_read_arraydescr'}
    return {}
