"""C14 — chunk iteration yields exactly the specified frames.

The frame arithmetic (count, remainder condition) quantifies over unbounded
integers and is NOT decided here.  Decided: copies while holding the context,
single source of frames with verbatim forwarding, and the range validation
(by exhaustive enumeration of the order types of the compared quantities)."""
import ast
import itertools

from ..rules import must_precede
from ..cfg import cfg_of, always_raises
from ..astutil import dotted, get_arg, norm, enclosing, defs_of, derived
from ..srcmodel import own_nodes, AnalysisError
from ..escape import esc_obligations, find_opener, map_yielders, with_blocks, Taint
from .C20 import fold, _NoFold
from ._shared import raised_names

EXPLANATION = (
    "Decided clauses only: (D1) iterchunks yields a copy of the map slice while the opener context "
    "is held across the yield (taint analysis), and the slice bounds are exactly the pair obtained "
    "from iterindices; (D2) single source of frames: iterchunks forwards its five frame parameters "
    "verbatim to iterindices, iterindices obtains counts only from fit_frames with totallen = "
    "endindex - startindex, chunklen, steplen = stepsize; (D3) range validation: the raising tests "
    "of iterindices precede the first yield and their combined raising condition, evaluated over "
    "every weak ordering of {0, startindex, endindex, n} (a finite set, the tests only compare), "
    "equals 'not (0 <= start < end <= n)'; the raising tests of fit_frames precede every return "
    "and are folded over sample values for sign and integrality; (D4) both consumers pass chunklen "
    "through. The frame count and remainder arithmetic is not decided.")
ASSUMPTIONS = [
    "NOT decided: which frames are produced (fit_frames arithmetic, the remainder condition, "
    "concatenation to a[start:end]); behaviour for float arguments beyond the integrality test",
]

FRAME_PARAMS = ['chunklen', 'stepsize', 'startindex', 'endindex', 'include_remainder']


def run(ctx):
    c = ctx.repo.cls('Array')
    ic, ii = c.methods.get('iterchunks'), c.methods.get('iterindices')
    ff = ctx.repo.func('utils.fit_frames')
    if ic is None or ii is None:
        raise AnalysisError('Array.iterchunks/iterindices vanished')
    d1_copies(ctx, ic, ii)
    d2_single_source(ctx, ic, ii, ff)
    d3_validation_iterindices(ctx, ii)
    d3_validation_fit_frames(ctx, ff)
    d3_int_normalised(ctx, ff)
    d4_consumers(ctx, ic, ff)
    d5_frame_recurrence(ctx, ii, ff)


def d1_copies(ctx, ic, ii):
    esc_obligations(ctx, 'D1', only_funcs={'Array.iterchunks'})
    yielders = map_yielders(ctx)
    blocks = [(w, seeds) for g, w, seeds in with_blocks(ctx, yielders) if g is ic]
    if not blocks:
        ctx.bad('R-ESC', 'D1', ic, None, 'holds-context', 'iterchunks iterates inside the opener context',
                detail='no with-block on the opener: each frame would re-open the file, or a closed map is used')
        return
    w, seeds = blocks[0]
    ys = [n for n in own_nodes(ic.node) if isinstance(n, ast.Yield)]
    inside = [y for y in ys if any(p is w and f == 'body' for p, f in enclosing(ic.node, y))]
    ctx.decide(bool(ys) and len(inside) == len(ys), 'R-ESC', 'D1', ic, ys[0] if ys else None, 'yield-inside-with',
               'every yield of iterchunks lies inside the `with <opener>` block (map held across yields)',
               detail='a yield outside the context: the map is closed while the generator is suspended')
    # the slice yielded is ar[a:b] with (a, b) the loop targets bound from iterindices
    from ..pathcond import inline as _inl0
    loops = [n for n in own_nodes(ic.node) if isinstance(n, ast.For) and isinstance(_inl0(ic, n.iter), ast.Call)
             and any(t is ii for k, t in ctx.R.resolve_call(_inl0(ic, n.iter), ic) if k == 'repo')]
    ok = False
    a = b = None
    if loops and isinstance(loops[0].target, ast.Tuple) and len(loops[0].target.elts) == 2:
        a, b = [norm(x) for x in loops[0].target.elts]
    elif loops and isinstance(loops[0].target, ast.Name):
        # `for frame in iterindices(...)`: the pair is unpacked (or subscripted) in the body
        t = loops[0].target.id
        for n in ast.walk(loops[0]):
            if isinstance(n, ast.Assign) and isinstance(n.value, ast.Name) and n.value.id == t and \
                    isinstance(n.targets[0], ast.Tuple) and len(n.targets[0].elts) == 2:
                a, b = [norm(x) for x in n.targets[0].elts]
        if a is None:
            a, b = f'{t}[0]', f'{t}[1]'
    if a is not None:
        # EVERY yield of the frame loop reads the map at yield time with the frame's own bounds: a second yield that
        # serves the frame from something read earlier (a read-ahead block, the previous chunk) returns stale data
        # when the array is written between two next() calls
        def reads_frame(y):
            if y.value is None:
                return False
            for val in (y.value, _inl0(ic, y.value)):
                for s in ast.walk(val):
                    if isinstance(s, ast.Subscript) and isinstance(s.value, ast.Name) and s.value.id in seeds and \
                            isinstance(s.slice, ast.Slice) and s.slice.step is None and \
                            s.slice.lower is not None and s.slice.upper is not None and \
                            norm(s.slice.lower) == a and norm(s.slice.upper) == b:
                        return True
            return False
        inloop = [y for y in ys if any(p is loops[0] for p, _f in enclosing(ic.node, y))]
        ok = bool(inloop) and all(reads_frame(y) for y in inloop)
    if not ok and not loops:
        # lazy form: `frames = iterindices(...)`; `chunks = (copy(map[a:b]) for a, b in frames)`; `for c in chunks: yield c`
        from ..pathcond import inline as _inl
        for comp in (n for n in own_nodes(ic.node) if isinstance(n, (ast.GeneratorExp, ast.ListComp)) and len(n.generators) == 1):
            gen = comp.generators[0]
            it = _inl(ic, gen.iter)
            if not (isinstance(it, ast.Call) and any(t is ii for k, t in ctx.R.resolve_call(it, ic) if k == 'repo')) or gen.ifs:
                continue
            if not (isinstance(gen.target, ast.Tuple) and len(gen.target.elts) == 2):
                continue
            a, b = [norm(x) for x in gen.target.elts]
            sl = [s_ for s_ in ast.walk(comp.elt) if isinstance(s_, ast.Subscript) and isinstance(s_.value, ast.Name) and
                  s_.value.id in seeds and isinstance(s_.slice, ast.Slice) and s_.slice.step is None and
                  s_.slice.lower is not None and s_.slice.upper is not None and
                  norm(s_.slice.lower) == a and norm(s_.slice.upper) == b]
            holder = [st.targets[0].id for st in own_nodes(ic.node) if isinstance(st, ast.Assign) and st.value is comp and
                      isinstance(st.targets[0], ast.Name)]
            consumed = [f_ for f_ in own_nodes(ic.node) if isinstance(f_, ast.For) and isinstance(f_.target, ast.Name) and
                        ((holder and norm(f_.iter) == holder[0]) or f_.iter is comp) and
                        any(isinstance(y, ast.Yield) and isinstance(y.value, ast.Name) and y.value.id == f_.target.id
                            for y in ast.walk(f_))]
            consumed += [y for y in own_nodes(ic.node) if isinstance(y, ast.YieldFrom) and
                         ((holder and norm(y.value) == holder[0]) or y.value is comp)]
            if sl and consumed:
                ok = True
                loops = [consumed[0]] if isinstance(consumed[0], ast.For) else []
    ctx.decide(ok, 'R-FLOW', 'D1', ic, loops[0] if loops else None, 'slice-is-frame',
               'iterchunks yields map[framestart:frameend] for the (framestart, frameend) pairs of iterindices',
               detail='the yielded slice is not exactly the frame obtained from iterindices')


def d2_single_source(ctx, ic, ii, ff):
    calls = [n for n, cal in ctx.E.callees(ic) if cal is ii and isinstance(n, ast.Call)]
    if len(calls) != 1:
        ctx.bad('R-FLOW', 'D2', ic, None, 'frames-from-iterindices', 'iterchunks obtains frames from iterindices',
                detail=f'{len(calls)} calls of iterindices')
    else:
        call = calls[0]
        ps = [p for p in ii.params if p != 'self']
        for p in FRAME_PARAMS:
            a = get_arg(call, ps.index(p) if p in ps else None, p)
            ok = isinstance(a, ast.Name) and a.id == p and not defs_of(ic.node, p)
            ctx.decide(ok, 'R-FLOW', 'D2', ic, call, f'forward::{p}',
                       f'iterchunks forwards `{p}` verbatim to iterindices',
                       detail=f'{p}={norm(a) if a is not None else "<not passed: default used>"}')
    calls = [n for n, cal in ctx.E.callees(ii) if cal is ff and isinstance(n, ast.Call)]
    if len(calls) != 1:
        ctx.bad('R-FLOW', 'D2', ii, None, 'counts-from-fit_frames', 'iterindices obtains counts from fit_frames',
                detail=f'{len(calls)} calls of fit_frames')
        return
    call = calls[0]
    tl = get_arg(call, 0, 'totallen')
    ok = isinstance(tl, ast.BinOp) and isinstance(tl.op, ast.Sub) and norm(tl.left) == 'endindex' and \
        norm(tl.right) == 'startindex'
    ctx.decide(ok, 'R-FLOW', 'D2', ii, call, 'totallen', 'fit_frames(totallen = endindex - startindex)',
               detail=f'totallen={norm(tl) if tl is not None else None}')
    DEFAULTS = {'stepsize': ('chunklen',), 'chunklen': ()}
    for kw, want, pos in (('chunklen', 'chunklen', 1), ('steplen', 'stepsize', 2)):
        a = get_arg(call, pos, kw)
        if isinstance(a, ast.Name) and a.id != want and a.id not in ii.params:
            # a local copy of the parameter (possibly with the parameter's own default substituted) is the parameter
            ds = [norm(v) for v, st in defs_of(ii.node, a.id)]
            if ds and want in ds and all(d == want or d in DEFAULTS[want] for d in ds):
                a = ast.Name(id=want, ctx=ast.Load())
        ctx.decide(a is not None and norm(a) == want, 'R-FLOW', 'D2', ii, call, f'fit_frames::{kw}',
                   f'fit_frames({kw} = {want})', detail=f'{kw}={norm(a) if a is not None else "<default>"}')
    # defaults: stepsize None -> chunklen, startindex None -> 0, endindex None -> len
    want = {'stepsize': ('chunklen',), 'startindex': ('0',), 'endindex': ('self.shape[0]', 'len(self)', 'self._shape[0]')}
    for p, vals in want.items():
        verdict, why = 'assumed', 'default substitution has a shape the rule does not model'
        for n in own_nodes(ii.node):
            if isinstance(n, ast.If) and norm(n.test) == f'{p} is None' and len(n.body) == 1 and \
                    isinstance(n.body[0], ast.Assign) and norm(n.body[0].targets[0]) == p and not n.orelse:
                verdict = 'ok' if norm(n.body[0].value) in vals else 'bad'
                why = f'default is {norm(n.body[0].value)}'
            if isinstance(n, ast.Assign) and norm(n.targets[0]) == p:
                v = n.value
                if isinstance(v, ast.IfExp) and norm(v.test) == f'{p} is None' and norm(v.orelse) == p:
                    verdict = 'ok' if norm(v.body) in vals else 'bad'
                    why = f'default is {norm(v.body)}'
                elif isinstance(v, ast.IfExp) and norm(v.test) == f'{p} is not None' and norm(v.body) == p:
                    verdict = 'ok' if norm(v.orelse) in vals else 'bad'
                    why = f'default is {norm(v.orelse)}'
                elif isinstance(v, ast.BoolOp) and isinstance(v.op, ast.Or) and norm(v.values[0]) == p:
                    verdict = 'bad'
                    why = (f'`{norm(n)}` treats every falsy value as "not given": an explicit {p}=0 is '
                           f'replaced by the default instead of being rejected / used')
        inst = f'iterindices: {p} is replaced by {vals[0]} exactly when it is None'
        if verdict == 'ok':
            ctx.ok('R-TABLE', 'D2', ii, None, f'default::{p}', inst)
        elif verdict == 'bad':
            ctx.bad('R-TABLE', 'D2', ii, None, f'default::{p}', inst, detail=why)
        else:
            ctx.assume('R-TABLE', 'D2', ii, None, f'default::{p}', inst, detail=why)
    # the remainder condition depends on what fit_frames says is covered
    call = calls[0]
    res_names = set()
    for n in own_nodes(ii.node):
        if isinstance(n, ast.Assign) and n.value is call:
            t = n.targets[0]
            if isinstance(t, ast.Tuple):
                for i, e in enumerate(t.elts):
                    if i >= 1 and isinstance(e, ast.Name) and e.id != '_':
                        res_names.add(e.id)
            elif isinstance(t, ast.Name):
                res_names.add(t.id)
    ys = [n for n in own_nodes(ii.node) if isinstance(n, ast.Yield)]
    loops = [n for n in own_nodes(ii.node) if isinstance(n, (ast.For, ast.While))]
    tail = [y for y in ys if not any(isinstance(p, (ast.For, ast.While)) for p, _ in enclosing(ii.node, y))]
    for y in tail:
        guards = [p for p, f in enclosing(ii.node, y) if isinstance(p, ast.If) and f == 'body']
        names = set()
        for g in guards:
            names |= derived(ii.node, g.test)
        ok = bool(names & res_names) or 'frameend' in names
        ctx.decide(ok and 'include_remainder' in names, 'R-FLOW', 'D2', ii, y, 'remainder-guard-uses-covered-length',
                   'the partial-frame yield is guarded by include_remainder and by a value fit_frames returned '
                   f'for the covered length / remainder ({sorted(res_names)})',
                   detail='the guard of the partial frame does not depend on the remainder / covered length '
                          'computed by fit_frames: whether elements remain beyond the last full frame is not '
                          'tested (spurious partial frames for overlapping steps)')
    if not tail:
        # the partial frame is not a yield of its own (e.g. one loop that also produces the last, shorter frame): its guard
        # is not decided here; the frame recurrence (D5) is the clause that speaks about its bounds
        ctx.assume('R-FLOW', 'D2', ii, None, 'remainder-guard-uses-covered-length',
                   'the partial-frame yield is guarded by include_remainder and by a value fit_frames returned',
                   detail='no separate partial-frame yield found after the frame loop')


def _orderings(names):
    """All weak orderings of the given names as dicts name -> int."""
    n = len(names)
    seen = set()
    for vals in itertools.product(range(n), repeat=n):
        ranks = sorted(set(vals))
        canon = tuple(ranks.index(v) for v in vals)
        if canon in seen:
            continue
        seen.add(canon)
        yield dict(zip(names, canon))


def d3_validation_iterindices(ctx, ii):
    """Path-condition evaluation: for every weak ordering of (0, startindex, endindex, n) the branch tests of
    iterindices are folded and the CFG is explored: the call must end in `raise ValueError` before any frame is
    yielded exactly when not (0 <= startindex < endindex <= n).  Independent of how the tests are laid out
    (separate ifs, an elif chain, merged or split conditions, either polarity)."""
    from ..pathcond import reach_under
    from ._trunc import folder
    g = cfg_of(ii)
    ys = [g.node_for(n) for n in own_nodes(ii.node) if isinstance(n, ast.Yield)]
    vraises = [g.node_for(n) for n in own_nodes(ii.node) if isinstance(n, ast.Raise) and 'ValueError' in raised_names([n])]
    ctx.floor('C14 range validation raises in iterindices', len(vraises), 2)
    lens = ('self.shape[0]', 'len(self)', 'self._shape[0]')
    total = agree = 0
    unknown = False
    wrong = []
    range_ifs = [n for n in own_nodes(ii.node) if isinstance(n, ast.If)]
    for o in _orderings(['zero', 'startindex', 'endindex', 'n']):
        env = {k: v - o['zero'] for k, v in o.items()}
        env2 = {'startindex': env['startindex'], 'endindex': env['endindex']}
        for l in lens:
            env2[l] = env['n']
        if env['n'] < 0:
            continue          # an array length is never negative
        total += 1
        may = reach_under(ii, folder(env2, ii))
        y_reach = any(y in may for y in ys)
        r_reach = any(r in may for r in vraises)
        if r_reach and not y_reach:
            raised = True
        elif not r_reach:
            raised = False
        else:
            unknown = True
            continue
        s, e, n = env['startindex'], env['endindex'], env['n']
        spec = not (0 <= s < e <= n)
        if raised == spec:
            agree += 1
        else:
            wrong.append(f'start={s}, end={e}, n={n}: raises={raised}, must raise={spec}')
    construct = 'range-condition'
    inst = (f'iterindices raises ValueError exactly when not (0 <= startindex < endindex <= n) — '
            f'{agree}/{total} order types of (0, start, end, n) agree')
    if unknown:
        ctx.assume('R-TABLE', 'D3', ii, range_ifs[0] if range_ifs else None, construct, inst,
                   detail='a range test uses something other than comparisons of startindex/endindex/length')
    else:
        ctx.decide(not wrong, 'R-TABLE', 'D3', ii, range_ifs[0] if range_ifs else None, construct, inst,
                   detail='; '.join(wrong[:3]), witness=wrong)


def d3_validation_fit_frames(ctx, ff):
    rets = [n for n in own_nodes(ff.node) if isinstance(n, ast.Return)]
    ifs = [n for n in own_nodes(ff.node) if isinstance(n, ast.If) and always_raises(n.body)
           and 'ValueError' in raised_names(n.body)]
    spec = {'totallen': {-1: True, 0: False, 1: False, 3: False, 2.5: True, 2.0: False},
            'chunklen': {-1: True, 0: True, 1: False, 3: False, 2.5: True, 2.0: False},
            'steplen': {-1: True, 0: True, 1: False, 3: False, 2.5: True, 2.0: False}}
    n = 0
    for p, table in spec.items():
        mine = [st for st in ifs if p in {x.id for x in ast.walk(st.test) if isinstance(x, ast.Name)}]
        if not mine:
            ctx.bad('R-DOM', 'D3', ff, None, f'validates::{p}', f'fit_frames validates `{p}`',
                    detail='no raising ValueError test on this parameter')
            continue
        n += 1
        wrong = []
        unknown = False
        for v, must in table.items():
            raised = False
            for st in mine:
                try:
                    if fold(st.test, {p: v}):
                        raised = True
                except Exception:
                    unknown = True
            if raised != must:
                wrong.append(f'{p}={v}: raises={raised}, must raise={must}')
        if unknown:
            ctx.assume('R-TABLE', 'D3', ff, mine[0], f'validates::{p}', f'fit_frames validates `{p}`',
                       detail='test not foldable')
        else:
            ctx.decide(not wrong, 'R-TABLE', 'D3', ff, mine[0], f'validates::{p}',
                       f'fit_frames rejects non-integral and out-of-range `{p}` (folded over {sorted(map(str, table))})',
                       detail='; '.join(wrong))
        # dominance: the test precedes every return (steplen: when steplen is given)
        cfg = cfg_of(ff)
        skip_edges = set()
        if p == 'steplen':
            for x in own_nodes(ff.node):
                if isinstance(x, ast.If) and norm(x.test) in ('steplen is None', 'steplen is not None'):
                    skip_edges.add((cfg.node_for(x), norm(x.test) == 'steplen is None'))
        gates = {cfg.node_for(st) for st in mine}
        bad = [r for r in rets if cfg.can_reach(cfg.entry, cfg.node_for(r), avoid=gates, avoid_edges=skip_edges)]
        ctx.decide(not bad, 'R-DOM', 'D3', ff, bad[0] if bad else mine[0], f'validation-precedes-return::{p}',
                   f'fit_frames: the `{p}` validation precedes every return',
                   detail=f'`return {norm(bad[0].value) if bad else ""}` is reachable without validating {p}: an '
                          f'invalid {p} is silently accepted on that path')
    ctx.floor('C14 fit_frames validated parameters', n, 3)


def d3_int_normalised(ctx, ff):
    """fit_frames accepts floats that equal integers (documented; in the property's input space together with large
    values): its arithmetic must run on ints, i.e. every +, -, *, // on a value that comes from a parameter is
    preceded by the rebinding `p = int(p)`.  Converting only the results computes in double precision, which is
    wrong above 2**53.  Taint walk in source order; `%` and comparisons (the validation) are not arithmetic here."""
    params = [p for p in ('totallen', 'chunklen', 'steplen') if p in ff.params]
    bad = []
    narith = [0]

    def names_outside_int(e):
        out = set()

        def walk(x):
            if isinstance(x, ast.Call) and (dotted(x.func) or '') == 'int':
                return
            if isinstance(x, ast.Compare):
                return              # a test (`p is None`, `p > q`) carries no value into the arithmetic
            if isinstance(x, ast.Name):
                out.add(x.id)
            for c in ast.iter_child_nodes(x):
                walk(c)
        walk(e)
        return out

    def scan_expr(e, T):
        if e is None:
            return
        for x in ast.walk(e):
            if isinstance(x, ast.BinOp) and isinstance(x.op, (ast.FloorDiv, ast.Mult, ast.Add, ast.Sub, ast.Div)):
                narith[0] += 1
                hit = names_outside_int(x) & T
                if hit:
                    bad.append((x, sorted(hit)))

    def visit(stmts, T):
        """Flow-sensitive over statement lists: returns the taint set after the block, or None when the block always
        leaves the function (return / raise)."""
        T = set(T)
        for st in stmts:
            if isinstance(st, ast.If):
                tb, te = visit(st.body, T), visit(st.orelse, T)
                if tb is None and te is None:
                    return None
                T = (tb or set()) | (te or set())
            elif isinstance(st, (ast.Assign, ast.AnnAssign, ast.AugAssign)):
                v = st.value
                scan_expr(v, T)
                tainted = bool(v is not None and names_outside_int(v) & T)
                tg = st.targets if isinstance(st, ast.Assign) else [st.target]
                for t in tg:
                    for nm in ([t] if isinstance(t, ast.Name) else [x for x in ast.walk(t) if isinstance(x, ast.Name)]):
                        if tainted:
                            T.add(nm.id)
                        elif not isinstance(st, ast.AugAssign):
                            T.discard(nm.id)
            elif isinstance(st, ast.Return):
                scan_expr(st.value, T)
                return None
            elif isinstance(st, ast.Raise):
                return None
            elif isinstance(st, ast.Expr):
                scan_expr(st.value, T)
            elif isinstance(st, (ast.For, ast.While, ast.With, ast.Try)):
                t2 = visit(getattr(st, 'body', []), T)
                T = T | (t2 or set())
        return T
    visit(ff.node.body, set(params))
    seen = set()
    bad = [(x, h) for x, h in bad if not any(x is not y and any(z is x for z in ast.walk(y)) for y, _ in bad)]
    if bad:
        x, hit = bad[0]
        ctx.bad('R-FLOW', 'D3', ff, x, 'int-before-arithmetic',
                'fit_frames: every arithmetic operation on a parameter-derived value runs after `p = int(p)`',
                detail=f'`{norm(x)[:70]}` computes with {hit} as given: for float arguments the count/covered/remainder '
                       f'are computed in double precision (wrong above 2**53), converting the results afterwards does not help')
    else:
        ctx.ok('R-FLOW', 'D3', ff, None, 'int-before-arithmetic',
               f'fit_frames: every arithmetic operation on a parameter-derived value runs after `p = int(p)` '
               f'({narith[0]} arithmetic operation(s))')
    ctx.floor('C14 fit_frames arithmetic operations', narith[0], 3)


def d4_consumers(ctx, ic, ff):
    g = ctx.repo.func('array._archunkgenerator')
    n = 0
    for node, cal in ctx.E.callees(g):
        # iterchunks / fit_frames, or a frame generator that itself obtains its counts from fit_frames
        via = cal not in (ic, ff) and 'chunklen' in cal.params and any(c2 is ff for _, c2 in ctx.E.callees(cal))
        if (cal in (ic, ff) or via) and isinstance(node, ast.Call):
            n += 1
            ps = [p for p in cal.params if p != 'self']
            a = get_arg(node, ps.index('chunklen'), 'chunklen')
            ok = a is not None and 'chunklen' in derived(g.node, a)
            ctx.decide(ok, 'R-FLOW', 'D4', g, node, f'consumer::{cal.name}',
                       f'_archunkgenerator passes chunklen to {cal.name}', detail='chunklen not forwarded')
    ctx.floor('C14 consumers of the frame arithmetic', n, 2)


def d5_frame_recurrence(ctx, ii, ff):
    """Induction over polynomial normal forms (darrlint/poly.py; nothing is executed, no solver): the k-th frame that
    iterindices yields is (start + k*step, start + k*step + chunklen) for k < nframes, the partial frame — if any — is
    (start + nframes*step, end), where nframes is the count fit_frames returns; fit_frames' triple satisfies
    covered = n*step + chunklen - step, remainder = total - covered, and n = floor((total - chunklen)/step) + 1 up to
    polynomial rewriting.  Any construct outside the modelled subset makes the obligation *assumed*, not violated."""
    from .. import poly as P
    # ---------------- iterindices
    names = {p: P.atom(p) for p in ii.params if p != 'self'}
    need = ('chunklen', 'stepsize', 'startindex', 'endindex')
    if not all(n in names for n in need):
        ctx.assume('R-TABLE', 'D5', ii, None, 'frame-recurrence', 'iterindices yields the frames of the specification',
                   detail='parameter names changed')
        return
    S, T, C, E = names['startindex'], names['stepsize'], names['chunklen'], names['endindex']
    env = dict(names)
    state = {'loop': None, 'tail': [], 'n': None}

    def is_default_if(st):
        t = st.test
        if not (isinstance(t, ast.Compare) and len(t.ops) == 1 and isinstance(t.ops[0], (ast.Is, ast.IsNot)) and
                isinstance(t.comparators[0], ast.Constant) and t.comparators[0].value is None and
                isinstance(t.left, ast.Name)):
            return False
        if t.left.id in names:
            return True
        # a local copy of a parameter (`steplen = stepsize; if steplen is None: steplen = chunklen`)
        v = env.get(t.left.id)
        return v is not None and any(v == P.atom(p_) for p_ in names)

    def on_if(st, en):
        if always_raises(st.body) and not st.orelse:
            return True
        if is_default_if(st):
            return True
        ys = [x for x in ast.walk(st) if isinstance(x, ast.Yield)]
        if ys and not any(isinstance(x, (ast.For, ast.While)) for x in ast.walk(st)):
            for y in ys:
                v = y.value
                elts = v.elts if isinstance(v, ast.Tuple) else [v]
                state['tail'].append((y, tuple(P.of_expr(x, en) for x in elts)))
            return True
        return False
    body = [s for s in ii.node.body if not (isinstance(s, ast.Expr) and isinstance(s.value, ast.Constant))]
    try:
        pre, loop, post = [], None, []
        for st in body:
            if isinstance(st, ast.For) and loop is None:
                loop = st
            elif loop is None:
                pre.append(st)
            else:
                post.append(st)
        if loop is None:
            raise P.Unsupported('no counted loop')
        for st in pre:
            # bind the triple returned by fit_frames to named atoms
            if isinstance(st, ast.Assign) and isinstance(st.value, ast.Call) and \
                    any(t is ff for k_, t in ctx.R.resolve_call(st.value, ii) if k_ == 'repo'):
                tg = st.targets[0]
                elts = tg.elts if isinstance(tg, ast.Tuple) else []
                for nm, el in zip(('NFRAMES', 'COVERED', 'REMAINDER'), elts):
                    if isinstance(el, ast.Name):
                        env[el.id] = P.atom(nm)
                if not elts and isinstance(tg, ast.Name):
                    for i_, nm in enumerate(('NFRAMES', 'COVERED', 'REMAINDER')):
                        env[f'{tg.id}[{i_}]'] = P.atom(nm)
                elif not elts:
                    raise P.Unsupported('fit_frames result is not unpacked')
                continue
            P.exec_block([st], env, lambda *a: (_ for _ in ()).throw(P.Unsupported('yield before the loop')), on_if=on_if)
        n, ys, after = P.loop_closed_form(loop, env)
        P.exec_block(post, after, lambda st_, vals, en: state['tail'].append((st_, vals)), on_if=on_if)
    except (P.Unsupported, P.NotPoly, KeyError) as e:
        ctx.assume('R-TABLE', 'D5', ii, None, 'frame-recurrence', 'iterindices yields the frames of the specification',
                   detail=f'outside the modelled subset: {e}')
        ys = None
    if ys is not None:
        k = P.atom('k')
        want = (P.add(S, P.mul(k, T)), P.add(P.add(S, P.mul(k, T)), C))
        ok = n == P.atom('NFRAMES') and len(ys) == 1 and ys[0][1] == want
        got = ', '.join(P.text(x) for x in ys[0][1]) if ys else '<no yield>'
        allp = [n] + [x for _, v in ys for x in v] + [x for _, v in state['tail'] for x in v]
        if P.has_placeholder(*allp):
            ctx.assume('R-TABLE', 'D5', ii, loop, 'frame-recurrence', 'iterindices yields the frames of the specification',
                       detail='a value on the way is computed by something outside the polynomial fragment')
            ys = None
    if ys is not None:
        ctx.decide(ok, 'R-TABLE', 'D5', ii, loop, 'frame-recurrence',
                   'iterindices: for k in range(nframes) the k-th frame is (start + k*step, start + k*step + chunklen), '
                   'nframes being the count returned by fit_frames (induction over polynomial normal forms)',
                   detail=f'loop runs {P.text(n)} times and yields ({got}) at iteration k')
        wt = (P.add(S, P.mul(P.atom('NFRAMES'), T)), E)
        bad = [(y, v) for y, v in state['tail'] if v != wt]
        ctx.decide(bool(state['tail']) and not bad, 'R-TABLE', 'D5', ii, state['tail'][0][0] if state['tail'] else None,
                   'partial-frame-bounds',
                   'iterindices: the partial frame is (start + nframes*step, end): it starts where the next full frame would',
                   detail=('partial frame is (' + ', '.join(P.text(x) for x in bad[0][1]) + ')') if bad else 'no partial-frame yield found')
    # ---------------- fit_frames
    fn = {p: P.atom(p) for p in ff.params}
    if not all(p in fn for p in ('totallen', 'chunklen', 'steplen')):
        return
    L, Cc, St = fn['totallen'], fn['chunklen'], fn['steplen']
    env = dict(fn)
    ret = None

    def on_if2(st, en):
        if always_raises(st.body) and not st.orelse:
            return True
        if any(isinstance(x, ast.Return) for x in ast.walk(st)):
            return True          # the early return for "no full frame fits" (decided by D3)
        t = st.test
        if isinstance(t, ast.Compare) and isinstance(t.ops[0], (ast.Is, ast.IsNot)):
            return True          # default substitution
        return False
    body = [s for s in ff.node.body if not (isinstance(s, ast.Expr) and isinstance(s.value, ast.Constant))]

    def once():
        env = dict(fn)
        if not isinstance(body[-1], ast.Return) or not isinstance(body[-1].value, ast.Tuple) or len(body[-1].value.elts) != 3:
            raise P.Unsupported('fit_frames does not end in `return a, b, c`')
        P.exec_block(body[:-1], env, lambda *a: None, on_if=on_if2)
        return tuple(P.of_expr(x, env) for x in body[-1].value.elts)
    cases = []
    try:
        cases = P.with_cases(once)
    except (P.Unsupported, P.NotPoly) as e:
        ctx.assume('R-TABLE', 'D5', ff, None, 'fit-frames-relations', 'fit_frames returns (n, n*step + chunklen - step, total - covered)',
                   detail=f'outside the modelled subset: {e}')
    # what holds where the count is computed: the validated domain and the early return for chunklen > totallen
    # (their presence is decided by D3); used only to discard max()/min() cases that cannot occur
    facts = [L, P.add(Cc, P.const(1), -1), P.add(St, P.const(1), -1), P.add(L, Cc, -1)]
    feasible = [(c, r) for c, r in cases if not P.infeasible(c, facts)]
    rel = {'ok': [], 'bad': [], 'assumed': []}
    cnt = {'ok': [], 'bad': [], 'assumed': []}
    wn = P.add(P.floordiv(P.add(L, Cc, -1), St), P.const(1))
    for conds, (n_, cov, rem) in feasible:
        where = ('in the case ' + ' and '.join(t for _q, t in conds) + ': ') if conds else ''
        wcov = P.add(P.add(P.mul(n_, St), Cc), St, -1)
        if P.has_placeholder(cov, rem):
            rel['assumed'].append(where + 'a value on the way is computed by something outside the polynomial fragment')
        elif cov == wcov and rem == P.add(L, cov, -1):
            rel['ok'].append(where + f'returns ({P.text(n_)}, {P.text(cov)}, {P.text(rem)})')
        else:
            rel['bad'].append(where + f'returns ({P.text(n_)}, {P.text(cov)}, {P.text(rem)})')
        if n_ == wn:
            cnt['ok'].append(where + f'count is {P.text(n_)}')
        elif all(a in ('totallen', 'chunklen', 'steplen') or a.startswith('floordiv(') for m in n_ for a in m) and \
                not any('<' in a for m in n_ for a in m):
            cnt['bad'].append(where + f'count is {P.text(n_)}, which is a different polynomial/floor-division form than {P.text(wn)}')
        else:
            cnt['assumed'].append(where + f'count `{P.text(n_)}` uses operations outside the polynomial / floor-division fragment')
    if feasible:
        ncase = f' ({len(feasible)} feasible max/min case(s) of {len(cases)})' if len(cases) > 1 else ''
        for key, title, res in (
                ('fit-frames-relations', 'fit_frames: covered length = n*step + chunklen - step and remainder = total - covered (polynomial identities)', rel),
                ('fit-frames-count', 'fit_frames: number of full frames = floor((total - chunklen)/step) + 1 (normal form)', cnt)):
            if res['bad']:
                ctx.bad('R-TABLE', 'D5', ff, body[-1], key, title, detail='; '.join(res['bad']) + ncase)
            elif res['assumed']:
                ctx.assume('R-TABLE', 'D5', ff, body[-1], key, title, detail='; '.join(res['assumed']) + ncase)
            else:
                ctx.decide(True, 'R-TABLE', 'D5', ff, body[-1], key, title, detail='; '.join(res['ok']) + ncase)
    elif cases:
        ctx.assume('R-TABLE', 'D5', ff, body[-1], 'fit-frames-count',
                   'fit_frames: number of full frames = floor((total - chunklen)/step) + 1',
                   detail='every max/min case contradicts the validated domain')
