"""C11 — read-only access mode is enforced for every mutating operation.

Decided: gate dominance (R-DOM) from every computed public mutating entry
point to every file-system effect on an existing array; soundness of the
writeable-flag gate (D2); propagation of the mode to sub-handles (D3);
explicit mode overrides only where legitimate (D4); defaults (D5)."""
import ast

from ..rules import (ModeGate, GateAnalysis, chain_text, chain_key, eval_mode_test,
                     is_mode_expr, mentions_mode)
from ..effects import MUTATING
from ..cfg import cfg_of, always_raises
from ..astutil import dotted, get_arg, derived, norm, enclosing, names_in
from ..srcmodel import own_nodes, AnalysisError

EXPLANATION = (
    "Gate-dominance analysis: entry points are computed (every public callable of "
    "Array / RaggedArray / MetaData and of the array / raggedarray modules from which a "
    "mutating file-system effect is reachable in the resolved call graph, creators "
    "excluded by a frozen table); for each entry and each reachable effect site the "
    "statement CFGs along the call chain are searched for a path that avoids every mode "
    "gate (accessmode comparison or writeable-flag test with an always-raising read-only "
    "branch, or a call of a function all of whose paths pass one). Writes through a handle "
    "whose open mode is derived from the access mode are self-gated. Also decided: the "
    "memmap opener only caches objects whose writeability follows the mode (D2), the "
    "accessmode setters re-assign every sub-handle created with accessmode= (D3), constant "
    "'r+' overrides occur only in creators or behind `not isinstance` (D4), defaults are 'r' (D5).")

ASSUMPTIONS = [
    "primitive-effect table (effects.py) lists every stdlib/NumPy call that mutates the file system",
    "a write through a file object opened 'rb' / a store into np.memmap(mode='r') raises (kernel / NumPy enforced)",
    "not decided: byte-identity of the directory after a rejected call; success of the operations after switching to 'r+'",
]

# creators make *new* arrays under a caller-supplied path; C16 covers them.
CREATORS = {
    'asarray': 'creates a new array under `path`',
    'create_array': 'delegates to asarray',
    'create_temparray': 'delegates to create_array in a fresh temp dir',
    'asraggedarray': 'creates a new ragged array under `path`',
    'create_raggedarray': 'delegates to asraggedarray',
    'Array.copy': 'writes only under the destination path',
    'RaggedArray.copy': 'writes only under the destination path',
    'Array.archive': 'writes an archive file outside the array',
    'RaggedArray.archive': 'writes an archive file outside the array',
}
HANDLE_CLASSES = ('Array', 'RaggedArray', 'MetaData')
ENTRY_MODULES = ('array', 'raggedarray', 'metadata')
DUNDER_MUTATORS = ('__setitem__', '__delitem__', '__iadd__', '__imul__')


def entries(ctx):
    out = []
    for mn in ENTRY_MODULES:
        m = ctx.repo.module(mn)
        for f in m.all_funcs():
            if f.qualname in CREATORS or f.is_setter or f.is_property:
                continue
            if f.cls is not None and f.cls.name not in HANDLE_CLASSES:
                continue
            if not (f.is_public or f.name in DUNDER_MUTATORS):
                continue
            out.append(f)
    return out


def is_site(e):
    if e.kind not in MUTATING:
        return False
    if e.kind == 'MKDIR' and e.role == 'UNKNOWN':
        return False      # mkdtemp
    return True


def param_handle_origin(ctx, chain, eff):
    """Resolve a handle that is a parameter of the innermost function through
    the call chain to its opening site."""
    h = eff.handle
    i = len(chain) - 1
    while h is not None and h.get('kind') == 'param' and i > 0:
        callee = chain[i][0]
        caller, callnode = chain[i - 1]
        if not isinstance(callnode, ast.Call):
            return h
        params = [p for p in callee.params if p != 'self'] if callee.cls else list(callee.params)
        arg = get_arg(callnode, params.index(h['name']) if h['name'] in params else None, h['name'])
        if arg is None:
            return h
        h = ctx.E.handle_origin(arg, caller)
        i -= 1
    return h


def hop_text(chain):
    f, n = chain[0]
    if isinstance(n, ast.Call):
        return norm(n.func)
    if isinstance(n, (ast.Attribute, ast.Subscript)):
        return norm(n)
    return norm(n)[:50]


def self_gated(ctx, chain, e):
    if e.kind == 'WRITE-HANDLE' and e.handle is not None and e.handle.get('kind') == 'open' \
            and e.handle.get('mode', ('',))[0] == 'const':
        return True      # the truncating/creating open() of the same handle is the effect site
    if e.kind in ('WRITE-HANDLE', 'STORE', 'RESIZE') and e.handle is not None:
        h = param_handle_origin(ctx, chain, e)
        if h is not None and h.get('mode_derived'):
            return True  # handle opened with a mode derived from the access mode
    return False


def run(ctx):
    from ._shared import ragged_opener_mode_agreement
    ragged_opener_mode_agreement(ctx, 'D4')
    from ._shared import mode_setters_refuse_by_value_only
    mode_setters_refuse_by_value_only(ctx, 'D6')
    repo, E = ctx.repo, ctx.E
    GA = GateAnalysis(ctx, ModeGate())
    ents = entries(ctx)
    mut_entries = []
    nsites = 0
    for f in ents:
        sites = GA.gated_sites(f, is_site)
        if not sites:
            continue
        mut_entries.append(f)
        ung = GA.ungated(f, is_site)
        cfg = cfg_of(f)
        # G3 nodes: statements of the entry that (transitively) write through a
        # handle opened with the handle's own mode
        g3nodes = set()
        for chain, e, _ in sites:
            if e.kind == 'WRITE-HANDLE' and e.handle is not None and e.handle.get('kind') != 'open':
                h = param_handle_origin(ctx, chain, e)
                if h is not None and h.get('mode_derived'):
                    try:
                        g3nodes.add(cfg.node_for(chain[0][1]))
                    except KeyError:
                        pass
        groups = {}
        for chain, e, gated in sites:
            g = groups.setdefault(hop_text(chain), {'node': chain[0][1], 'all': [], 'ung': [], 'selfg': 0})
            g['all'].append((chain, e))
        for chain, e in ung:
            g = groups[hop_text(chain)]
            if self_gated(ctx, chain, e):
                g['selfg'] += 1
            else:
                g['ung'].append((chain, e))
        for hop, g in groups.items():
            nsites += len(g['all'])
            kinds = sorted({f'{e.kind}[{e.role}]' for _, e in g['all']})
            construct = f'entry-hop::{hop}'
            inst = f'entry {f.qualname}: `{hop}` reaches {len(g["all"])} effect site(s) {kinds}'
            if g['ung']:
                n0 = cfg.node_for(g['node'])
                wit = [f'{e.describe()} via {chain_text(chain)}' for chain, e in g['ung']]
                if g3nodes and n0 not in g3nodes and not cfg.can_reach(cfg.entry, n0, avoid=g3nodes):
                    ctx.assume('R-DOM', 'D1', f, g['node'], construct, inst,
                               detail='no explicit mode gate; every path first performs a write '
                                      'through a handle opened with the handle\'s mode (G3: '
                                      'kernel-enforced, only for non-empty writes)', witness=wit)
                else:
                    ctx.bad('R-DOM', 'D1', f, g['node'], construct, inst,
                            detail=f'{len(g["ung"])} effect(s) reachable from the entry without '
                                   f'passing any access-mode gate, first: {wit[0]}', witness=wit)
            else:
                ctx.ok('R-DOM', 'D1', f, g['node'], construct, inst)
    seen = set()
    for func, node, text in GA.bad_gates:
        if (func.key, node.lineno) in seen:
            continue
        seen.add((func.key, node.lineno))
        ctx.bad('R-DOM', 'D1', func, node, f'gate::{norm(node.test)}', f'mode gate in {func.qualname}',
                detail=text)
    for func, node, text in GA.assumed_gates:
        if (func.key, node.lineno) in seen:
            continue
        seen.add((func.key, node.lineno))
        ctx.assume('R-DOM', 'D1', func, node, f'gate::{norm(node.test)}',
                   f'mode-related test in {func.qualname}', detail=text)
    ctx.floor('C11 mutating public entry points', len(mut_entries), 14)
    # D5: the cached map is mode-derived per context: it is released on *every* exit of the opener (a writable map
    # that survives a GeneratorExit/KeyboardInterrupt would be served to later operations of a handle switched to 'r')
    from ..escape import pair_obligations, find_opener
    pair_obligations(ctx, 'D5')
    from ._shared import opener_default_mode
    opener_default_mode(ctx, 'D5', find_opener(ctx)[0])
    ctx.floor('C11 effect sites under entries', nsites, 25)
    ctx.info['entries'] = [f.qualname for f in mut_entries]
    ctx.info['effect_sites_under_entries'] = nsites
    ctx.info['creators_excluded'] = CREATORS

    d2_opener(ctx, GA)
    d7_flag_gates_and_borrowers(ctx, mut_entries)
    d3_setters(ctx)
    d4_overrides(ctx)
    d5_defaults(ctx)
    d6_requested_mode(ctx)


# ---------------------------------------------------------------------------
def find_openers(ctx):
    """Context-manager generators that cache an np.memmap in a self attribute."""
    out = []
    for f in ctx.repo.all_funcs():
        if not (f.is_ctxmgr and f.cls is not None):
            continue
        for n in own_nodes(f.node):
            if isinstance(n, ast.Assign) and isinstance(n.value, ast.Call) and \
                    dotted(n.value.func) == 'np.memmap':
                for t in n.targets:
                    d = dotted(t)
                    if d and d.startswith('self.'):
                        out.append((f, d.split('.', 1)[1]))
    return sorted(set(out), key=lambda x: x[0].key)


def mode_names(func):
    """Local names that hold the (text-mode) access mode inside func."""
    names = set()
    for n in own_nodes(func.node):
        if isinstance(n, ast.Assign) and len(n.targets) == 1 and isinstance(n.targets[0], ast.Name):
            v = n.value
            if is_mode_expr(v):
                names.add(n.targets[0].id)
            elif isinstance(v, ast.Call) and dotted(v.func) == 'check_accessmode' and v.args:
                mb = get_arg(v, 2, 'makebinary')
                if (mb is None or (isinstance(mb, ast.Constant) and not mb.value)) and \
                        (is_mode_expr(v.args[0]) or (isinstance(v.args[0], ast.Name))):
                    names.add(n.targets[0].id)
    return names


def d2_opener(ctx, GA):
    relies_on_flag = any('G1w' in d for gs in GA._gates.values() for d in gs.values())
    openers = find_openers(ctx)
    if not openers:
        raise AnalysisError('no memmap opener found (role opener(C) resolves to nothing)')
    ctx.info['openers'] = [f'{f.qualname} caches self.{a}' for f, a in openers]
    ctx.info['writeable_flag_gate_in_use'] = relies_on_flag
    for f, attr in openers:
        mnames = mode_names(f)
        for n in own_nodes(f.node):
            if not isinstance(n, ast.Assign):
                continue
            if not any(dotted(t) == f'self.{attr}' for t in n.targets):
                continue
            v = n.value
            if isinstance(v, ast.Constant) and v.value is None:
                continue
            construct = f'cache-assign::{norm(v.func) if isinstance(v, ast.Call) else norm(v)}'
            inst = f'object cached in self.{attr}: {norm(v)[:70]}'
            if isinstance(v, ast.Call) and dotted(v.func) == 'np.memmap':
                m = ctx.E.mode_of(get_arg(v, 2, 'mode'), f) if get_arg(v, 2, 'mode') is not None \
                    else ('const', 'r+')
                ctx.decide(m[0] == 'derived' or m == ('const', 'r'), 'R-DOM', 'D2', f, n,
                           construct, inst,
                           detail=f'np.memmap mode {m} is not derived from the access mode')
                continue
            # any other object (np.zeros substitute for empty arrays ...)
            ok, why = _writeable_follows_mode(f, n, attr, mnames)
            if ok:
                ctx.ok('R-DOM', 'D2', f, n, construct, inst + ' (writeable flag set from the mode)')
            elif not relies_on_flag:
                ctx.ok('R-DOM', 'D2', f, n, construct, inst + ' (no gate relies on the writeable flag)')
            elif why == 'unmodelled':
                ctx.assume('R-DOM', 'D2', f, n, construct, inst,
                           detail='writeable flag is set from an expression the rule does not model')
            else:
                ctx.bad('R-DOM', 'D2', f, n, construct, inst,
                        detail='always-writeable in-memory substitute is cached while '
                               'check_arraywriteable decides by ar.flags.writeable: the gate is '
                               'mode-blind for this branch (e.g. delete_array on a read-only '
                               'array with first axis 0)')


def _writeable_follows_mode(f, assign, attr, mnames):
    """After `self.<attr> = <fresh array>` is there, in the same block, a
    `self.<attr>.flags.writeable = <mode test>` / `.setflags(write=<mode test>)`
    that is False in mode 'r' and True in mode 'r+'?"""
    blk = None
    for p, field in enclosing(f.node, assign):
        v = getattr(p, field, None)
        if isinstance(v, list) and assign in v:
            blk = v
            break
    if blk is None:
        return False, 'none'
    after = blk[blk.index(assign) + 1:]

    def subst(expr):
        # rewrite local mode names to a canonical accessmode expression
        class T(ast.NodeTransformer):
            def visit_Name(self, n):
                if n.id in mnames:
                    return ast.Name('accessmode', ast.Load())
                return n
        import copy
        return T().visit(copy.deepcopy(expr))

    for st in after:
        val = None
        if isinstance(st, ast.Assign) and len(st.targets) == 1:
            t = st.targets[0]
            if isinstance(t, ast.Attribute) and t.attr == 'writeable' and \
                    isinstance(t.value, ast.Attribute) and t.value.attr == 'flags' and \
                    dotted(t.value.value) in (f'self.{attr}',):
                val = st.value
        elif isinstance(st, ast.Expr) and isinstance(st.value, ast.Call) and \
                isinstance(st.value.func, ast.Attribute) and st.value.func.attr == 'setflags' and \
                dotted(st.value.func.value) == f'self.{attr}':
            val = get_arg(st.value, 0, 'write')
        if val is None:
            continue
        v = subst(val)
        r, rw = eval_mode_test(v, 'r'), eval_mode_test(v, 'r+')
        if r is False and rw is True:
            return True, 'ok'
        if r is None or rw is None:
            return False, 'unmodelled'
        return False, 'wrong-polarity'
    return False, 'none'


def d3_setters(ctx):
    n = 0
    for cname in HANDLE_CLASSES:
        c = ctx.repo.cls(cname)
        init = c.methods.get('__init__')
        if init is None:
            raise AnalysisError(f'{cname}.__init__ vanished')
        setter = c.setters.get('accessmode')
        # sub-handles created with accessmode=
        subs = []
        for a, v in c.init_attr_exprs.items():
            if isinstance(v, ast.Call):
                am = get_arg(v, None, 'accessmode')
                tgt = [t for k, t in ctx.R.resolve_call(v, init) if k == 'repo']
                if tgt and tgt[0].cls is not None and tgt[0].cls.name in HANDLE_CLASSES:
                    subs.append((a, v, am, tgt[0].cls.name))
        # own mode stored from the parameter
        own = c.init_attr_exprs.get('_accessmode')
        ok = own is not None and 'accessmode' in derived(init.node, own)
        ctx.decide(ok, 'R-FLOW', 'D3', init, own, 'own-mode', f'{cname}.__init__ stores the accessmode parameter',
                   detail='self._accessmode is not derived from the accessmode parameter')
        n += 1
        for a, v, am, sub in subs:
            n += 1
            if am is None:
                ctx.bad('R-FLOW', 'D3', init, v, f'sub-handle::{a}',
                        f'{cname}.__init__ creates self.{a} ({sub}) with the handle mode',
                        detail='no accessmode= argument: the sub-handle keeps the default mode')
            else:
                ctx.decide('accessmode' in derived(init.node, am) or 'self._accessmode' in derived(init.node, am),
                           'R-FLOW', 'D3', init, v, f'sub-handle::{a}',
                           f'{cname}.__init__ creates self.{a} ({sub}) with the handle mode',
                           detail=f'accessmode={norm(am)} is not derived from the parameter')
        if setter is None:
            ctx.bad('R-SIB', 'D3', c.methods['__init__'], None, 'setter', f'{cname}.accessmode setter exists',
                    detail='no accessmode setter')
            continue
        valparam = [p for p in setter.params if p != 'self'][0]
        assigned = {}
        for st in own_nodes(setter.node):
            if isinstance(st, ast.Assign):
                for t in st.targets:
                    d = dotted(t)
                    if d:
                        assigned[d] = st.value
        v = assigned.get('self._accessmode')
        ctx.decide(v is not None and valparam in derived(setter.node, v) and
                   _on_all_paths(setter, 'self._accessmode'), 'R-SIB', 'D3', setter, v,
                   'own-mode', f'{cname}.accessmode setter stores the new mode on every path',
                   detail='setter does not assign self._accessmode from its argument on every path')
        n += 1
        for a, _, _, sub in subs:
            n += 1
            v = assigned.get(f'self.{a}.accessmode') or assigned.get(f'self.{a}._accessmode')
            ctx.decide(v is not None and valparam in derived(setter.node, v) and
                       (_on_all_paths(setter, f'self.{a}.accessmode') or
                        _on_all_paths(setter, f'self.{a}._accessmode')), 'R-SIB', 'D3', setter, v,
                       f'sub-handle::{a}', f'{cname}.accessmode setter propagates to self.{a} ({sub})',
                       detail=f'setter does not re-assign self.{a}.accessmode on every path (missing, or '
                              f'skipped by an early return): the sub-handle keeps its old mode after a '
                              f'mode switch')
    ctx.floor('C11 D3 propagation obligations', n, 12)


def _on_all_paths(func, target):
    """An assignment to `target` lies on every normal path through func."""
    cfg = cfg_of(func)
    nodes = set()
    for st in own_nodes(func.node):
        if isinstance(st, ast.Assign) and any(dotted(t) == target for t in st.targets):
            nodes.add(cfg.node_for(st))
    return bool(nodes) and not cfg.can_reach(cfg.entry, cfg.exit, avoid=nodes, skip_labels=('exc',))


def d6_requested_mode(ctx):
    """'as requested at creation': a public function that takes accessmode and
    returns/yields a handle built by a callee that also takes accessmode must
    forward its own accessmode to that callee."""
    n = 0
    for f in ctx.repo.all_funcs():
        if 'accessmode' not in f.params + f.kwonly or not f.is_public or f.is_setter:
            continue
        if f.module.name not in ('array', 'raggedarray', '__init__'):
            continue
        # expressions that flow to return / yield
        outs = []
        for x in own_nodes(f.node):
            if isinstance(x, (ast.Return, ast.Yield)) and x.value is not None:
                outs.append(x.value)
        calls = []
        for o in outs:
            if isinstance(o, ast.Call):
                calls.append(o)
            elif isinstance(o, ast.Name):
                from ..astutil import defs_of
                ds = [v for v, st in defs_of(f.node, o.id) if isinstance(v, ast.Call)]
                if ds:
                    calls.append(ds[-1])
        for c in calls:
            tg = [t for k, t in ctx.R.resolve_call(c, f) if k == 'repo']
            if not tg or 'accessmode' not in tg[0].params + tg[0].kwonly:
                continue
            if tg[0].is_ctxmgr and not f.is_generator:
                continue
            n += 1
            a = get_arg(c, None, 'accessmode')
            if a is None:
                ps = [p for p in tg[0].params if p != 'self']
                if 'accessmode' in ps and ps.index('accessmode') < len(c.args):
                    a = c.args[ps.index('accessmode')]
            ok = a is not None and 'accessmode' in derived(f.node, a)
            if not ok:
                # built in another mode and switched afterwards: `<handle>.accessmode = accessmode` on every normal path
                # between the construction and the return
                holder = [st for st in own_nodes(f.node) if isinstance(st, ast.Assign) and st.value is c and
                          len(st.targets) == 1 and isinstance(st.targets[0], ast.Name)]
                if holder:
                    h = holder[0].targets[0].id
                    sets = [st for st in own_nodes(f.node) if isinstance(st, ast.Assign) and
                            any(dotted(t) == f'{h}.accessmode' for t in st.targets) and
                            'accessmode' in derived(f.node, st.value)]
                    rets = [x for x in own_nodes(f.node) if isinstance(x, (ast.Return, ast.Yield)) and
                            isinstance(x.value, ast.Name) and x.value.id == h]
                    g = cfg_of(f)
                    ok = bool(sets) and bool(rets) and all(
                        not g.can_reach(g.node_for(holder[0]), g.node_for(r), avoid={g.node_for(s_) for s_ in sets},
                                        skip_labels=('exc',)) for r in rets)
            ctx.decide(ok, 'R-FLOW', 'D6', f, c, f'requested-mode::{tg[0].qualname}',
                       f'{f.qualname} hands its accessmode to {tg[0].qualname}, whose result it returns',
                       detail=f'accessmode={norm(a) if a is not None else "<absent: callee default>"}: the '
                              f'handle returned is not in the mode that was requested')
    ctx.floor('C11 D6 handle-returning calls', n, 9)


def d4_overrides(ctx):
    n = 0
    for f in ctx.repo.all_funcs():
        for call in (x for x in own_nodes(f.node) if isinstance(x, ast.Call)):
            tg = [t for k, t in ctx.R.resolve_call(call, f) if k == 'repo']
            if not tg:
                continue
            t = tg[0]
            is_ctor = t.name == '__init__' and t.cls is not None and t.cls.name in ('Array', 'RaggedArray')
            takes_mode = 'accessmode' in t.params or 'accessmode' in t.kwonly
            if not takes_mode or not (is_ctor or t.is_generator):
                continue
            am = get_arg(call, None, 'accessmode')
            if am is None:
                ps = [p for p in t.params if p != 'self']
                if 'accessmode' in ps and ps.index('accessmode') < len(call.args):
                    am = call.args[ps.index('accessmode')]
            if am is None or not isinstance(am, ast.Constant) or am.value in (None, 'r'):
                continue
            n += 1
            construct = f'override::{norm(call.func)}'
            inst = f'{f.qualname} calls {t.qualname} with constant accessmode={am.value!r}'
            if f.qualname in CREATORS:
                ctx.ok('R-OWN', 'D4', f, call, construct, inst + ' (creator, on an array it has just created)')
                continue
            # allowed: `if not isinstance(x, Cls): x = Cls(x, accessmode='r+')`
            ok = False
            if is_ctor and call.args:
                a0 = dotted(call.args[0])
                for p, field in enclosing(f.node, call):
                    if isinstance(p, ast.If) and field == 'body':
                        tst = p.test
                        if isinstance(tst, ast.UnaryOp) and isinstance(tst.op, ast.Not) and \
                                isinstance(tst.operand, ast.Call) and dotted(tst.operand.func) == 'isinstance' \
                                and dotted(tst.operand.args[0]) == a0:
                            ok = True
            ctx.decide(ok, 'R-OWN', 'D4', f, call, construct, inst,
                       detail="a constant 'r+' override outside a creator and not behind "
                              "`not isinstance(x, Cls)` re-opens an existing handle's array read-write")
    ctx.floor('C11 D4 constant-mode override sites', n, 6)


def d5_defaults(ctx):
    for spec in ('Array.__init__', 'RaggedArray.__init__', 'MetaData.__init__', 'array.asarray'):
        f = ctx.repo.func(spec)
        d = f.param_defaults().get('accessmode')
        ctx.decide(isinstance(d, ast.Constant) and d.value == 'r', 'R-TABLE', 'D5', f, d, 'default-mode',
                   f'{f.qualname} default accessmode is \'r\'',
                   detail=f'default is {norm(d) if d is not None else "absent"}')
    ca = ctx.repo.func('utils.check_accessmode')
    d = ca.param_defaults().get('validmodes')
    try:
        from ..pathcond import inline as _inl
        val = ast.literal_eval(_inl(ca, d))
    except Exception:
        val = None
    ctx.decide(val is not None and set(val) == {'r', 'r+'}, 'R-TABLE', 'D5', ca, d, 'validmodes',
               "check_accessmode accepts exactly {'r', 'r+'} by default",
               detail=f'validmodes default is {norm(d) if d is not None else "absent"}')


class StrictModeGate(ModeGate):
    """G1 only: a comparison of an access-mode value; writeable-flag tests do not count."""
    name = 'mode-gate-strict'

    def classify_if(self, st, func, ctx):
        if not (always_raises(st.body) or always_raises(st.orelse)):
            return None
        t = st.test
        r, rw = eval_mode_test(t, 'r'), eval_mode_test(t, 'r+')
        if r is None or rw is None:
            return None
        ro_raises = always_raises(st.body) if r else always_raises(st.orelse)
        rw_raises = always_raises(st.body) if rw else always_raises(st.orelse)
        return ('gate', f'G1 mode test `{norm(t)}`') if ro_raises and not rw_raises else None

    def forbidden_fold(self, func, ctx):
        return lambda test: eval_mode_test(test, 'r')


PATH_BASED = {'RESIZE', 'DELETE', 'RMDIR', 'RMTREE', 'TRUNC-WRITE', 'CREATE', 'RENAME', 'WRITE-PATH'}


def d7_flag_gates_and_borrowers(ctx, mut_entries):
    """The writeable flag of whatever the opener yields reflects the mode in which the *owner* of the shared cache
    opened the map.  When the opener has a borrower path (it yields the cached object of another, still suspended
    user) that need not be the handle's current mode: after `a.accessmode = 'r'` a suspended iterchunks generator or
    an open context still lends out its 'r+' map.  Effects that do not go through that map at all (truncation or
    deletion by path, descriptor/README rewrites) therefore need a gate on the handle's own mode."""
    from ..escape import find_opener
    opener, mattr, fdattr = find_opener(ctx)
    g = cfg_of(opener)
    regs = [n for n in own_nodes(opener.node) if isinstance(n, ast.Assign) and
            any(dotted(x) == f'self.{mattr}' for x in n.targets) and
            not (isinstance(n.value, ast.Constant) and n.value.value is None)]
    ys = [n for n in own_nodes(opener.node) if isinstance(n, ast.Yield)]
    borrower = any(not any(g.can_reach(g.node_for(r), g.node_for(y), skip_labels=('exc',)) for r in regs) for y in ys)
    if not borrower:
        ctx.ok('R-DOM', 'D7', opener, None, 'flag-gate-vs-borrowed-map',
               f'{opener.qualname} has no borrower path: the flag of the yielded map always reflects the requested mode')
        return
    # element assignment goes through the map itself, so its flag is the right gate — unless the map can be one that was
    # opened before the handle's mode was changed: the accessmode setter must refuse or invalidate an open map
    A = ctx.repo.cls('Array')
    setter = A.setters.get('accessmode')
    touches = setter is not None and any(isinstance(n, ast.Attribute) and dotted(n) in (f'self.{mattr}', f'self.{fdattr}')
                                         for n in own_nodes(setter.node))
    ctx.decide(touches, 'R-DOM', 'D7', opener, None, 'stale-writeable-map-after-mode-switch',
               'the accessmode setter refuses or invalidates a memory map that is still open (so that the writeable flag '
               'judged by the write gate of __setitem__ always reflects the current mode)',
               detail='after `a.accessmode = \'r\'` a map opened in \'r+\' by a still suspended generator/context is lent '
                      'out to __setitem__: the assignment is written to the file', role_key='memmap-opener')
    GA2 = GateAnalysis(ctx, StrictModeGate())

    def pathsite(e):
        if not is_site(e) or e.kind not in PATH_BASED:
            return False
        if e.kind == 'RESIZE' and e.handle is not None:
            return False              # through an open handle: refused by the OS in mode 'r'
        return True
    n = 0
    for f in mut_entries:
        if f.cls is None or f.cls.name in ('Array',) or f.cls is None:
            pass
        ung = GA2.ungated(f, pathsite)
        if not GA2.gated_sites(f, pathsite):
            continue
        n += 1
        wit = [f'{e.describe()} via {chain_text(chain)}' for chain, e in ung]
        ctx.decide(not ung, 'R-DOM', 'D7', f, None, f'path-effects-need-mode-gate::{f.qualname}',
                   f'entry {f.qualname}: every by-path mutation (truncate/unlink/rmdir/descriptor rewrite) is dominated by a '
                   f'test of the handle\'s own access mode',
                   detail=f'{len(ung)} by-path effect(s) are protected only by the writeable flag of the map the opener '
                          f'yields, which may be a map borrowed from a still suspended generator/context opened before the '
                          f'handle was switched to \'r\': first {wit[0] if wit else ""}', witness=wit)
    ctx.floor('C11 entries with by-path effects', n, 8)
