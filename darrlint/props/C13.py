"""C13 — metadata behaves as a dictionary persisted to metadata.json."""
import ast
from .C08 import CBATTR

from ..rules import must_precede, must_follow, GateAnalysis, ModeGate
from ..cfg import cfg_of, always_raises, handler_names, is_catch_all
from ..pathcond import inline
from ..effects import MUTATING
from ..astutil import dotted, get_arg, derived, norm, enclosing, names_in, defs_of, assignments
from ..srcmodel import own_nodes, AnalysisError
from ..resolve import DICT
from .C20 import fold, _NoFold
from .C16 import is_exists_call

EXPLANATION = (
    "(D1) no cache: MetaData assigns no attribute holding file content and every read accessor "
    "reaches the file reader in the call graph; (D2) 'exists iff non-empty': every write of "
    "metadata.json (mutators of MetaData and the creation-time writers) is guarded by tests that "
    "constant-fold to 'dictionary is non-empty' and by nothing else — every other path to the "
    "normal exit that skips the write must take the 'empty' edge (CFG reachability with edge "
    "avoidance); (D3) an unlink of the metadata file is locally guarded by an existence test or "
    "dominated by an operation that proves the dictionary read was non-empty; (D4) a failed "
    "update changes nothing: json.dumps precedes the truncating open, no streaming json.dump, no "
    "effect precedes the write in update; (D5) *args/**kwargs are forwarded verbatim to the dict "
    "operations, __setitem__/__delitem__ delegate to update/pop; (D6) the JSON encoder has a "
    "branch for each NumPy class the property names and falls back to the base class.")
ASSUMPTIONS = [
    "dict.pop(k) / dict.popitem() raise KeyError on a missing key / empty dict (proves non-emptiness)",
    "not decided: JSON round-trip equality of values (NaN, non-ASCII, nested NumPy objects)",
]

READ_ACCESSORS = ['__getitem__', 'get', 'items', 'keys', 'values', '__len__', '__contains__', '__repr__']
SAMPLES = (('empty', {}), ('nonempty', {'k': 1}))


def run(ctx):
    c = ctx.repo.cls('MetaData')
    reader = None
    for f in c.all_funcs():
        if any(isinstance(n, ast.Call) and dotted(n.func) in ('json.load', 'json.loads') for n in own_nodes(f.node)):
            reader = f
    if reader is None:
        raise AnalysisError('MetaData file reader not found')
    ctx.info['reader'] = reader.qualname
    d1_no_cache(ctx, c, reader)
    d2_d3_d4_mutators(ctx, c, reader)
    d2_creators(ctx)
    d5_forwarding(ctx, c)
    d6_encoder(ctx)
    from ._shared import encoding_agreement
    encoding_agreement(ctx, 'D7', kinds=('json',))
    from ._shared import inplace_rewrites_truncate
    inplace_rewrites_truncate(ctx, 'D7')


def d1_no_cache(ctx, c, reader, clause='D1', only_cache=False):
    for a, lst in c.attr_exprs.items():
        for f, val, st in lst:
            bad = DICT in ctx.R.etype(val, f) or any(
                cal is reader for n, cal in ctx.E.callees(f) if any(x is n for x in ast.walk(val)))
            ctx.decide(not bad, 'R-OWN', clause, f, st, f'attr::{a}',
                       f'MetaData.{a} does not hold file content', detail='metadata content is cached in the handle: a '
                       'fresh handle or another process would see different values')
    for f in c.all_funcs():
        if f.decorators & {'lru_cache', 'cache', 'cached_property', 'functools.lru_cache', 'functools.cache',
                           'functools.cached_property'}:
            ctx.bad('R-OWN', clause, f, None, 'memoised', f'{f.qualname} is not memoised', detail=f'decorators {f.decorators}')
    if only_cache:
        return
    n = 0
    from ..rules import transitively_calls
    for name in READ_ACCESSORS:
        f = c.methods.get(name)
        if f is None:
            # provided by the collections.abc Mapping mixin on top of __getitem__/__iter__/__len__ (which are
            # accessors themselves and are held to the re-read rule)
            bases = {(dotted(b) or '').split('.')[-1] for b in c.node.bases}
            prim = [c.methods.get(x) for x in ('__getitem__', '__iter__', '__len__')]
            if bases & {'Mapping', 'MutableMapping'} and name in ('get', 'items', 'keys', 'values', '__contains__') and \
                    all(g is not None and (g is reader or transitively_calls(g, ctx, lambda h: h is reader)) for g in prim):
                n += 1
                ctx.ok('R-OWN', 'D1', c.methods['__init__'], None, f'accessor::{name}',
                       f'MetaData.{name} re-reads the file on every call (Mapping mixin over __getitem__/__iter__/__len__, '
                       f'which reach the file reader)')
                continue
            ctx.bad('R-OWN', 'D1', c.methods['__init__'], None, f'accessor::{name}', f'MetaData.{name} exists',
                    detail='read accessor vanished')
            continue
        n += 1
        ok = f is reader or transitively_calls(f, ctx, lambda g: g is reader)
        ctx.decide(ok, 'R-OWN', 'D1', f, None, f'accessor::{name}', f'MetaData.{name} re-reads the file on every call',
                   detail='accessor does not reach the file reader')
    ctx.floor('C13 read accessors', n, 8)
    # the reader itself returns {} only when the file does not exist (shared with C17 D4)
    for r in (x for x in own_nodes(reader.node) if isinstance(x, ast.Return)):
        if isinstance(r.value, ast.Dict) and not r.value.keys:
            from ._shared import default_only_when_absent
            ok = default_only_when_absent(reader, r)
            ctx.decide(ok, 'R-BELIEF', 'D1', reader, r, 'empty-default',
                       'the reader returns {} only when metadata.json does not exist',
                       detail='an existing but empty/unparsable file is read as {}')


def _write_sites(ctx, f):
    """(call node, data expr) for calls in f that write the metadata file."""
    out = []
    for n in own_nodes(f.node):
        if not isinstance(n, ast.Call):
            continue
        tg = [t for k, t in ctx.R.resolve_call(n, f) if k == 'repo']
        if not tg:
            continue
        t = tg[0]
        if t.qualname == 'write_jsonfile':
            p = get_arg(n, 0, 'path')
            pv = ctx.E.pathval(p, f) if p is not None else None
            if pv is not None and pv.role == 'META':
                out.append((n, get_arg(n, 1, 'data')))
        elif t.qualname in ('DataDir._write_jsondict', 'DataDir._write_jsonfile', 'DataDir.write_jsondict'):
            a = get_arg(n, 0, 'filename')
            if a is not None and ctx.E._name_of(a, f) == ('lit', 'metadata.json'):
                out.append((n, get_arg(n, 1, 'd') or get_arg(n, 1, 'data')))
    return out


def _guard_profile(f, node, var):
    """For each enclosing If, fold its test for var = {} and var = {'k': 1};
    -> (executes_when_empty, executes_when_nonempty, unknown_tests)."""
    res = {'empty': True, 'nonempty': True}
    unknown = []
    for p, field in enclosing(f.node, node):
        if isinstance(p, ast.If) and field in ('body', 'orelse'):
            for label, val in SAMPLES:
                try:
                    v = bool(fold(p.test, {var: val}))
                except Exception:
                    if norm(p.test) not in unknown:
                        unknown.append(norm(p.test))
                    continue
                taken = v if field == 'body' else (not v)
                res[label] = res[label] and taken
    return res['empty'], res['nonempty'], unknown


def _emptiness_edges(f, var):
    """CFG edges (node, label) that are taken exactly when `var` is empty."""
    cfg = cfg_of(f)
    edges = set()
    for n in own_nodes(f.node):
        if isinstance(n, ast.If):
            try:
                ve = bool(fold(n.test, {var: {}}))
                vn = bool(fold(n.test, {var: {'k': 1}}))
            except Exception:
                continue
            if ve != vn:
                edges.add((cfg.node_for(n), ve))     # label True = body edge
    return edges


def d2_d3_d4_mutators(ctx, c, reader):
    nw = 0
    for name in ('update', 'pop', 'popitem', '__setitem__', '__delitem__', 'clear', 'setdefault'):
        f = c.methods.get(name)
        if f is None:
            if name in ('update', 'pop', 'popitem'):
                raise AnalysisError(f'MetaData.{name} vanished')
            continue
        sites = _write_sites(ctx, f)
        # helpers called by the mutator that write the file
        helper_sites = []
        for node, cal in ctx.E.callees(f):
            if cal.cls is c and cal is not reader and cal.name not in ('update', 'pop', 'popitem') and \
                    _write_sites(ctx, cal):
                helper_sites.append((node, cal))
        if not sites and not helper_sites and name not in ('update', 'pop', 'popitem'):
            continue            # delegates to one of the three mutators (D5 decides how)
        if not sites and not helper_sites:
            ctx.bad('R-SIB', 'D2', f, None, 'writes-file', f'MetaData.{name} writes metadata.json',
                    detail='mutator never writes the file')
            continue
        for g, lst in [(f, sites)] + [(cal, _write_sites(ctx, cal)) for _, cal in helper_sites]:
            for call, data in lst:
                nw += 1
                var = data.id if isinstance(data, ast.Name) else None
                construct = f'meta-write::{g.name}'
                inst = f'{g.qualname}: metadata.json is written exactly when the dictionary is non-empty'
                if var is None:
                    ctx.assume('R-SIB', 'D2', g, call, construct, inst, detail='written data is not a plain name')
                    continue
                # path conditions: fold the branch tests with the dictionary bound to {} and to a non-empty value; the
                # access mode is taken as 'r+' (mode gates are C11's business) and existence tests stay undecided
                from ..pathcond import runs_under as _ru
                from ._trunc import folder as _folder
                modes = {'self._accessmode': 'r+', 'self.accessmode': 'r+'}
                r_empty = _ru(g, call, _folder(dict(modes, **{var: {}}), g))
                # an item is stored into the dictionary on the way to the write: it is not empty there
                stores = [st for st in own_nodes(g.node) if isinstance(st, ast.Assign) and len(st.targets) == 1 and
                          isinstance(st.targets[0], ast.Subscript) and isinstance(st.targets[0].value, ast.Name) and
                          st.targets[0].value.id == var]
                if stores and must_precede(g, call, stores):
                    r_empty = False
                # ... or merged in with `d.update(<display with at least one item>)`
                def _nonempty_display(e):
                    e = inline(g, e) if isinstance(e, ast.Name) else e
                    return isinstance(e, ast.Dict) and len(e.keys) >= 1 and all(k is not None for k in e.keys)
                merges = [st for st in own_nodes(g.node) if isinstance(st, ast.Call) and isinstance(st.func, ast.Attribute) and
                          st.func.attr == 'update' and isinstance(st.func.value, ast.Name) and st.func.value.id == var and
                          len(st.args) == 1 and not st.keywords and _nonempty_display(st.args[0])]
                if merges and must_precede(g, call, merges):
                    r_empty = False
                r_full = _ru(g, call, _folder(dict(modes, **{var: {'k': 1}}), g))
                if r_empty is not False and r_full is not False and r_empty is not True:
                    # the write is reachable for an empty dictionary only through a test that could not be folded
                    ctx.bad('R-SIB', 'D2', g, call, construct, inst,
                            detail=f'the write is conditional on something that is not an emptiness test of `{var}`: for '
                                   f'an empty dictionary it may run (a metadata.json containing {{}}), or some non-empty '
                                   f'updates are not persisted')
                    continue
                if r_empty is True:
                    ctx.bad('R-SIB', 'D2', g, call, construct, inst,
                            detail=f'the write also runs when `{var}` is empty: a metadata.json containing '
                                   f'{{}} is created')
                    continue
                ctx.decide(r_full is True, 'R-SIB', 'D2', g, call, construct, inst,
                           detail='a path reaches the normal exit without writing although the dictionary '
                                  'is non-empty (early return / extra condition): the change is not persisted'
                           if r_full is None else 'the write does not run for a non-empty dictionary')
        # D4: nothing mutating precedes the write in update
        if name == 'update' and sites:
            for e in ctx.E.primitives(f):
                if e.kind in MUTATING:
                    ctx.bad('R-ORDER', 'D4', f, e.node, 'effect-before-write', 'update performs no effect before the write',
                            detail=e.describe())
            for node, cal in ctx.E.callees(f):
                if isinstance(node, ast.Call) and node is not sites[0][0] and cal is not reader and \
                        any(x.kind in MUTATING for x in ctx.E.may(cal)):
                    ok = must_precede(f, node, [sites[0][0]])
                    ctx.decide(ok, 'R-ORDER', 'D4', f, node, f'after-write::{cal.name}',
                               f'update: `{norm(node.func)}` runs only after metadata.json was written',
                               detail='an effect (e.g. README regeneration) precedes the write that may still fail')
    ctx.floor('C13 metadata write sites in mutators', nw, 2)
    # D3: unlink sites
    nd = 0
    for f in c.all_funcs():
        for e in ctx.E.primitives(f):
            if e.kind != 'DELETE':
                continue
            nd += 1
            construct = f'unlink::{f.name}'
            inst = f'{f.qualname}: metadata.json is unlinked only when it exists'
            mo = get_arg(e.node, 0, 'missing_ok')
            if isinstance(mo, ast.Constant) and mo.value is True:
                ctx.ok('R-BELIEF', 'D3', f, e.node, construct, inst + ' (missing_ok=True)')
                continue
            # path conditions: with every existence test folded to False (the file is absent) the unlink is unreachable
            from ..pathcond import runs_under as _ru2
            from ..rules import eval_bool as _eb

            def _absent(t):
                return _eb(t, lambda x: False if is_exists_call(x) else None)
            guarded = any(is_exists_call(x) for x in own_nodes(f.node)) and _ru2(f, e.node, _absent) is False
            if guarded:
                ctx.ok('R-BELIEF', 'D3', f, e.node, construct, inst + ' (exists() test)')
                continue
            # proving operation: d.popitem() or d.pop(k) with exactly one plain argument
            provers = []
            for n in own_nodes(f.node):
                if isinstance(n, ast.Call) and isinstance(n.func, ast.Attribute) and \
                        DICT in ctx.R.etype(n.func.value, f):
                    if n.func.attr == 'popitem' and not n.args:
                        provers.append(n)
                    if n.func.attr == 'pop' and len(n.args) == 1 and not n.keywords and \
                            not isinstance(n.args[0], ast.Starred):
                        provers.append(n)
                    if n.func.attr == '__getitem__':
                        provers.append(n)
            ok = bool(provers) and must_precede(f, e.node, provers)
            ctx.decide(ok, 'R-BELIEF', 'D3', f, e.node, construct, inst,
                       detail='unconditional unlink: the reader tests exists() (the file may be absent), and '
                              'nothing before the unlink proves the dictionary was non-empty — '
                              'pop(key, default) with no metadata raises FileNotFoundError')
            # callback after the unlink
        for e in ctx.E.primitives(f):
            if e.kind == 'DELETE':
                cbs = [n for n in own_nodes(f.node) if isinstance(n, ast.Call) and
                       dotted(n.func) == f'self.{CBATTR(ctx)}']
                ctx.decide(bool(cbs) and must_follow(f, e.node, cbs), 'R-POST', 'D3', f, e.node, f'callback-after-unlink::{f.name}',
                           f'{f.qualname}: the creation/deletion callback follows the unlink',
                           detail='README is not regenerated after the metadata file was removed')
    ctx.floor('C13 unlink sites', nd, 1)


def fold_exists(test):
    """Truth of a test when every exists() call is True (other atoms unknown)."""
    class T(ast.NodeTransformer):
        def visit_Call(self, n):
            if is_exists_call(n):
                return ast.Constant(True)
            return n
    import copy
    return fold(T().visit(copy.deepcopy(test)), {})


def d2_creators(ctx):
    n = 0
    for spec in ('array.asarray', 'raggedarray.asraggedarray'):
        f = ctx.repo.func(spec)
        # metadata given at creation REPLACE whatever metadata.json an overwritten array left behind: a creator that
        # hands them to MetaData.update / item assignment merges them into the old file instead
        merges = [n_ for n_ in own_nodes(f.node) if isinstance(n_, ast.Call) and isinstance(n_.func, ast.Attribute) and
                  n_.func.attr in ('update', 'setdefault') and norm(n_.func.value).endswith(('.metadata', '._metadata'))]
        merges += [n_ for n_ in own_nodes(f.node) if isinstance(n_, ast.Subscript) and isinstance(n_.ctx, ast.Store) and
                   norm(n_.value).endswith(('.metadata', '._metadata'))]
        if merges:
            n += 1
            ctx.bad('R-SIB', 'D2', f, merges[0], 'creator-meta-replaces', f'{f.qualname}: metadata given at creation replace any '
                    f'metadata.json that is already at the path',
                    detail=f'`{norm(merges[0])[:60]}` is a read-modify-write of the metadata file: with overwrite=True the keys of '
                           f'the overwritten array that are not in the new dictionary survive')
        for call, data in _write_sites(ctx, f):
            n += 1
            var = data.id if isinstance(data, ast.Name) else None
            inst = f'{f.qualname}: metadata.json is created only for a non-empty metadata dictionary'
            if var is None:
                ctx.assume('R-SIB', 'D2', f, call, 'creator-meta-write', inst, detail='data is not a plain name')
                continue
            we, wn, unknown = _guard_profile(f, call, var)
            try_none = True
            for p, field in enclosing(f.node, call):
                if isinstance(p, ast.If) and field in ('body', 'orelse'):
                    try:
                        v = bool(fold(p.test, {var: None}))
                        try_none = try_none and (v if field == 'body' else not v)
                    except Exception:
                        pass
            if unknown:
                ctx.assume('R-SIB', 'D2', f, call, 'creator-meta-write', inst, detail=f'unmodelled condition {unknown}')
            else:
                ctx.decide(wn and not we and not try_none, 'R-SIB', 'D2', f, call, 'creator-meta-write', inst,
                           detail='the creator writes metadata.json for metadata={} (or None), or skips it for '
                                  'non-empty metadata')
    ctx.floor('C13 creation-time metadata writers', n, 2)
    d2b_stale_metadata(ctx, 'D2')


def d2b_stale_metadata(ctx, clause):
    # D2b: a creator that receives no metadata (None or {}) removes a metadata.json left by an overwritten array:
    # under both bindings some deletion of the metadata file stays reachable and the write does not
    from ..pathcond import reach_under
    from ._trunc import folder
    from ..cfg import cfg_of as _cfg
    for spec in ('array.asarray', 'raggedarray.asraggedarray'):
        f = ctx.repo.func(spec)
        if 'metadata' not in f.params:
            continue
        g = _cfg(f)
        dels = [e.node for e in ctx.E.primitives(f) if e.kind == 'DELETE']
        dels += [nd for nd, cal in ctx.E.callees(f) if isinstance(nd, ast.Call) and cal.cls is not None and
                 cal.cls.name == 'DataDir' and any(e.kind == 'DELETE' for e in ctx.E.may(cal))]
        writes = [c_ for c_, _ in _write_sites(ctx, f)]
        bad = []
        for label, md in (('None', None), ('{}', {})):
            may = reach_under(f, folder({'metadata': md}, f))
            if not any(g.node_for(d) in may for d in dels):
                bad.append(f'metadata={label}: no removal of a stale metadata.json is reachable')
            if any(g.node_for(w) in may for w in writes):
                bad.append(f'metadata={label}: the file is written')
        ctx.decide(not bad, 'R-SIB', clause, f, dels[0] if dels else None, 'creator-removes-stale-metadata',
                   f'{f.qualname}: when no metadata are given (None or {{}}) a metadata.json left by an overwritten array is removed',
                   detail='; '.join(bad) + ' — the new array (e.g. a copy of an array without metadata onto an existing path) '
                                            'carries the previous occupant\'s metadata')


def d5_forwarding(ctx, c):
    pairs = (('pop', 'pop'), ('update', 'update'), ('get', 'get'))
    for meth, dictop in pairs:
        f = c.methods.get(meth)
        if f is None:
            raise AnalysisError(f'MetaData.{meth} vanished')
        calls = [n for n in own_nodes(f.node) if isinstance(n, ast.Call) and isinstance(n.func, ast.Attribute)
                 and n.func.attr == dictop and DICT in ctx.R.etype(n.func.value, f)]
        ok = False
        for n in calls:
            stars = [a.value.id for a in n.args if isinstance(a, ast.Starred) and isinstance(a.value, ast.Name)]
            kws = [k.value.id for k in n.keywords if k.arg is None and isinstance(k.value, ast.Name)]
            plain = [a for a in n.args if not isinstance(a, ast.Starred)]
            want_star = [f.vararg] if f.vararg else []
            want_kw = [f.kwarg] if f.kwarg else []
            if stars == want_star and kws == want_kw and not plain and not [k for k in n.keywords if k.arg]:
                ok = True
        ctx.decide(ok, 'R-FLOW', 'D5', f, calls[0] if calls else None, f'verbatim::{meth}',
                   f'MetaData.{meth} forwards its arguments verbatim to dict.{dictop}',
                   detail='arguments are not forwarded verbatim: default/KeyError semantics differ from dict')
    si, di = c.methods.get('__setitem__'), c.methods.get('__delitem__')
    if si is None or di is None:
        raise AnalysisError('MetaData.__setitem__/__delitem__ vanished')
    key, val = [p for p in si.params if p != 'self'][:2]
    ok = any(isinstance(n, ast.Call) and dotted(n.func) == 'self.update' and len(n.args) == 1 and
             isinstance(n.args[0], ast.Dict) and len(n.args[0].keys) == 1 and
             norm(n.args[0].keys[0]) == key and norm(n.args[0].values[0]) == val for n in own_nodes(si.node))
    if not ok:
        # a mutator of its own (read, store the one item, persist — persistence and the mode gate are decided by D2 and
        # C11): the store is `d[key] = value` or `d.update({key: value})` on the dictionary the reader returned
        def one_item(e):
            e = inline(si, e) if isinstance(e, ast.Name) else e
            return isinstance(e, ast.Dict) and len(e.keys) == 1 and norm(e.keys[0]) == key and norm(e.values[0]) == val
        stores = [n for n in own_nodes(si.node) if
                  (isinstance(n, ast.Assign) and len(n.targets) == 1 and isinstance(n.targets[0], ast.Subscript) and
                   norm(n.targets[0].slice) == key and norm(n.value) == val and DICT in ctx.R.etype(n.targets[0].value, si)) or
                  (isinstance(n, ast.Call) and isinstance(n.func, ast.Attribute) and n.func.attr == 'update' and
                   len(n.args) == 1 and not n.keywords and one_item(n.args[0]) and DICT in ctx.R.etype(n.func.value, si))]
        ok = bool(stores) and bool(_write_sites(ctx, si) or [
            1 for _, cal in ctx.E.callees(si) if cal.cls is c and _write_sites(ctx, cal)])
    ctx.decide(ok, 'R-FLOW', 'D5', si, None, 'setitem-via-update', '__setitem__ delegates to update({key: value})',
               detail='__setitem__ does not go through update')
    key = [p for p in di.params if p != 'self'][0]
    ok = any(isinstance(n, ast.Call) and dotted(n.func) == 'self.pop' and len(n.args) == 1 and not n.keywords and
             norm(n.args[0]) == key for n in own_nodes(di.node))
    if not ok:
        # a mutator of its own (read, remove, persist — the persistence is decided by D2/D3 above): the removal is a
        # dictionary operation that raises KeyError for a missing key
        removes = [n for n in own_nodes(di.node) if
                   (isinstance(n, ast.Call) and isinstance(n.func, ast.Attribute) and n.func.attr == 'pop' and len(n.args) == 1
                    and not n.keywords and norm(n.args[0]) == key and DICT in ctx.R.etype(n.func.value, di)) or
                   (isinstance(n, ast.Delete) and len(n.targets) == 1 and isinstance(n.targets[0], ast.Subscript) and
                    norm(n.targets[0].slice) == key and DICT in ctx.R.etype(n.targets[0].value, di))]
        ok = bool(removes) and bool(_write_sites(ctx, di) or [
            1 for _, cal in ctx.E.callees(di) if cal.cls is c and _write_sites(ctx, cal)])
    ctx.decide(ok, 'R-FLOW', 'D5', di, None, 'delitem-via-pop', '__delitem__ delegates to pop(key) without a default',
               detail='__delitem__ passes a default (a missing key would not raise KeyError) or bypasses pop')


def d6_encoder(ctx):
    enc = ctx.repo.cls('DDJSONEncoder')
    f = enc.methods.get('default')
    if f is None:
        raise AnalysisError('DDJSONEncoder.default vanished')
    want = {'np.integer': 'int', 'np.floating': 'float', 'np.ndarray': 'tolist'}
    found = {}
    for n in own_nodes(f.node):
        if isinstance(n, ast.If) and isinstance(n.test, ast.Call) and dotted(n.test.func) == 'isinstance' \
                and len(n.test.args) == 2:
            k = dotted(n.test.args[1])
            if k in want and n.body and isinstance(n.body[0], ast.Return):
                found[k] = norm(n.body[0].value)
    for k, conv in want.items():
        ok = k in found and conv in found[k]
        ctx.decide(ok, 'R-TABLE', 'D6', f, None, f'encoder::{k}',
                   f'DDJSONEncoder.default converts {k} with {conv}', detail=f'found: {found.get(k)}')
    ok = any(isinstance(n, ast.Return) and isinstance(n.value, ast.Call) and 'super' in norm(n.value.func)
             and n.value.func.attr == 'default' for n in own_nodes(f.node) if isinstance(n, ast.Return)
             and isinstance(n.value, ast.Call) and isinstance(n.value.func, ast.Attribute))
    ctx.decide(ok, 'R-TABLE', 'D6', f, None, 'encoder::fallback',
               'DDJSONEncoder.default falls back to the base class (unknown objects raise TypeError)',
               detail='no super().default fallback')
    wj = ctx.repo.func('utils.write_jsonfile')
    dumps = [n for n in own_nodes(wj.node) if isinstance(n, ast.Call) and dotted(n.func) == 'json.dumps']
    def _encoder_arg_ok(d):
        a = get_arg(d, None, 'cls')
        if not isinstance(a, ast.Name):
            return False, None
        if a.id == 'cls':
            return True, 'cls'
        # a local copy of the parameter (`enc = cls; if enc is None: enc = DDJSONEncoder`)
        vals = [norm(v) for v, st in defs_of(wj.node, a.id)]
        return ('cls' in vals and all(v in ('cls', 'DDJSONEncoder', 'utils.DDJSONEncoder') for v in vals)), a.id
    res = [_encoder_arg_ok(d) for d in dumps]
    ok = bool(dumps) and all(r[0] for r in res)
    names_ = {r[1] for r in res if r[1]}
    dflt = any(isinstance(n, ast.If) and norm(n.test) in {f'{x} is None' for x in names_ | {'cls'}} and any(
        isinstance(s, ast.Assign) and norm(s.value) == 'DDJSONEncoder' for s in n.body) for n in own_nodes(wj.node)) or \
        any(isinstance(n, ast.IfExp) and norm(n.test) in ('cls is None', 'cls is not None') and
            'DDJSONEncoder' in (norm(n.body), norm(n.orelse)) for n in own_nodes(wj.node))
    ctx.decide(ok and dflt, 'R-FLOW', 'D6', wj, dumps[0] if dumps else None, 'encoder-used',
               'write_jsonfile serialises with DDJSONEncoder by default', detail='encoder is not passed to json.dumps')
    # non-finite floats (NaN, +-inf) are in the property's value space and json.load reads them back: the writer must
    # not switch them off (allow_nan=False raises ValueError for metadata the model dict accepts)
    for d in dumps:
        an = get_arg(d, None, 'allow_nan')
        ctx.decide(an is None or (isinstance(an, ast.Constant) and an.value is True), 'R-TABLE', 'D6', wj, d, 'allow-nan',
                   'write_jsonfile serialises non-finite floats (allow_nan left at its default True)',
                   detail=f'json.dumps(allow_nan={norm(an) if an is not None else None}): NaN/inf values, which the reader '
                          f'accepts and the dictionary model stores, are refused with ValueError — by item assignment, '
                          f'update and at creation')
    # no stricter gate elsewhere: every other serialisation of user data either uses the writer's encoder or can only
    # warn (its handler swallows the failure) — a pre-check with the plain encoder that raises refuses NumPy scalars,
    # arrays and bytes, which the writer itself accepts
    for g in ctx.repo.all_funcs():
        if g is wj:
            continue
        for n in own_nodes(g.node):
            if not (isinstance(n, ast.Call) and dotted(n.func) in ('json.dumps', 'json.dump')):
                continue
            kw = get_arg(n, None, 'cls')
            same = kw is not None and norm(inline(g, kw)) in ('DDJSONEncoder', 'utils.DDJSONEncoder')
            swallowed = False
            for p_, field in enclosing(g.node, n):
                if isinstance(p_, ast.Try) and field == 'body' and any(
                        is_catch_all(h) or handler_names(h) & {'TypeError', 'ValueError'} for h in p_.handlers) and \
                        not any(isinstance(x, ast.Raise) for h in p_.handlers for x in ast.walk(h)):
                    swallowed = True
            ctx.decide(same or swallowed, 'R-SIB', 'D6', g, n, 'trial-serialisation',
                       f'{g.qualname}: the trial serialisation `{norm(n)[:50]}` uses the writer\'s encoder or can only warn',
                       detail='a serialisation with the plain JSON encoder whose failure is raised rejects values the writer '
                              'accepts (NumPy numbers and arrays, bytes): metadata given at creation are refused although they '
                              'are JSON-representable for Darr')
    # D4 (shared with C17): serialise before truncating open, no streaming dump
    opens = [e for e in ctx.E.primitives(wj) if e.kind == 'TRUNC-WRITE']
    streams = [n for n in own_nodes(wj.node) if isinstance(n, ast.Call) and dotted(n.func) == 'json.dump']
    ctx.decide(not streams, 'R-ORDER', 'D4', wj, streams[0] if streams else None, 'no-streaming-dump',
               'write_jsonfile does not stream json.dump into the truncated file',
               detail='a non-serialisable value raises TypeError after the file was already truncated: a failed '
                      'update leaves partial JSON / creates the file')
    for o in opens:
        ctx.decide(bool(dumps) and must_precede(wj, o.node, dumps), 'R-ORDER', 'D4', wj, o.node, 'serialise-before-open',
                   'json.dumps (which can raise TypeError) is evaluated before the truncating open',
                   detail='the file is truncated before serialisation can fail')
    # the TypeError handler re-raises TypeError
    for t in (n for n in own_nodes(wj.node) if isinstance(n, ast.Try)):
        for h in t.handlers:
            ctx.decide(always_raises(h.body), 'R-RECOVER', 'D4', wj, h, 'typeerror-reraised',
                       'write_jsonfile re-raises the serialisation error', detail='serialisation error swallowed')
