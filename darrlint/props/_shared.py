"""Clauses shared between property modules."""
import ast

from ..rules import GateSpec, GateAnalysis, must_precede
from ..cfg import cfg_of, always_raises
from ..astutil import dotted, get_arg, derived, norm, enclosing, names_in, defs_of
from ..srcmodel import own_nodes, AnalysisError


def raised_names(stmts):
    out = set()
    for n in ast.walk(ast.Module(body=list(stmts), type_ignores=[])):
        if isinstance(n, ast.Raise) and n.exc is not None:
            e = n.exc.func if isinstance(n.exc, ast.Call) else n.exc
            out.add((dotted(e) or '?').split('.')[-1])
    return out


class PredGate(GateSpec):
    """A raising `if` whose test satisfies a predicate and raises one of the
    given exception classes."""
    def __init__(self, name, pred, excs):
        self.name = name
        self.pred = pred
        self.excs = set(excs)

    def classify_if(self, st, func, ctx):
        if always_raises(st.body):
            branch = st.body
        elif always_raises(st.orelse):
            branch = st.orelse
        else:
            return None
        if not self.pred(st.test, func, branch is st.body):
            return None
        rn = raised_names(branch)
        if rn and not (rn & self.excs):
            return ('bad', f'{self.name}: raises {sorted(rn)} instead of {sorted(self.excs)}')
        return ('gate', f'GV {self.name} `{norm(st.test)[:60]}`')


def find_consistency_check(ctx):
    """The Array method that compares the data file size with the size
    expected from the descriptor and raises (role inference)."""
    c = ctx.repo.cls('Array')
    cands = []
    for f in c.all_funcs():
        txt = {norm(n) for n in own_nodes(f.node) if isinstance(n, ast.Attribute)}
        has_size = any(t.endswith('.st_size') for t in txt) or any(
            isinstance(n, ast.Call) and dotted(n.func) in ('os.path.getsize',) for n in own_nodes(f.node))
        raises = any(isinstance(n, ast.Raise) for n in own_nodes(f.node))
        if has_size and raises:
            cands.append(f)
    if len(cands) > 1:
        # several functions compare file sizes: the open-time check is the one the constructor calls
        init = c.methods.get('__init__')
        called = [cal for _, cal in ctx.E.callees(init)] if init is not None else []
        pref = [f for f in cands if f in called]
        if len(pref) == 1:
            cands = pref
    if len(cands) != 1:
        raise AnalysisError(f'open-time size check not identifiable by role: {[f.qualname for f in cands]}')
    return cands[0]


def stored_dtype_keys(ctx):
    """Keys under which some function stores arrayinfotodtype(<d>) in the descriptor dictionary <d> itself."""
    keys = set()
    for fn_ in ctx.repo.all_funcs():
        for n in own_nodes(fn_.node):
            if isinstance(n, ast.Assign) and len(n.targets) == 1 and isinstance(n.targets[0], ast.Subscript) and \
                    isinstance(n.targets[0].slice, ast.Constant) and isinstance(n.value, ast.Call) and \
                    dotted(n.value.func) == 'arrayinfotodtype' and n.value.args and \
                    norm(n.value.args[0]) == norm(n.targets[0].value):
                keys.add(n.targets[0].slice.value)
    return keys


def _uses_stored_dtypedescr(ctx, func, expr):
    keys = stored_dtype_keys(ctx)
    if not keys:
        return False
    seen, work = set(), [expr]
    while work:
        e = work.pop()
        for x in ast.walk(e):
            if isinstance(x, ast.Subscript) and isinstance(x.slice, ast.Constant) and x.slice.value in keys:
                return True
            if isinstance(x, ast.Name) and x.id not in seen:
                seen.add(x.id)
                work.extend(v for v, _ in defs_of(func.node, x.id))
    return False


def size_check_obligations(ctx, clause_prefix='D1'):
    """C17 D1 / C18 D3: the open-time size check is strict, computed from the
    validated descriptor, unavoidable inside the check function and called by
    __init__ before the first use of the opener."""
    chk = find_consistency_check(ctx)
    ctx.info['size_check'] = chk.qualname
    # the raising comparison
    ifs = [n for n in own_nodes(chk.node) if isinstance(n, ast.If) and
           (always_raises(n.body) or always_raises(n.orelse))]
    # also a test that decides a raise without enclosing it (`if actual == expected: return` followed by `raise`)
    from ..pathcond import branch_cond_nodes
    polarity = {id(n): always_raises(n.body) for n in ifs}
    for r_ in (n for n in own_nodes(chk.node) if isinstance(n, ast.Raise)):
        for ifn, when_true in branch_cond_nodes(chk, r_):
            if ifn not in ifs:
                ifs.append(ifn)
                polarity[id(ifn)] = bool(when_true)
    def closure_exprs(test):
        """test expression plus every defining RHS it (transitively) depends on."""
        seen, out, work = set(), [test], [test]
        while work:
            e = work.pop()
            for nm in names_in(e):
                if nm in seen:
                    continue
                seen.add(nm)
                for v, stt in defs_of(chk.node, nm):
                    out.append(v)
                    work.append(v)
        return out
    sized = [st for st in ifs if any(('st_size' in norm(e) or 'getsize' in norm(e))
                                     for e in closure_exprs(st.test))]
    if not sized:
        ctx.bad('R-DOM', clause_prefix, chk, None, 'size-comparison',
                'size check compares actual and expected file size and raises',
                detail='no raising comparison involving the actual file size found')
        return chk
    st = sized[0]
    strict, why = _strict(st, polarity.get(id(st)))
    ctx.decide(strict, 'R-DOM', clause_prefix, chk, st, 'size-comparison-strict',
               f'size check `{norm(st.test)}` rejects every mismatch (too short and too long)',
               detail=why)
    lossy = []
    for e in closure_exprs(st.test):
        for b in ast.walk(e):
            if isinstance(b, ast.BinOp) and not isinstance(b.op, ast.Mult):
                lossy.append(norm(b))
            if isinstance(b, ast.Call) and dotted(b.func) in ('int', 'round', 'divmod', 'min', 'max', 'abs'):
                lossy.append(norm(b))
    ctx.decide(not lossy, 'R-FLOW', clause_prefix, chk, st, 'size-comparison-exact',
               'the sizes compared are exact byte counts (only products on the way)',
               detail=f'lossy arithmetic on the compared sizes: `{lossy[0] if lossy else ""}` — a file that is '
                      f'off by less than one item (or by a multiple) is accepted')
    # expected size derives from product(shape) * itemsize of the descriptor dtype
    names = derived(chk.node, st.test)
    need = {'product/np.prod': any(n in ('product', 'np.prod', 'np.product', 'math.prod') for n in names),
            'itemsize': any(n.endswith('itemsize') for n in names),
            'descriptor shape': any("['shape']" in norm(v) for nm in names for v, _ in defs_of(chk.node, nm))
            or "['shape']" in norm(st.test),
            'arrayinfotodtype': 'arrayinfotodtype' in names or _uses_stored_dtypedescr(ctx, chk, st.test)}
    missing = [k for k, v in need.items() if not v]
    ctx.decide(not missing, 'R-FLOW', clause_prefix, chk, st, 'expected-size-expression',
               'expected size = product(descriptor shape) x itemsize of the validated descriptor dtype',
               detail=f'expected size is not derived from: {missing}')
    # unavoidable inside the check function
    cfg = cfg_of(chk)
    ok = not cfg.can_reach(cfg.entry, cfg.exit, avoid={cfg.node_for(st)})
    ctx.decide(ok, 'R-DOM', clause_prefix, chk, st, 'size-check-unavoidable',
               f'every normal path through {chk.qualname} passes the size comparison',
               detail='a path returns without comparing sizes (e.g. an early return for empty arrays)')
    # called from __init__ before the first opener use
    init = ctx.repo.func('Array.__init__')
    calls = [node for node, cal in ctx.E.callees(init) if cal is chk]
    openers = [node for node, cal in ctx.E.callees(init) if cal.is_ctxmgr and cal.cls is init.cls]
    if not calls:
        ctx.bad('R-DOM', clause_prefix, init, None, 'init-calls-size-check',
                'Array.__init__ calls the size check', detail='the call vanished')
    else:
        cfg = cfg_of(init)
        ok = not cfg.can_reach(cfg.entry, cfg.exit, avoid={cfg.node_for(c) for c in calls})
        ctx.decide(ok, 'R-DOM', clause_prefix, init, calls[0], 'init-calls-size-check',
                   'Array.__init__ calls the size check on every path', detail='a path skips the check')
        for o in openers:
            ctx.decide(must_precede(init, o, calls), 'R-DOM', clause_prefix, init, o, 'check-before-first-map',
                       'the size check precedes the first memory map in Array.__init__',
                       detail='the data file is mapped before its size was checked')
    # no constructor bypass
    bypass = []
    for f in ctx.repo.all_funcs():
        for n in own_nodes(f.node):
            if isinstance(n, ast.Attribute) and n.attr == '__new__':
                bypass.append(f'{f.loc(n)} {f.qualname}')
        if f.cls is not None and f.cls.name in ('Array', 'RaggedArray') and \
                f.decorators & {'classmethod', 'staticmethod'}:
            # an alternative constructor hands out an instance it made without __init__: it mentions the class
            # (cls / the class name / object) in a call or sets __class__/__dict__; a static helper that only computes
            # on its arguments is not one
            makes = False
            for n in own_nodes(f.node):
                if isinstance(n, ast.Call):
                    fn_ = dotted(n.func) or ''
                    if fn_ in ('cls', f.cls.name, 'object.__new__', 'copy.copy', 'copy.deepcopy', 'super') or \
                            fn_.endswith('.__new__'):
                        makes = True
                if isinstance(n, ast.Attribute) and n.attr in ('__class__', '__dict__'):
                    makes = True
            if makes:
                bypass.append(f'{f.loc()} {f.qualname} ({sorted(f.decorators)})')
    ctx.decide(not bypass, 'R-OWN', clause_prefix, init, None, 'no-constructor-bypass',
               'no alternative constructor bypasses Array.__init__', detail=str(bypass))
    # RaggedArray builds both sub-arrays through Array(...)
    rc = ctx.repo.cls('RaggedArray')
    rinit = rc.methods['__init__']
    n = 0
    for a, v in rc.init_attr_exprs.items():
        if isinstance(v, ast.Call):
            tg = [t for k, t in ctx.R.resolve_call(v, rinit) if k == 'repo']
            if tg and tg[0] is init:
                n += 1
    ctx.decide(n >= 2, 'R-OWN', clause_prefix, rinit, None, 'ragged-subarrays-via-Array',
               f'RaggedArray.__init__ opens both sub-arrays through Array(...) ({n} found)',
               detail='a sub-array is not opened through the validating constructor')
    return chk


def _strict(st, raising_when_true=None):
    t = st.test
    if raising_when_true is None:
        raising_when_true = always_raises(st.body)
    if isinstance(t, ast.UnaryOp) and isinstance(t.op, ast.Not):
        t = t.operand
        raising_when_true = not raising_when_true
    if isinstance(t, ast.Compare) and len(t.ops) == 1:
        op = t.ops[0]
        if isinstance(op, ast.NotEq) and raising_when_true:
            return True, ''
        if isinstance(op, ast.Eq) and not raising_when_true:
            return True, ''
        return False, (f'comparison `{norm(st.test)}` is one-sided or inverted: a file that is too '
                       f'long (or too short) would be accepted')
    if isinstance(t, ast.BoolOp) and isinstance(t.op, ast.Or) and raising_when_true:
        ops = set()
        for v in t.values:
            if isinstance(v, ast.Compare) and len(v.ops) == 1:
                ops.add(type(v.ops[0]))
        if {ast.Lt, ast.Gt} <= ops or ast.NotEq in ops:
            return True, ''
    return False, f'comparison `{norm(st.test)}` is not recognised as a strict inequality test'


def opener_branch_agreement(ctx, clause):
    """R-SIB: every object the opener caches as the array (the np.memmap and
    the in-memory substitute for empty arrays) is built with the same dtype /
    shape / order expressions, and the dtype comes from arrayinfotodtype of the
    validated descriptor (byte order included)."""
    from ..escape import find_opener
    opener, mattr, fdattr = find_opener(ctx)
    cands = []
    for n in own_nodes(opener.node):
        if isinstance(n, ast.Assign) and any(dotted(t) == f'self.{mattr}' for t in n.targets) and \
                isinstance(n.value, ast.Call):
            cands.append(n.value)
    if len(cands) < 1:
        raise AnalysisError('opener caches nothing')

    def arg(c, kw, pos):
        return get_arg(c, pos, kw)
    ref = None
    for c in cands:
        if dotted(c.func) == 'np.memmap':
            ref = c
    if ref is None:
        raise AnalysisError('opener has no np.memmap branch')
    rd, rs, ro = arg(ref, 'dtype', 1), arg(ref, 'shape', 4), arg(ref, 'order', 5)
    names = derived(opener.node, rd) if rd is not None else set()
    # the validated descriptor may carry the derived description itself: <d>['dtypedescr'] = arrayinfotodtype(<d>)
    from ..pathcond import inline as _inl
    stored = [n for fn_ in ctx.repo.all_funcs() for n in own_nodes(fn_.node)
              if isinstance(n, ast.Assign) and len(n.targets) == 1 and isinstance(n.targets[0], ast.Subscript) and
              isinstance(n.targets[0].slice, ast.Constant) and isinstance(n.value, ast.Call) and
              dotted(n.value.func) == 'arrayinfotodtype' and n.value.args and
              norm(n.value.args[0]) == norm(n.targets[0].value)]
    keys = {n.targets[0].slice.value for n in stored}

    def dcanon(e):
        if e is None:
            return None
        e = _inl(opener, e)
        if isinstance(e, ast.Subscript) and isinstance(e.slice, ast.Constant) and e.slice.value in keys:
            return f'arrayinfotodtype({norm(e.value)})'
        return norm(e)
    from_descr = rd is not None and ('arrayinfotodtype' in names or (dcanon(rd) or '').startswith('arrayinfotodtype('))
    ctx.decide(from_descr, 'R-FLOW', clause, opener, ref, 'map-dtype-from-descriptor',
               'the memory map is created with the dtype description derived from the validated descriptor (arrayinfotodtype: numtype + byte order)',
               detail=f'dtype={norm(rd) if rd is not None else None} does not come from arrayinfotodtype')
    for c in cands:
        if c is ref:
            continue
        pos = {'np.zeros': (1, 0, 2), 'np.empty': (1, 0, 2), 'np.ones': (1, 0, 2)}.get(dotted(c.func), (None, None, None))
        cd, cs, co = arg(c, 'dtype', pos[0]), arg(c, 'shape', pos[1]), arg(c, 'order', pos[2])
        same = all(a is not None and b is not None and (norm(a) == norm(b) or norm(_inl(opener, a)) == norm(_inl(opener, b)))
                   for a, b in ((cs, rs), (co, ro))) and cd is not None and rd is not None and dcanon(cd) == dcanon(rd)
        ctx.decide(same, 'R-SIB', clause, opener, c, f'substitute-agrees::{dotted(c.func)}',
                   f'the in-memory substitute `{norm(c)[:50]}` is built with the same dtype / shape / order expressions as the memory map',
                   detail=f'substitute uses dtype={norm(cd) if cd is not None else None}, shape={norm(cs) if cs is not None else None}, '
                          f'order={norm(co) if co is not None else None} but the map uses dtype={norm(rd)}, shape={norm(rs)}, '
                          f'order={norm(ro)}: an empty array reports another dtype/byte order than its descriptor, and later '
                          f'appends are cast to it')
    # what __init__ caches comes from the opened object
    init = ctx.repo.func('Array.__init__')
    for a in ('_dtype', '_shape', '_size'):
        v = opener.cls.init_attr_exprs.get(a)
        ok = isinstance(v, ast.Attribute) and v.attr == a.lstrip('_') and isinstance(v.value, ast.Name)
        if not ok and v is not None:
            # taken from the validated descriptor instead of the mapped object: equivalent only when the reader itself
            # rejects what NumPy would have rejected (negative extents) — the item size / type come from the same table
            rdr = opener.cls.methods.get('_read_arraydescr')
            nonneg = rdr is not None and any(
                isinstance(n, ast.If) and (always_raises(n.body) or always_raises(n.orelse)) and 'shape' in norm(_inl(rdr, n.test)) and
                any(isinstance(c_, ast.Compare) and any(isinstance(o_, (ast.Lt, ast.GtE, ast.LtE, ast.Gt)) for o_ in c_.ops) and
                    any(isinstance(k_, ast.Constant) and k_.value == 0 for k_ in [c_.left] + c_.comparators)
                    for c_ in ast.walk(n.test)) for n in own_nodes(rdr.node))
            t_ = norm(_inl(init, v))
            from_descr = ("['shape']" in t_ or "['dtypedescr']" in t_ or 'arrayinfotodtype(' in t_ or
                          t_ in ('product(self._shape)', 'np.prod(self._shape)', 'product(self.shape)'))
            ok = nonneg and from_descr
        ctx.decide(ok, 'R-FLOW', clause, init, v, f'handle-cache::{a}',
                   f'Array.__init__ caches {a} from the object the opener yields',
                   detail=f'{a} = {norm(v) if v is not None else None}: taken from the descriptor without NumPy (or an explicit '
                          f'test) rejecting negative extents, whose product can still match the file size')


def languages_over_registry(ctx, rl, regname='readcodefunc'):
    """The language-listing method ranges over the registry (for loop or comprehension, keys() or the dict itself)
    and filters on the dispatcher's result being None / not None."""
    REG = (regname, f'{regname}.keys()', f'list({regname})', f'sorted({regname})', f'list({regname}.keys())',
           f'sorted({regname}.keys())', f'tuple({regname})', f'{regname}.items()', f'sorted({regname}.items())')
    # a method that only hands the question on (`return readcodelanguages(self)`) is judged by the function it calls
    body = [s_ for s_ in rl.node.body if not (isinstance(s_, ast.Expr) and isinstance(s_.value, ast.Constant))]
    if len(body) == 1 and isinstance(body[0], ast.Return) and isinstance(body[0].value, ast.Call):
        tg = [t for k, t in ctx.R.resolve_call(body[0].value, rl) if k == 'repo']
        if len(tg) == 1 and tg[0] is not rl:
            return languages_over_registry(ctx, tg[0], regname)
    over = False
    for n in own_nodes(rl.node):
        if isinstance(n, ast.For) and norm(n.iter) in REG:
            over = True
        if isinstance(n, ast.comprehension) and norm(n.iter) in REG:
            over = True
    filt = any(isinstance(n, ast.Compare) and len(n.ops) == 1 and isinstance(n.ops[0], (ast.Is, ast.IsNot)) and
               isinstance(n.comparators[0], ast.Constant) and n.comparators[0].value is None
               for n in own_nodes(rl.node))
    if not (over and filt):
        return False
    # ... on every call: no path returns without going through that loop / comprehension (no memoised answer: what is
    # offered depends on type *and* dimensionality of this very array)
    g = cfg_of(rl)
    nodes = set()
    for n in own_nodes(rl.node):
        if (isinstance(n, ast.For) and norm(n.iter) in REG) or (isinstance(n, ast.comprehension) and norm(n.iter) in REG):
            try:
                nodes.add(g.node_for(n if isinstance(n, ast.For) else n.iter))
            except KeyError:
                pass
    return bool(nodes) and not g.can_reach(g.entry, g.exit, avoid=nodes, skip_labels=('exc',))


def rejects_unknown_language(ctx, rc, reg, disp, regname='readcodefunc'):
    """With a language outside the registry the method ends in `raise ValueError` and never reaches the dispatcher
    (path conditions folded with the registry's real key set)."""
    from ..pathcond import reach_under, outcome_under
    from ._trunc import folder
    lang = 'language' if 'language' in rc.params else [p for p in rc.params if p != 'self'][0]
    keys = frozenset(reg)
    env = {lang: '<<no such language>>', regname: keys, f'{regname}.keys()': keys, 'self.readcodelanguages': keys}
    ft = folder(env, rc)
    may = reach_under(rc, ft)
    g = cfg_of(rc)
    calls = [n for n, cal in ctx.E.callees(rc) if cal is disp]
    normal, raised = outcome_under(rc, ft)
    return normal is False and 'ValueError' in raised and not any(g.node_for(c) in may for c in calls)


def attr_from_param(cls, param):
    """Role discovery: the instance attribute that __init__ derives from constructor parameter `param`
    (public API name).  Returns the attribute name or None."""
    init = cls.methods.get('__init__')
    if init is None:
        return None
    best = None
    for a, lst in cls.attr_exprs.items():
        for f_, v, st in lst:
            if f_ is not init:
                continue
            if param in derived(init.node, v):
                # prefer the attribute that stores the parameter itself over values computed from several things
                if isinstance(v, ast.Name) and v.id == param:
                    return a
                best = best or a
    return best


def default_only_when_absent(func, ret):
    """Path conditions: with every existence test of the function folded to True (the file exists) the given
    non-parsed `return` is unreachable.  Three-valued."""
    from ..pathcond import runs_under
    from ..rules import eval_bool, is_exists_call
    from .C20 import fold

    def ft(t):
        def atoms(x):
            if is_exists_call(x):
                return True
            # e.g. `st_size == 0`, `len(text) == 0`: not an existence test -> undecided
            return None
        return eval_bool(t, atoms)
    r = runs_under(func, ret, ft)
    return r is False


def _open_sites(ctx, funcs):
    """(func, call, mode, encoding) for builtin open() calls in text mode."""
    out = []
    for f in funcs:
        for n in own_nodes(f.node):
            if isinstance(n, ast.Call) and dotted(n.func) in ('open', 'io.open'):
                m = get_arg(n, 1, 'mode')
                mode = m.value if isinstance(m, ast.Constant) and isinstance(m.value, str) else ('r' if m is None else None)
                if mode is None or 'b' in mode:
                    continue
                e = get_arg(n, 3, 'encoding')
                enc = e.value if isinstance(e, ast.Constant) else ('<default>' if e is None else '<dynamic>')
                out.append((f, n, mode, enc))
    return out


def _norm_enc(e):
    return e.lower().replace('_', '-').replace('utf8', 'utf-8') if isinstance(e, str) else e


def _ascii_only_json(ctx):
    """Every json.dumps that feeds a file receives ensure_ascii=True: constant, or a parameter whose default and
    every argument at the package's call sites is True."""
    bad = []
    wj = ctx.repo.func('utils.write_jsonfile')
    for n in own_nodes(wj.node):
        if isinstance(n, ast.Call) and dotted(n.func) in ('json.dumps', 'json.dump'):
            a = get_arg(n, None, 'ensure_ascii')
            if a is None:
                bad.append(f'{wj.loc(n)} json.dumps without ensure_ascii (default True is fine)') if False else None
                continue
            if isinstance(a, ast.Constant):
                if a.value is not True:
                    bad.append(f'{wj.loc(n)} json.dumps(ensure_ascii={a.value!r})')
                continue
            if isinstance(a, ast.Name) and a.id in wj.params:
                d = wj.param_defaults().get(a.id)
                if not (isinstance(d, ast.Constant) and d.value is True):
                    bad.append(f'write_jsonfile default {a.id}={norm(d) if d is not None else None}')
                # call sites, through wrappers that forward a parameter of their own
                work, seen = [(wj, a.id)], set()
                while work:
                    fn, pname = work.pop()
                    if (fn.key, pname) in seen:
                        continue
                    seen.add((fn.key, pname))
                    for g in ctx.repo.all_funcs():
                        for node, cal in ctx.E.callees(g):
                            if cal is fn and isinstance(node, ast.Call):
                                v = get_arg(node, None, pname)
                                if v is None:
                                    dflt = fn.param_defaults().get(pname)
                                    if not (isinstance(dflt, ast.Constant) and dflt.value is True):
                                        bad.append(f'{g.loc(node)} relies on default {pname}={norm(dflt) if dflt is not None else None}')
                                elif isinstance(v, ast.Constant):
                                    if v.value is not True:
                                        bad.append(f'{g.loc(node)} {g.qualname} passes {pname}={v.value!r}')
                                elif isinstance(v, ast.Name) and v.id in g.params:
                                    work.append((g, v.id))
                                else:
                                    bad.append(f'{g.loc(node)} {g.qualname} passes {pname}={norm(v)}')
            else:
                bad.append(f'{wj.loc(n)} ensure_ascii={norm(a)}')
    return bad


def encoding_agreement(ctx, clause, kinds=('text', 'json')):
    """Writer/reader agreement on the text encoding of the files Darr writes and reads back (R-SIB): a reader decodes
    with the writer's encoding, or — for JSON only — may use the platform default because everything written is
    ASCII (ensure_ascii=True on every route)."""
    funcs = [f for f in ctx.repo.all_funcs() if f.module.name in ('datadir', 'metadata', 'utils')]
    sites = _open_sites(ctx, funcs)

    def is_json_reader(f):
        return any(isinstance(n, ast.Call) and dotted(n.func) in ('json.load', 'json.loads') for n in own_nodes(f.node))

    def is_json_writer(f):
        return any(isinstance(n, ast.Call) and dotted(n.func) in ('json.dumps', 'json.dump') for n in own_nodes(f.node))
    writers = {'json': [], 'text': []}
    readers = {'json': [], 'text': []}
    for f, n, mode, enc in sites:
        w = any(ch in mode for ch in 'wax+')
        if w:
            writers['json' if is_json_writer(f) else 'text'].append((f, n, enc))
        else:
            readers['json' if is_json_reader(f) else 'text'].append((f, n, enc))
    n_ob = 0
    for kind in kinds:
        wenc = {_norm_enc(e) for _, _, e in writers[kind]}
        for f, n, enc in readers[kind]:
            n_ob += 1
            inst = f'{f.qualname} decodes the {kind} file with the encoding it was written with ({sorted(wenc)})'
            if not writers[kind]:
                ctx.assume('R-SIB', clause, f, n, f'encoding::{kind}', inst, detail='no writer found')
            elif _norm_enc(enc) in wenc and len(wenc) == 1:
                ctx.ok('R-SIB', clause, f, n, f'encoding::{kind}', inst)
            elif enc == '<default>' and kind == 'json':
                bad = _ascii_only_json(ctx)
                ctx.decide(not bad, 'R-SIB', clause, f, n, f'encoding::{kind}',
                           f'{f.qualname} reads with the platform default encoding, which is safe because every JSON file '
                           f'is written ASCII-only (ensure_ascii=True on every route to json.dumps)',
                           detail='non-ASCII text can be written as UTF-8 but is decoded with the platform default '
                                  'encoding: ' + '; '.join(bad[:3]))
            elif enc == '<dynamic>':
                ctx.assume('R-SIB', clause, f, n, f'encoding::{kind}', inst, detail='encoding is not a constant')
            else:
                ctx.bad('R-SIB', clause, f, n, f'encoding::{kind}', inst,
                        detail=f'written as {sorted(wenc)} but read as {enc}: text does not round-trip '
                               f'(a leading BOM is dropped by utf-8-sig; non-ASCII text breaks under a non-UTF-8 locale default)')
    return n_ob


def _always_assigns(ctx, func, attr, depth=0):
    """Every normal path through func assigns self.<attr> (directly, also as an element of a tuple target, or through a
    callee on self that always does)."""
    g = cfg_of(func)
    nodes = set()
    for st in own_nodes(func.node):
        if isinstance(st, ast.Assign):
            for t in st.targets:
                for x in ([t] if not isinstance(t, (ast.Tuple, ast.List)) else t.elts):
                    if dotted(x) == f'self.{attr}':
                        nodes.add(g.node_for(st))
    if depth < 3:
        for node, cal in ctx.E.callees(func):
            if isinstance(node, ast.Call) and cal.cls is func.cls and cal is not func and \
                    isinstance(node.func, ast.Attribute) and dotted(node.func.value) == 'self' and \
                    _always_assigns(ctx, cal, attr, depth + 1):
                nodes.add(g.node_for(node))
    return bool(nodes) and not g.can_reach(g.entry, g.exit, avoid=nodes, skip_labels=('exc',))


def _default_mode_from_refreshed_attrs(ctx, opener):
    """Accepted alternative: with accessmode None the opener takes its mode strings from instance attributes that the
    accessmode setter re-derives on every path (so they always follow the handle's current mode) and that nothing else
    assigns except the constructor."""
    from ..pathcond import reach_under, inline as _inl
    from ._trunc import folder
    cls = opener.cls
    setter = cls.setters.get('accessmode')
    if setter is None:
        return False
    g = cfg_of(opener)
    may = reach_under(opener, folder({'accessmode': None}, opener))
    used = set()
    for n in own_nodes(opener.node):
        if isinstance(n, ast.Call) and dotted(n.func) in ('open', 'io.open', 'np.memmap', 'numpy.memmap'):
            m = get_arg(n, 1, 'mode')
            if m is None:
                continue
            for x in ast.walk(_inl(opener, m)):
                if isinstance(x, ast.Name):
                    for v, st in defs_of(opener.node, x.id):
                        if g.node_for(st) in may:
                            used |= {dotted(y) for y in ast.walk(v) if isinstance(y, ast.Attribute) and dotted(y)}
                elif isinstance(x, ast.Attribute) and dotted(x):
                    used.add(dotted(x))
    attrs = {u.split('.', 1)[1] for u in used if u and u.startswith('self.') and u.count('.') == 1} - {'_accessmode', 'accessmode',
                                                                                                        '_datapath', '_arrayinfo'}
    if not attrs:
        return False
    for a in attrs:
        if not _always_assigns(ctx, setter, a):
            return False
        writers = {f_ for f_, v, st in cls.attr_exprs.get(a, [])}
        for f_ in cls.all_funcs():
            for st in own_nodes(f_.node):
                if isinstance(st, ast.Assign) and any(dotted(x) == f'self.{a}' for t in st.targets
                                                     for x in ([t] if not isinstance(t, (ast.Tuple, ast.List)) else t.elts)):
                    writers.add(f_)
        init = cls.methods.get('__init__')
        reach_ok = True
        for w in writers:
            if w is setter or w is init:
                continue
            # a helper that assigns it must only be reachable from the constructor and the setter
            callers = [c_ for c_ in cls.all_funcs() if any(cal is w for _, cal in ctx.E.callees(c_))]
            if any(c_ not in (setter, init) for c_ in callers):
                reach_ok = False
        if not reach_ok:
            return False
    return True


def opener_default_mode(ctx, clause, opener):
    """The opener uses the handle's own (current) mode when none is requested: the `accessmode` parameter defaults
    to None and, exactly in that case, is bound to self._accessmode at call time — not to something cached when the
    handle was constructed.  Path conditions; if-statement or conditional expression, either polarity."""
    from ..pathcond import runs_under
    from ._trunc import folder
    from .C20 import fold
    d = opener.param_defaults().get('accessmode')
    ok = isinstance(d, ast.Constant) and d.value is None
    hit = False
    for v, st in defs_of(opener.node, 'accessmode'):
        e = v
        while isinstance(e, ast.IfExp):
            try:
                e = e.body if fold(e.test, {'accessmode': None}) else e.orelse
            except Exception:
                break
        if norm(e) in ('self._accessmode', 'self.accessmode'):
            when_none = runs_under(opener, st, folder({'accessmode': None}, opener))
            when_given = runs_under(opener, st, folder({'accessmode': 'r+'}, opener))
            if when_none is not False and (when_given is False or isinstance(v, ast.IfExp)):
                hit = True
    if ok and not hit:
        hit = _default_mode_from_refreshed_attrs(ctx, opener)
    ctx.decide(ok and hit, 'R-FLOW', clause, opener, None, 'opener-default-mode',
               'the opener uses the handle\'s own current mode when none is requested',
               detail='default mode of the opener is not the handle\'s current mode (e.g. mode strings cached at '
                      'construction: after `a.accessmode = ...` the maps are still opened in the old mode)')


def no_runtime_module_state(ctx, clause, modules):
    """Darr keeps no parsed file content between calls: no module-level container of the given modules is filled at run
    time (subscript store / del / mutating method / `global` rebinding inside a function).  With such a cache, what is
    validated at open time is the remembered content, not the file — the expected count is zero; the thorough tier keeps
    a seeded cache as the positive example."""
    MUT = {'pop', 'popitem', 'clear', 'update', 'setdefault', 'append', 'extend', 'add', 'remove', 'discard', 'insert',
           '__setitem__', '__delitem__'}
    n_ob = 0
    for mn in modules:
        m = ctx.repo.module(mn)
        containers = {}
        for st in m.tree.body:
            if isinstance(st, (ast.Assign, ast.AnnAssign)):
                tg = st.targets if isinstance(st, ast.Assign) else [st.target]
                v = st.value
                if v is not None and (isinstance(v, (ast.Dict, ast.List, ast.Set)) or
                                      (isinstance(v, ast.Call) and dotted(v.func) in ('dict', 'list', 'set', 'OrderedDict',
                                                                                      'collections.OrderedDict', 'defaultdict',
                                                                                      'collections.defaultdict',
                                                                                      'weakref.WeakValueDictionary'))):
                    for t in tg:
                        if isinstance(t, ast.Name):
                            containers[t.id] = st
        # class-level containers (shared by all instances: the same kind of process-wide state)
        cls_containers = {}
        for c_ in m.classes.values():
            for st in c_.node.body:
                if isinstance(st, (ast.Assign, ast.AnnAssign)):
                    tg = st.targets if isinstance(st, ast.Assign) else [st.target]
                    v = st.value
                    if v is not None and (isinstance(v, (ast.Dict, ast.List, ast.Set)) or
                                          (isinstance(v, ast.Call) and dotted(v.func) in ('dict', 'list', 'set', 'OrderedDict',
                                                                                          'collections.OrderedDict'))):
                        for t in tg:
                            if isinstance(t, ast.Name) and not (t.id.startswith('__') and t.id.endswith('__')):
                                cls_containers[(c_.name, t.id)] = st
        for f in m.all_funcs():
            local = {n.id for n in own_nodes(f.node) if isinstance(n, ast.Name) and isinstance(n.ctx, ast.Store)} | set(f.params)
            # stores into a class-level container: self.<c>[k] = v / cls.<c>[k] = v / <Class>.<c>[k] = v / type(self).<c>[k] = v
            for n in own_nodes(f.node):
                tgt = None
                if isinstance(n, ast.Subscript) and isinstance(n.ctx, ast.Store) and isinstance(n.value, ast.Attribute):
                    tgt, holder = n.value.attr, n
                elif isinstance(n, ast.Call) and isinstance(n.func, ast.Attribute) and n.func.attr in MUT - {'pop', 'popitem', 'clear', 'remove', 'discard'} \
                        and isinstance(n.func.value, ast.Attribute):
                    tgt, holder = n.func.value.attr, n
                if tgt is None:
                    continue
                owners_ = [cn for (cn, an) in cls_containers if an == tgt]
                if not owners_:
                    continue
                if isinstance(holder, ast.Subscript):
                    par = [p_ for p_, _ in enclosing(f.node, holder) if isinstance(p_, (ast.Assign, ast.AugAssign, ast.AnnAssign))]
                    val = par[0].value if par else None
                else:
                    val = ast.Tuple(elts=list(holder.args) + [k.value for k in holder.keywords], ctx=ast.Load())
                if val is None:
                    continue
                src = derived(f.node, val)
                for w in ast.walk(f.node):
                    if isinstance(w, ast.withitem) and w.optional_vars is not None and set(names_in(w.optional_vars)) & src:
                        src |= derived(f.node, w.context_expr)
                if not any(t in x for x in src for t in ('json.load', '.read', 'read_', 'fromfile', 'memmap', 'open', 'stat')):
                    continue
                n_ob += 1
                ctx.bad('R-OWN', clause, f, holder, f'module-state::{mn}.{owners_[0]}.{tgt}',
                        f'no class-level state of {mn}.py is filled at run time',
                        detail=f'`{norm(holder)[:60]}` stores into the class-level container `{owners_[0]}.{tgt}` (shared by all '
                               f'handles of the process): file content is remembered between calls, so later validation and reads '
                               f'see the remembered content instead of what is on disk')
            globs = {x for n in own_nodes(f.node) if isinstance(n, ast.Global) for x in n.names}
            for n in own_nodes(f.node):
                hit = None
                if isinstance(n, ast.Subscript) and isinstance(n.ctx, (ast.Store, ast.Del)) and isinstance(n.value, ast.Name):
                    hit = n.value.id
                elif isinstance(n, ast.Call) and isinstance(n.func, ast.Attribute) and n.func.attr in MUT and \
                        isinstance(n.func.value, ast.Name):
                    hit = n.func.value.id
                elif isinstance(n, ast.Name) and isinstance(n.ctx, ast.Store) and n.id in globs:
                    hit = n.id
                if hit is None or hit not in containers and hit not in globs:
                    continue
                if hit in local and hit not in globs:
                    continue            # a local of the same name
                # only content that comes from a file matters (a memo of a pure computation changes nothing)
                if isinstance(n, ast.Subscript):
                    par = [p_ for p_, _ in enclosing(f.node, n) if isinstance(p_, (ast.Assign, ast.AugAssign, ast.AnnAssign))]
                    val = par[0].value if par and isinstance(n.ctx, ast.Store) else None
                elif isinstance(n, ast.Call):
                    val = ast.Tuple(elts=list(n.args) + [k.value for k in n.keywords], ctx=ast.Load()) if n.args or n.keywords else None
                else:
                    par = [p_ for p_, _ in enclosing(f.node, n) if isinstance(p_, (ast.Assign, ast.AugAssign, ast.AnnAssign))]
                    val = par[0].value if par else None
                if val is None:
                    continue
                src = derived(f.node, val)
                for w in ast.walk(f.node):
                    if isinstance(w, ast.withitem) and w.optional_vars is not None and set(names_in(w.optional_vars)) & src:
                        src |= derived(f.node, w.context_expr)
                if not any(t in x for x in src for t in ('json.load', '.read', 'read_', 'fromfile', 'memmap', 'open', 'stat')):
                    continue
                n_ob += 1
                ctx.bad('R-OWN', clause, f, n, f'module-state::{mn}.{hit}',
                        f'no module-level state of {mn}.py is filled at run time',
                        detail=f'`{norm(n)[:60]}` stores into the module-level `{hit}`: file content (or something derived from '
                               f'it) is remembered between calls, so later validation and reads see the remembered content '
                               f'instead of what is on disk')
        if not any(f'module-state::{mn}.' in o.construct for o in ctx.obs):
            ctx.ok('R-OWN', clause, f'darr/{mn}.py', None, f'module-state::{mn}',
                   f'no module-level container of {mn}.py is written by any function '
                   f'({len(containers)} module-level container(s): {sorted(containers)[:8]})')
    return n_ob


# ---------------------------------------------------------------------------------------------------------------
# In-place rewrites truncate (round 5, seeded change C20-14): a text/JSON file that is rewritten through a handle
# opened WITHOUT truncation ('r+', 'a+', 'r+b' ...) keeps the tail of its previous content when the new text is
# shorter -- the next reader sees "Extra data" or a stale suffix.  Such a rewrite must call <handle>.truncate()
# after its last write.  The expected count on the pinned tree is zero (every rewrite opens with 'w'/'x'), so the
# site classifier is a pure function over a function's syntax tree and is run on an embedded positive example on
# every run.

_INPLACE_EXAMPLE = '''
def _update(path, d):
    with open(path, 'r+', encoding='utf-8') as fp:
        d2 = json.load(fp)
        d2.update(d)
        fp.seek(0)
        fp.write(json.dumps(d2))
    return d2

def _update_ok(path, d):
    with open(path, 'r+', encoding='utf-8') as fp:
        d2 = json.load(fp)
        d2.update(d)
        fp.seek(0)
        fp.write(json.dumps(d2))
        fp.truncate()
    return d2
'''


def inplace_rewrite_sites(fnode):
    """[(open call, handle name, mode, [write nodes], [truncate nodes])] for non-truncating read-write opens with a
    constant mode in one function.  Pure syntax; mode given positionally or by keyword; builtin open / io.open /
    <path>.open."""
    out = []
    for n in own_nodes(fnode):
        if not isinstance(n, ast.Call):
            continue
        nm = dotted(n.func) or ''
        if nm in ('open', 'io.open'):
            m = get_arg(n, 1, 'mode')
        elif isinstance(n.func, ast.Attribute) and n.func.attr == 'open' and nm not in ('tarfile.open', 'os.open'):
            m = get_arg(n, 0, 'mode')
        else:
            continue
        if not (isinstance(m, ast.Constant) and isinstance(m.value, str)):
            continue
        mode = m.value
        if 'w' in mode or 'x' in mode or '+' not in mode:
            continue
        handle = None
        for w in ast.walk(fnode):
            if isinstance(w, ast.withitem) and w.context_expr is n and isinstance(w.optional_vars, ast.Name):
                handle = w.optional_vars.id
            elif isinstance(w, ast.Assign) and w.value is n and len(w.targets) == 1 and isinstance(w.targets[0], ast.Name):
                handle = w.targets[0].id
        if handle is None:
            continue
        writes, truncs = [], []
        for c in own_nodes(fnode):
            if not isinstance(c, ast.Call):
                continue
            cn = dotted(c.func) or ''
            args = list(c.args) + [k.value for k in c.keywords]
            uses = any(isinstance(a, ast.Name) and a.id == handle for a in args)
            if isinstance(c.func, ast.Attribute) and isinstance(c.func.value, ast.Name) and c.func.value.id == handle:
                if c.func.attr in ('write', 'writelines'):
                    writes.append(c)
                elif c.func.attr == 'truncate':
                    truncs.append(c)
            elif uses and (cn in ('json.dump', 'print') or (isinstance(c.func, ast.Attribute) and c.func.attr in ('tofile', 'dump'))):
                writes.append(c)
            elif cn in ('os.ftruncate',) and any(isinstance(x, ast.Name) and x.id == handle for a in args for x in ast.walk(a)):
                truncs.append(c)
        out.append((n, handle, mode, writes, truncs))
    return out


def _inplace_verdict(site):
    _n, _h, _mode, writes, truncs = site
    if not writes:
        return None
    last = max((w.lineno, w.col_offset) for w in writes)
    return any((t.lineno, t.col_offset) > last for t in truncs)


def inplace_rewrites_truncate(ctx, clause, modules=('datadir', 'metadata', 'utils', 'array', 'raggedarray')):
    # positive example: the classifier must flag `_update` and accept `_update_ok`
    ex = ast.parse(_INPLACE_EXAMPLE)
    v = {f.name: [_inplace_verdict(s) for s in inplace_rewrite_sites(f)] for f in ex.body if isinstance(f, ast.FunctionDef)}
    if v != {'_update': [False], '_update_ok': [True]}:
        raise AnalysisError(f'in-place rewrite classifier fails its embedded example: {v}')
    n_sites = 0
    n_funcs = 0
    for f in ctx.repo.all_funcs():
        if f.module.name not in modules:
            continue
        n_funcs += 1
        for site in inplace_rewrite_sites(f.node):
            call, handle, mode, writes, truncs = site
            try:
                role = ctx.E.pathval(get_arg(call, 0, 'file') if (dotted(call.func) or '') in ('open', 'io.open')
                                     else call.func.value, f).role
            except Exception:
                role = 'UNKNOWN'
            if role == 'DATA':
                continue            # the binary data file is extended in place by design (C09 owns that discipline)
            ok = _inplace_verdict(site)
            if ok is None:
                continue
            n_sites += 1
            ctx.decide(ok, 'R-PAIR', clause, f, call, f'inplace-rewrite::{role}',
                       f'{f.qualname}: a file rewritten through a handle opened {mode!r} (no truncation) is cut to its new '
                       f'length after the last write',
                       detail=f'`{handle}` is written ({len(writes)} write(s)) but never truncated afterwards: when the new '
                              f'text is shorter than the old one the tail of the previous content stays in the file '
                              f'(JSON readers fail with "Extra data", text readers return a stale suffix)')
    if not n_sites:
        ctx.ok('R-PAIR', clause, 'darr', None, 'inplace-rewrite',
               f'no text/JSON file is rewritten through a non-truncating handle ({n_funcs} functions of '
               f'{list(modules)} scanned; classifier verified on its embedded positive example)')
    return n_sites


# ---------------------------------------------------------------------------------------------------------------
# Memoised results are not mutated in place (round 5, seeded change C01-13): a function wrapped by lru_cache/cache
# hands every caller the same object; a caller that advances it in place (`i += chunklen`) leaves the next call —
# in the same process, with the same arguments — a result that no longer starts where it should.  Expected count on
# the pinned tree: zero memoised functions; the classifier is verified on an embedded positive example.

_MEMO_NAMES = {'lru_cache', 'cache', 'functools.lru_cache', 'functools.cache', 'cached_property', 'functools.cached_property'}
_MEMO_EXAMPLE = '''
def _grid(shape):
    return np.zeros(shape)

_cachedgrid = lru_cache(maxsize=16)(_grid)

@lru_cache
def _grid2(shape):
    return np.zeros(shape)

def gen(shape, n):
    i = _cachedgrid(shape)
    for _ in range(n):
        yield f(i)
        i += shape[0]

def gen2(shape, n):
    i = _grid2(shape).copy()
    for _ in range(n):
        yield f(i)
        i += shape[0]

def gen3(shape):
    j = _grid2(shape)
    j[0] = 1
    return j
'''


def memo_names(tree):
    """Names bound at module level to a memoising wrapper: decorated functions and `x = lru_cache(...)(f)`."""
    out = {}
    for st in tree.body:
        if isinstance(st, (ast.FunctionDef, ast.AsyncFunctionDef)):
            for d in st.decorator_list:
                dn = dotted(d.func) if isinstance(d, ast.Call) else dotted(d)
                if dn in _MEMO_NAMES:
                    out[st.name] = st
        elif isinstance(st, ast.Assign) and isinstance(st.value, ast.Call):
            fn = st.value.func
            dn = dotted(fn.func) if isinstance(fn, ast.Call) else dotted(fn)
            if dn in _MEMO_NAMES and st.value.args:
                for t in st.targets:
                    if isinstance(t, ast.Name):
                        out[t.id] = st
    return out


def memo_mutations(tree):
    """[(function node, mutating node, variable, memo name)]: a local bound directly to the result of a memoised
    callable and then changed in place."""
    memo = memo_names(tree)
    hits = []
    if not memo:
        return memo, hits
    INPLACE = {'fill', 'sort', 'resize', 'put', 'itemset', 'partition', 'setfield', 'byteswap', 'append', 'extend',
               'update', 'clear', 'pop', 'insert', 'remove'}
    for f in ast.walk(tree):
        if not isinstance(f, (ast.FunctionDef, ast.AsyncFunctionDef)):
            continue
        bound = {}
        for n in own_nodes(f):
            if isinstance(n, ast.Assign) and len(n.targets) == 1 and isinstance(n.targets[0], ast.Name):
                vals = [n.value] + ([n.value.body, n.value.orelse] if isinstance(n.value, ast.IfExp) else [])
                for v in vals:
                    if isinstance(v, ast.Call) and (dotted(v.func) or '') in memo:
                        bound[n.targets[0].id] = dotted(v.func)
        if not bound:
            continue
        for n in own_nodes(f):
            var = None
            if isinstance(n, ast.AugAssign):
                t = n.target
                while isinstance(t, (ast.Subscript, ast.Attribute)):
                    t = t.value
                if isinstance(t, ast.Name):
                    var = t.id
            elif isinstance(n, ast.Subscript) and isinstance(n.ctx, (ast.Store, ast.Del)):
                t = n.value
                while isinstance(t, (ast.Subscript, ast.Attribute)):
                    t = t.value
                if isinstance(t, ast.Name):
                    var = t.id
            elif isinstance(n, ast.Call) and isinstance(n.func, ast.Attribute) and n.func.attr in INPLACE and \
                    isinstance(n.func.value, ast.Name):
                var = n.func.value.id
            if var in bound:
                hits.append((f, n, var, bound[var]))
    return memo, hits


def memoised_results_not_mutated(ctx, clause, modules=('array', 'raggedarray', 'utils', 'numtype')):
    ex = ast.parse(_MEMO_EXAMPLE)
    m, h = memo_mutations(ex)
    if sorted(m) != ['_cachedgrid', '_grid2'] or sorted((f.name, v) for f, _n, v, _m in h) != [('gen', 'i'), ('gen3', 'j')]:
        raise AnalysisError(f'memoisation classifier fails its embedded example: {sorted(m)} {[(f.name, v) for f, _n, v, _m in h]}')
    nmemo = 0
    for mn in modules:
        mod = ctx.repo.module(mn)
        memo, hits = memo_mutations(mod.tree)
        nmemo += len(memo)
        for fnode, node, var, name in hits:
            owner = next((g for g in mod.all_funcs() if g.node is fnode), None)
            ctx.bad('R-OWN', clause, owner if owner is not None else f'darr/{mn}.py', node, f'memo-mutated::{name}',
                    f'the result of the memoised `{name}` is not changed in place',
                    detail=f'`{var}` is the object the cache hands to every caller; `{norm(node)[:50]}` changes it, so a later '
                           f'call with the same arguments in the same process starts from the advanced state (e.g. the '
                           f'fill-function index grid no longer starts at 0 and the result depends on chunklen and on history)')
        if not hits:
            ctx.ok('R-OWN', clause, f'darr/{mn}.py', None, f'memo-mutated::{mn}',
                   f'no result of a memoised function of {mn}.py is changed in place ({len(memo)} memoised callable(s): '
                   f'{sorted(memo)}; classifier verified on its embedded positive example)')
    return nmemo


# ---------------------------------------------------------------------------------------------------------------
# No control-flow escape from a `finally` block (round 5, seeded change C10-15): `return` (or `break`/`continue` out
# of the block) inside `finally` discards the exception in flight.  In the opener's clean-up this turns every failure
# inside the context — a rejected chunk, a raising iterable — into a normal return.  Expected count: zero; the
# classifier is verified on an embedded positive example.

_FINALLY_EXAMPLE = '''
def opener(x):
    try:
        yield x
    finally:
        if x is None:
            return
        x.close()

def fine(x):
    try:
        return x.read()
    finally:
        for y in x.parts:
            if y is None:
                continue
            y.close()
        x.close()
'''


def finally_escapes(fnode):
    """`return` statements, and `break`/`continue` that leave the block, inside a finalbody of fnode."""
    out = []

    def scan(stmts, loop_depth):
        for st in stmts:
            if isinstance(st, (ast.FunctionDef, ast.AsyncFunctionDef, ast.ClassDef, ast.Lambda)):
                continue
            if isinstance(st, ast.Return):
                out.append(st)
            elif isinstance(st, (ast.Break, ast.Continue)) and loop_depth == 0:
                out.append(st)
            for field in ('body', 'orelse', 'finalbody', 'handlers'):
                sub = getattr(st, field, None)
                if not sub:
                    continue
                inner = isinstance(st, (ast.For, ast.While, ast.AsyncFor)) and field == 'body'
                for x in sub:
                    if isinstance(x, ast.ExceptHandler):
                        scan(x.body, loop_depth)
                    else:
                        scan([x], loop_depth + (1 if inner else 0))
    for n in own_nodes(fnode):
        if isinstance(n, ast.Try) and n.finalbody:
            scan(n.finalbody, 0)
    return out


def no_escape_from_finally(ctx, clause, modules=('array', 'raggedarray', 'datadir', 'metadata', 'utils')):
    ex = ast.parse(_FINALLY_EXAMPLE)
    v = {f.name: len(finally_escapes(f)) for f in ex.body if isinstance(f, ast.FunctionDef)}
    if v != {'opener': 1, 'fine': 0}:
        raise AnalysisError(f'finally-escape classifier fails its embedded example: {v}')
    nfin = 0
    hits = 0
    for f in ctx.repo.all_funcs():
        if f.module.name not in modules:
            continue
        nfin += sum(1 for n in own_nodes(f.node) if isinstance(n, ast.Try) and n.finalbody)
        for st in finally_escapes(f.node):
            hits += 1
            ctx.bad('R-RECOVER', clause, f, st, f'finally-escape::{f.qualname}',
                    f'{f.qualname}: no return/break/continue leaves a `finally` block',
                    detail=f'`{norm(st)}` inside `finally` discards the exception in flight: a failure raised inside the '
                           f'protected region (for the opener: anything that fails while the array is open) is swallowed '
                           f'and the operation returns normally')
    if not hits:
        ctx.ok('R-RECOVER', clause, 'darr', None, 'finally-escape',
               f'no return/break/continue leaves a `finally` block ({nfin} finally block(s) in {list(modules)}; '
               f'classifier verified on its embedded positive example)')
    ctx.floor(f'finally blocks scanned', nfin, 1)
    return nfin


def ragged_opener_mode_agreement(ctx, clause):
    """R-SIB: a RaggedArray method that takes `accessmode` and opens the sub-arrays hands the same mode expression to
    every opener call — values and indices are opened alike.  (Seeded C10-14: only the indices opener got the mode; in
    an `accessmode='r'` context an append then writes the values through the still writeable values map and fails on
    the index row.)"""
    RA = ctx.repo.cls('RaggedArray')
    A = ctx.repo.cls('Array')
    openers = {g for g in A.all_funcs() if g.name in ('_open_array', 'open_array')}
    n = 0
    for f in RA.all_funcs():
        if 'accessmode' not in f.params and 'accessmode' not in f.kwonly:
            continue
        calls = [node for node, cal in ctx.E.callees(f) if cal in openers and isinstance(node, ast.Call)]
        if len(calls) < 2:
            continue
        n += 1
        modes = []
        for c_ in calls:
            a = get_arg(c_, 0, 'accessmode')
            modes.append(norm(a) if a is not None else '<default>')
        ctx.decide(len(set(modes)) == 1, 'R-SIB', clause, f, calls[0], f'opener-mode-agreement::{f.name}',
                   f'{f.qualname}: all {len(calls)} sub-array opener calls receive the same access mode ({modes[0]})',
                   detail=f'sub-arrays are opened with different modes {modes}: one of values/indices follows the requested '
                          f'mode, the other the handle\'s own — in a read-only context one file is still written')
    ctx.floor('RaggedArray methods opening both sub-arrays with a mode', n, 1)
    return n


def mode_setters_refuse_by_value_only(ctx, clause):
    """The `accessmode` setters of Array, RaggedArray and MetaData change the mode for every valid value: the only
    refusal is the validation of the value itself.  A refusal that depends on the state of the handle (an open map, the
    current mode) makes the propagation in RaggedArray.accessmode partial — children switched before the refusing one
    keep the new mode while the ragged handle still reports the old one (seeded C11-13: metadata became writeable
    through a handle that says 'r')."""
    n = 0
    for cname in ('Array', 'RaggedArray', 'MetaData'):
        c = ctx.repo.cls(cname)
        for f in c.all_funcs():
            if not (f.is_setter and f.name == 'accessmode'):
                continue
            n += 1
            bad = []
            for r in (x for x in own_nodes(f.node) if isinstance(x, ast.Raise)):
                tests = [p_.test for p_, fld in enclosing(f.node, r) if isinstance(p_, ast.If)]
                if any(isinstance(z, ast.Name) and z.id == 'self' for t in tests for z in ast.walk(t)):
                    bad.append(r)
            ctx.decide(not bad, 'R-SIB', clause, f, bad[0] if bad else None, f'setter-refuses-by-value-only::{cname}',
                       f'{cname}.accessmode setter: a refusal depends only on the new value (validation), never on the state of the handle',
                       detail=f'`{norm(bad[0])[:60] if bad else ""}` is raised depending on the handle\'s state: RaggedArray.accessmode '
                              f'sets its children one after the other, so a child that refuses leaves the others (e.g. the metadata) '
                              f'in the new mode while the ragged handle keeps reporting the old one')
    ctx.floor('accessmode setters', n, 3)
    return n


def reset_handler_protects_write_only(ctx, clause, committer):
    """A handler that empties the data file again (`os.truncate(path, 0)`: "the array is still empty") is sound only
    while nothing in its try body has committed a length: with the commit inside the try, a failure late in the commit
    (the README write comes after the descriptor rewrite) empties the file while the descriptor already says N rows
    (seeded C02-17)."""
    n = 0
    for f in ctx.repo.cls('Array').all_funcs():
        for t in (x for x in own_nodes(f.node) if isinstance(x, ast.Try)):
            resets = [c for h in t.handlers for c in ast.walk(h) if isinstance(c, ast.Call) and
                      (dotted(c.func) or '') in ('os.truncate', 'os.ftruncate') and len(c.args) > 1 and
                      isinstance(c.args[1], ast.Constant) and c.args[1].value == 0]
            if not resets:
                continue
            n += 1
            body_nodes = {id(x) for st in t.body for x in ast.walk(st)}
            commits = [node for node, cal in ctx.E.callees(f) if cal is committer and id(node) in body_nodes]
            ctx.decide(not commits, 'R-ORDER', clause, f, commits[0] if commits else resets[0], 'reset-handler-scope',
                       f'{f.qualname}: the handler that empties the data file protects the write only (no length commit inside its try)',
                       detail='the length commit runs inside the try whose handler truncates the data file to 0: when the commit '
                              'fails after the descriptor was rewritten (e.g. the README write), the file is emptied while the '
                              'descriptor says the rows are there — file length != prod(shape) x itemsize')
    return n
