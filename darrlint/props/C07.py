"""C07 — generated read code for RaggedArrays extracts every subarray."""
import ast

from ..srcmodel import own_nodes, AnalysisError
from ..astutil import arg_for, dotted, norm, get_arg
from ..tmpl.interp import Unmodelled, ModRef
from ..tmpl import space, langs, ragged

EXPLANATION = (
    "String-template analysis of darr/readcoderaggedarray.py (abstract interpretation, calls of the "
    "Array generators intercepted and recorded): for 9 languages x 13 value types x 7 index types x atom "
    "rank 0..3 x length class {0, 1, 2, >2} x byte order x path mode the composed program is computed "
    "exactly. Checked per program: (A4) it is withheld exactly when a sub-program is withheld (or, for R, "
    "int64 indices with more than 2^31-1 values); the sub-programs for the index array (shape (n, 2), "
    "variable i) and the values array (shape (N,)+atom, variable v) are what the Array generators emit for "
    "those arrays, open the right files read-only and satisfy the C06 fact checks; (A1) the accessor's "
    "start/end expressions, parsed from the text with local names substituted, equal what the language's "
    "index origin / end inclusiveness / axis order require; (A2) the number, token and position of atom "
    "placeholders; explicit empty-subarray branches test the right condition and name the atom dimensions "
    "in the language's axis order; (A3) the example binds `sa` with the language's assignment operator, "
    "its k equals origin + position for the length class and equals the k in the comment; (A5) "
    "well-formedness of the composed text.")
ASSUMPTIONS = [
    "reader models in tmpl/langs.py and tmpl/ragged.py (index origin, end inclusiveness, axis order, placeholder tokens, assignment operators)",
    "not decided: behaviour of the foreign interpreters; numeric adequacy of R's 2^31-1 cut-off (its presence and operand are checked as a shape)",
]

JULIA_SUB = {'julia': 'julia_ver1'}


class Recorder(ModRef):
    def __init__(self, interp):
        super().__init__('readcodearray', interp)
        self.calls = []

    def callattr(self, attr, args, kwargs):
        res = super().callattr(attr, args, kwargs)
        if attr == 'readcode':
            self.calls.append((args, dict(kwargs), res))
        return res


def run(ctx):
    # the 'darr' program only constructs a handle (default mode 'r') and indexes it: constructors are effect-free
    from ..effects import MUTATING
    for cname in ('RaggedArray', 'Array'):
        init = ctx.repo.cls(cname).methods.get('__init__')
        eff = [e for e in ctx.E.may(init) if e.kind in MUTATING] if init is not None else []
        ctx.decide(init is not None and not eff, 'R-OWN', 'A5', init, None, f'constructor-effect-free::{cname}',
                   f'{cname}.__init__ performs no file-system mutation (running the generated darr read code never changes a file)',
                   detail='opening the array can write: ' + '; '.join(e.describe() for e in eff[:3]))
    # the example statement reads an EXISTING sub-array of the array as it is on disk: the number of sub-arrays (and the
    # values size) come from len(dra) / the sub-array handles, never from the ragged handle's remembered description
    # (`RaggedArray._arrayinfo` is a dictionary filled at construction; its 'len'/'size' entries lag behind when the
    # README is regenerated during a truncation or when another handle appended)
    import ast as _ast
    m_ = ctx.repo.module('readcoderaggedarray')
    stale = []
    for g in m_.all_funcs():
        for n in own_nodes(g.node):
            if isinstance(n, _ast.Subscript) and isinstance(n.value, _ast.Attribute) and n.value.attr == '_arrayinfo' and \
                    isinstance(n.slice, _ast.Constant) and n.slice.value in ('len', 'size'):
                stale.append((g, n))
    ctx.decide(not stale, 'R-FLOW', 'A5', stale[0][0] if stale else m_.funcs.get('readcode'), stale[0][1] if stale else None,
               'count-source::readcoderaggedarray',
               'no ragged read-code generator takes the number of sub-arrays / values from the handle\'s remembered description',
               detail=f'`{norm(stale[0][1]) if stale else ""}` is a value remembered in the handle: the example statement can ask '
                      f'for a sub-array that no longer exists (README written during truncation, stale handle)')
    from .C06 import t0_sources
    t0_sources(ctx, 'readcodearray', 'A5')
    t0_sources(ctx, 'readcoderaggedarray', 'A5')
    repo = ctx.repo
    try:
        ia, ir = space.make_interps(repo)
    except Unmodelled as e:
        raise AnalysisError(f'read-code modules outside the modelled subset: {e}')
    rec = Recorder(ia)
    ir.globs['readcodearray'] = rec
    reg = ir.globs.get('readcodefunc')
    if not isinstance(reg, dict) or not reg:
        raise AnalysisError('readcoderaggedarray.readcodefunc registry not evaluable')
    languages = list(reg)
    doc = repo.docs.get('docs/readcode.rst')
    doc_types, doc_dims = langs.parse_doc_tables(doc[0])
    thorough = ctx.tier == 'thorough'
    byteorders = space.BYTEORDERS if thorough else ['little']
    pathmodes = space.PATHMODES
    atomranks = (0, 1, 2, 3)
    lenclasses = (0, 1, 2, 3, 7)
    results = {}
    nprog = 0
    distinct = set()
    samples = []

    def note(lang, aspect, ok, cfg, detail):
        r = results.setdefault((lang, aspect), [0, []])
        if ok:
            r[0] += 1
        elif len(r[1]) < 40:
            r[1].append(f'{cfg}: {detail}')
        else:
            r[1].append('')

    for lang in languages:
        sublang = JULIA_SUB.get(lang, lang)
        for nt in space.NUMTYPES:
            for it in space.INDEXTYPES:
                for ar in atomranks:
                    for bo in byteorders:
                        for pm in (pathmodes if (thorough or (nt, it) in (('int32', 'int64'), ('float64', 'int32'))) else ['relative']):
                            for lc in (lenclasses if (thorough or (nt, it, bo) in (('int32', 'int64', 'little'), ('float64', 'int32', 'little'), ('complex128', 'uint8', 'little'))) else (3,)):
                                for big in ((False, True) if (lang == 'R' and it == 'int64' and lc == 3 and pm == 'relative') else (False,)):
                                    cfg = f'{nt}/idx {it}/atom rank {ar}/{bo}/{pm}/len {lc if lc < 3 else ">2"}' + ('/>2^31-1 values' if big else '')
                                    rec.calls.clear()
                                    try:
                                        code, dra = space.ragged_code(repo, ir, lang, nt, it, bo, ar, lc, pm, big=big)
                                    except Unmodelled as e:
                                        raise AnalysisError(f'ragged generator for {lang} outside the modelled subset ({cfg}): {e}')
                                    nprog += 1
                                    check_one(ctx, lang, sublang, code, list(rec.calls), nt, it, bo, ar, lc, pm, big, cfg,
                                              doc_types, doc_dims, note)
                                    if isinstance(code, str):
                                        distinct.add(code)
                                        if len(samples) < 5 and ar == 2 and lc == 3 and nt == 'float64' and it == 'int32' and pm == 'relative' \
                                                and not any(s['language'] == lang for s in samples) and lang in ('R', 'idl', 'maple', 'julia', 'numpymemmap'):
                                            samples.append({'language': lang, 'config': cfg, 'program': code})
    mod = repo.module('readcoderaggedarray')
    f0 = mod.funcs.get('readcode')
    for (lang, aspect), (nok, fails) in sorted(results.items()):
        r = reg.get(lang)
        gname = r[1] if isinstance(r, tuple) else getattr(r, 'name', '')
        gen = mod.funcs.get(gname) or f0
        fails = [x for x in fails if x]
        construct = f'{lang}::{aspect.split()[0]}::{aspect.split(" ", 1)[1][:24] if " " in aspect else ""}'
        inst = f'{lang}: {aspect} — {nok} program(s) conform'
        rule = 'R-TMPL'
        if fails:
            ctx.bad(rule, aspect.split()[0], gen, None, construct, inst,
                    detail=f'{len(fails)}+ program(s) deviate, first: {fails[0]}', witness=fails[:20])
        else:
            ctx.ok(rule, aspect.split()[0], gen, None, construct, inst)
    ctx.floor('C07 programs enumerated', nprog, 9 * 13 * 7 * 4)
    ctx.floor('C07 distinct program texts', len(distinct), 600)
    ctx.info['programs_enumerated'] = nprog
    ctx.info['distinct_program_texts'] = len(distinct)
    ctx.info['sample_programs'] = samples
    registry(ctx, reg)


def offered_sub(lang, numtype, ndim, doc_types, doc_dims):
    if lang == 'darr':
        return True
    return doc_types.get(lang, {}).get(numtype, False) and doc_dims.get(lang, {}).get('1-D' if ndim == 1 else 'N-D', False)


def check_one(ctx, lang, sublang, code, calls, nt, it, bo, ar, lc, pm, big, cfg, doc_types, doc_dims, note):
    H = lambda s: f'{langs.HL}{s}{langs.HR}'
    # A4: withheld exactly when a sub-program is withheld
    if lang == 'darr':
        expect = True
    else:
        idx_ok = offered_sub(sublang, it, 2, doc_types, doc_dims) or (lang == 'R' and it == 'int64')
        val_ok = offered_sub(sublang, nt, 1 + ar, doc_types, doc_dims)
        expect = idx_ok and val_ok and not (lang == 'R' and it == 'int64' and big)
    note(lang, 'A4 offered exactly when both sub-arrays are readable', (code is not None) == expect, cfg,
         f"code is {'offered' if code is not None else 'withheld'} but index type {it} / value type {nt} with {1 + ar} "
         f"dimensions {'are' if expect else 'are not'} readable in {lang}")
    if code is None:
        return
    if not isinstance(code, str):
        note(lang, 'A5 well-formed', False, cfg, f'generator returned {type(code).__name__}')
        return
    # sub-programs
    if lang != 'darr':
        if len(calls) != 2:
            note(lang, 'A5 sub-programs come from the Array generators', False, cfg, f'{len(calls)} calls of readcodearray.readcode')
            return
        roles = {}
        for args, kw, res in calls:
            obj = args[0]
            role = 'indices' if obj._name.endswith('_indices') else 'values'
            roles[role] = (args, kw, res)
        if set(roles) != {'indices', 'values'}:
            note(lang, 'A5 sub-programs come from the Array generators', False, cfg, 'index and values arrays are not both read')
            return
        for role, var in (('indices', 'i'), ('values', 'v')):
            args, kw, res = roles[role]
            sl = args[1] if len(args) > 1 else kw.get('language')
            ok = sl == sublang and kw.get('varname') == var
            note(lang, 'A5 sub-programs come from the Array generators', ok, cfg,
                 f'{role} array read with language {sl!r} into variable {kw.get("varname")!r}')
            if res is None:
                continue
            body = res
            if lang == 'numpymemmap' and role == 'values':
                body = ''.join(res.splitlines(keepends=True)[1:])
            note(lang, 'A5 composed text contains the sub-programs', body in code, cfg, f'{role} sub-program is not contained verbatim')
            try:
                f = langs.EXTRACTORS[sublang](res, var)
            except langs.BadProgram as e:
                note(lang, f'A5 {role} sub-program well-formed', False, cfg, str(e))
                continue
            if role == 'indices':
                ext, t = [H('n'), '2'], it
            else:
                ext, t = [H('N')] + [H(f'a{k}') for k in range(ar)], nt
            needs_count = sublang in ('R', 'scilab') or (sublang == 'matlab' and len(ext) != 2)
            path = langs.expected_path(pm, dirparts=(role,))
            for aspect, ok, detail in langs.check_array_facts(sublang, f, t, bo, ext, path, needs_count):
                note(lang, f'A5 {role}: {aspect}', ok, cfg, detail)
    # accessor
    m = ragged.MODELS.get(lang)
    if m is None:
        raise AnalysisError(f'no accessor model for language {lang!r}')
    try:
        acc = ragged.accessor(lang, code)
    except (langs.BadProgram, ValueError, IndexError) as e:
        note(lang, 'A5 accessor well-formed', False, cfg, str(e))
        acc = None
    if acc is not None and lang != 'darr':
        note(lang, 'A5 accessor well-formed', True, cfg, '')
        es, ee = ragged.expected_accessor(lang, acc['kvar'])
        note(lang, 'A1 accessor start', acc['start'] == es, cfg, f"start is `{acc['start']}`, {lang} (origin {m['origin']}) needs `{es}`")
        note(lang, 'A1 accessor end', acc['end'] == ee, cfg,
             f"end is `{acc['end']}`, {lang} ({'inclusive' if m['inclusive'] else 'exclusive'} end, origin {m['origin']}) needs `{ee}`")
        want = [m['placeholder']] * ar if m['colmajor'] else []
        note(lang, 'A2 atom placeholders', acc['placeholders'] == want, cfg,
             f"placeholders {acc['placeholders']} before the range, atom rank {ar} needs {want}")
        if acc.get('empty_cond') is not None:
            if lang == 'R':
                okc = acc['empty_cond'] in (f'{es}>{ee}', f'({es})>{ee}', f'{ee}<{es}')
                wantd = [H(f'a{k}') for k in reversed(range(ar))] + ['0'] if ar else []
            else:
                s0, e0 = ragged.comp(lang, 0, acc['kvar']), ragged.comp(lang, 1, acc['kvar'])
                okc = acc['empty_cond'] in (f'{s0}EQ{e0}', f'{e0}EQ{s0}', f'{s0}GE{e0}')
                wantd = []
            note(lang, 'A2 empty-subarray test', okc, cfg, f"empty test is `{acc['empty_cond']}`")
            if acc.get('empty_dims') is not None:
                note(lang, 'A2 empty value has the atom dimensions in the language\'s axis order', acc['empty_dims'] == wantd, cfg,
                     f"empty value has dims {acc['empty_dims']}, the non-empty slice has {wantd}")
    # example
    try:
        kc, ks, op, pos = ragged.example(lang, code)
        want_pos = 2 if lc > 2 else (1 if lc == 2 else 0)
        want_k = m['origin'] + want_pos
        note(lang, 'A3 example index', ks == want_k and kc == ks, cfg,
             f'example uses k={ks} (comment says k={kc}), an array with {lc if lc < 3 else ">2"} subarray(s) needs k={want_k}')
        note(lang, 'A3 example position word', pos == ('first', 'second', 'third')[want_pos], cfg, f'position word {pos}')
        note(lang, 'A3 example binds sa', op in m['assign'], cfg, f'`sa {op} ...` is not an assignment in {lang} (needs {m["assign"]})')
    except langs.BadProgram as e:
        note(lang, 'A3 example statement', False, cfg, str(e))
    # A5: general well-formedness
    try:
        well_formed(lang, code)
        note(lang, 'A5 well-formed', True, cfg, '')
    except langs.BadProgram as e:
        note(lang, 'A5 well-formed', False, cfg, str(e))


def well_formed(lang, code):
    t = langs.strip_comments(code, 'julia' if lang == 'julia' else lang)
    depth = 0
    q = None
    for line in t.splitlines():
        for ch in line:
            if q:
                if ch == q:
                    q = None
            elif ch in '"\'' and lang not in ('matlab',):
                q = ch
            elif ch in '([{':
                depth += 1
            elif ch in ')]}':
                depth -= 1
        if lang in ('numpymemmap', 'darr', 'julia', 'R', 'idl'):
            q = None
    if lang == 'mathematica':
        for line in t.splitlines():
            s = line.strip()
            if s and set(s) <= set(':;,.'):
                raise langs.BadProgram(f'stray `{s}` left after a comment')
    if lang in ('numpymemmap', 'darr'):
        langs._pyparse(code)
    if lang == 'maple':
        for line in t.splitlines():
            s = line.strip()
            if s and not s.endswith((';', ':')) and not s.startswith(('end proc',)):
                raise langs.BadProgram(f'maple statement without terminator: `{s[:40]}`')
    if depth != 0:
        raise langs.BadProgram('unbalanced brackets')


def registry(ctx, reg):
    RA = ctx.repo.cls('RaggedArray')
    rl, rc = RA.methods.get('readcodelanguages'), RA.methods.get('readcode')
    if rl is None or rc is None:
        raise AnalysisError('RaggedArray.readcode / readcodelanguages vanished')
    from ._shared import languages_over_registry, rejects_unknown_language
    ok = languages_over_registry(ctx, rl)
    ctx.decide(ok, 'R-SIB', 'A4', rl, None, 'readcodelanguages-over-registry',
               'RaggedArray.readcodelanguages lists exactly the ragged registry languages for which code is offered',
               detail='does not range over the ragged registry with the is-not-None filter')
    ok = rejects_unknown_language(ctx, rc, reg, ctx.repo.func('readcoderaggedarray.readcode'))
    ctx.decide(ok, 'R-SIB', 'A4', rc, None, 'readcode-validates-language', 'RaggedArray.readcode rejects unknown languages', detail='validation vanished')
    disp = ctx.repo.func('readcoderaggedarray.readcode')
    call = [n for n, cal in ctx.E.callees(rc) if cal is disp and isinstance(n, ast.Call)]
    ok = bool(call) and all(norm(arg_for(call[0], disp, k) or ast.Constant(0)) == k for k in ('basepath', 'abspath'))
    ctx.decide(ok, 'R-FLOW', 'A5', rc, call[0] if call else None, 'readcode-forwards-path-options',
               'RaggedArray.readcode forwards basepath and abspath to the dispatcher', detail='path options not forwarded')
    # no memoisation of generated code in the handle
    bad = [a for a, lst in RA.attr_exprs.items() if any('cache' in a.lower() or 'memo' in a.lower() for _ in [0])]
    ctx.decide(not bad and not (rc.decorators & {'lru_cache', 'cache', 'functools.lru_cache', 'functools.cache'}), 'R-OWN', 'A5', rc, None,
               'no-memoised-code', 'generated code is not cached in the handle (it depends on the current lengths)',
               detail=f'attributes {bad}')
