"""C05 — RaggedArray directory stays structurally well-formed and self-describing."""
import ast
from ..pathcond import inline, canon, find_defs, runs_under

from ..rules import must_precede, must_follow
from ..cfg import cfg_of
from ..effects import MUTATING
from ..astutil import dict_entries, dotted, get_arg, derived, norm, enclosing, names_in, defs_of
from ..srcmodel import own_nodes, AnalysisError
from .C17 import find_committer, find_appenders, subarray_role, d3_two_file_order
from .C10 import find_step, step_params
from .C09 import d3_checker

EXPLANATION = (
    "(D1) contiguity by construction: the start offset handed to the ragged append step is the values "
    "handle's first-axis length plus increments returned by the step, the index row is [start, start + "
    "item length], the first row of a new ragged array starts at literal 0 and ends at the length of "
    "the array written as first values chunk; (D2) the top-level descriptor written at creation and the "
    "in-memory one rewritten later have the same key set {len, size, atom, numtype, darrversion, "
    "darrobject}, the same sources and darrobject == 'RaggedArray'; (D3) every operation that changes a "
    "sub-array length reaches, on all normal paths and after both sub-array commits, the top-level "
    "descriptor update with len read from the indices handle and size from the values handle (not "
    "swapped); (D4) shrink: indices before values, cut point read from the already truncated indices "
    "or literal 0; (D5) raggedarray.py itself performs no primitive write on sub-array files (only "
    "Array machinery does); the append checker neither promotes ranks nor truncates shape comparison.")
ASSUMPTIONS = [
    "not decided: the inductive index-row invariant as a fact about file contents for all histories",
]

KEYS = {'len', 'size', 'atom', 'numtype', 'darrversion', 'darrobject'}


def is_len_of(ctx, expr, func, role):
    """expr is len(<sub>) / <sub>.shape[0] / <sub>._shape[0] for the sub-array of `role`."""
    if isinstance(expr, ast.Call) and dotted(expr.func) == 'len' and expr.args:
        return subarray_role(ctx, expr.args[0], func) == role
    if isinstance(expr, ast.Subscript) and isinstance(expr.slice, ast.Constant) and expr.slice.value == 0 and \
            isinstance(expr.value, ast.Attribute) and expr.value.attr in ('shape', '_shape'):
        return subarray_role(ctx, expr.value.value, func) == role
    return False


def is_size_of(ctx, expr, func, role):
    return isinstance(expr, ast.Attribute) and expr.attr in ('size', '_size') and \
        subarray_role(ctx, expr.value, func) == role


def run(ctx):
    committer = find_committer(ctx)
    appenders = find_appenders(ctx)
    step, roles = find_step(ctx, appenders)
    RA = ctx.repo.cls('RaggedArray')
    d1_contiguity(ctx, RA, step, appenders)
    d2_keysets(ctx, RA)
    d3_descriptor_updates(ctx, RA, committer, step)
    d3_two_file_order(ctx, committer)            # D4 shrink/growth order (shared with C17)
    d4_cutpoint(ctx)
    d5_owners(ctx)
    from .C10 import values_before_index
    values_before_index(ctx, step, roles['VALUESDIR'], roles['INDICESDIR'], 'D1')   # a rejected item leaves no orphan index row
    arr_appenders = [a for a in appenders if a.cls is not None and a.cls.name == 'Array']
    d3_checker(ctx, ctx.repo.cls('Array'), arr_appenders)


def d1_contiguity(ctx, RA, step, appenders):
    sparam = step_params(step)[-1]       # start offset parameter
    n = 0
    for f in RA.all_funcs():
        for node, cal in ctx.E.callees(f):
            if cal is not step or not isinstance(node, ast.Call):
                continue
            n += 1
            ps = step_params(step)
            # positional index at the call site: a bound method call leaves out the object, a plain function call does not
            off = 0 if isinstance(node.func, ast.Attribute) and step.cls is not None else 1
            a = get_arg(node, ps.index(sparam) + off, sparam)
            # decompose a + b + ...
            terms = []

            def split(e):
                if isinstance(e, ast.BinOp) and isinstance(e.op, ast.Add):
                    split(e.left)
                    split(e.right)
                else:
                    terms.append(e)
            split(a)
            base_ok, incr_ok = False, True
            for t in terms:
                srcs = [t]
                if isinstance(t, ast.Name):
                    srcs = [v for v, st in defs_of(f.node, t.id) if not isinstance(st, ast.AugAssign)] or [t]
                    augs = [v for v, st in defs_of(f.node, t.id) if isinstance(st, ast.AugAssign)]
                else:
                    augs = []
                if any(is_len_of(ctx, s, f, 'VALUESDIR') for s in srcs):
                    base_ok = True
                elif all(isinstance(s, ast.Constant) and s.value == 0 for s in srcs) and augs:
                    # accumulator: increments come from the step's return
                    for v in augs:
                        names = derived(f.node, v)
                        ok = any(isinstance(dv, ast.Call) and any(t2 is step for k, t2 in ctx.R.resolve_call(dv, f) if k == 'repo')
                                 for nm in names for dv, _ in defs_of(f.node, nm))
                        incr_ok = incr_ok and ok
                else:
                    incr_ok = False
            ctx.decide(base_ok and incr_ok, 'R-FLOW', 'D1', f, node, 'start-offset',
                       f'{f.qualname}: the start offset `{norm(a)}` is the values length (first axis) plus increments '
                       f'returned by the append step',
                       detail='the start of the new index row is not the previous committed end of the values array '
                              '(e.g. the number of stored numbers instead of the number of value rows): rows are no '
                              'longer contiguous for non-empty atoms')
    ctx.floor('C05 calls of the append step', n, 1)
    # creation: first row [[0, len(first)]], loop rows [valueslen, valueslen + returned count]
    f = ctx.repo.func('raggedarray.asraggedarray')
    creates = []
    for node, cal in ctx.E.callees(f):
        if cal.qualname == 'asarray' and isinstance(node, ast.Call):
            p = get_arg(node, 0, 'path')
            pv = ctx.E.pathval(p, f) if p is not None else None
            creates.append((node, pv.role if pv else None, get_arg(node, 1, 'array')))
    vfirst = [a for n, r, a in creates if r == 'VALUESDIR']
    ifirst = [a for n, r, a in creates if r == 'INDICESDIR']
    ok = False
    if vfirst and ifirst:
        cands_ = [v for v, _ in defs_of(f.node, ifirst[0].id)] if isinstance(ifirst[0], ast.Name) else [ifirst[0]]
        for v in cands_:
            try:
                v = inline(f, v)
                if isinstance(v, (ast.List, ast.Tuple)) and isinstance(v.elts[0], (ast.List, ast.Tuple)):
                    s, e = v.elts[0].elts
                    vf = canon(f, vfirst[0])
                    ok = isinstance(s, ast.Constant) and s.value == 0 and norm(e) in (f'len({vf})', f'{vf}.shape[0]')
            except Exception:
                pass
    ctx.decide(ok, 'R-FLOW', 'D1', f, ifirst[0] if ifirst else None, 'first-row',
               'asraggedarray: the first index row is [[0, len(<array written as first values chunk>)]]',
               detail='first index row does not start at 0 / end at the length of the first values chunk')
    rows = []
    for node, cal in ctx.E.callees(f):
        if cal in appenders and isinstance(node, ast.Call) and isinstance(node.func, ast.Attribute) and \
                subarray_role(ctx, node.func.value, f) == 'INDICESDIR':
            rows.append(node)
    for r in rows:
        row = r.args[0] if r.args else get_arg(r, None, 'array')
        good = False
        # locals inlined: the row is [[L, L + n]] where n is (derived from) the count returned by the values appender
        # and L the running values length
        rowi = inline(f, row) if row is not None else None
        if isinstance(rowi, ast.List) and len(rowi.elts) == 1 and isinstance(rowi.elts[0], (ast.List, ast.Tuple)) and \
                len(rowi.elts[0].elts) == 2:
            s_, e_ = rowi.elts[0].elts
            if isinstance(e_, ast.BinOp) and isinstance(e_.op, ast.Add) and norm(s_) in (norm(e_.left), norm(e_.right)):
                other = e_.right if norm(e_.left) == norm(s_) else e_.left
                def from_appender(x):
                    if isinstance(x, ast.Call):
                        return any(t2 in appenders for k, t2 in ctx.R.resolve_call(x, f) if k == 'repo')
                    if isinstance(x, ast.Name):
                        return any(from_appender(dv) for dv, _ in defs_of(f.node, x.id))
                    return False
                good = from_appender(other)
        if not good:
            good = _loop_row_symbolic(ctx, f, r, row, appenders)
        ctx.decide(good, 'R-FLOW', 'D1', f, r, 'loop-row',
                   'asraggedarray: each further row is [running values length, running values length + count returned by the values appender]',
                   detail='index row of the creation loop is not built from the running values length')


def _loop_row_symbolic(ctx, f, rcall, row, appenders):
    """Straight-line symbolic evaluation (polynomial normal forms, darrlint/poly.py) of the loop body up to the index
    append: the row is [L, L + n] with L the value a variable has at the start of the iteration and n the count returned
    by the values appender in this iteration — however the running length is updated in between."""
    from .. import poly as P
    loop = None
    for p_, fld in enclosing(f.node, rcall):
        if isinstance(p_, (ast.For, ast.While)) and fld == 'body':
            loop = p_
            break
    if loop is None or row is None:
        return False
    env = {}
    counts = set()
    for st in loop.body:
        if any(x is rcall for x in ast.walk(st)):
            break
        try:
            if isinstance(st, ast.Expr):
                continue
            P.exec_block([st], env, lambda *a: None, on_if=lambda s_, e_: False)
        except (P.Unsupported, P.NotPoly, KeyError):
            return False
        # remember the placeholder of a values-appender call
        if isinstance(st, (ast.Assign, ast.AugAssign)) and isinstance(st.value, ast.Call) and \
                any(t2 in appenders for k, t2 in ctx.R.resolve_call(st.value, f) if k == 'repo') and \
                isinstance(st.value.func, ast.Attribute) and subarray_role(ctx, st.value.func.value, f) == 'VALUESDIR':
            tg = st.targets[0] if isinstance(st, ast.Assign) else st.target
            if isinstance(tg, ast.Name) and isinstance(st, ast.Assign):
                counts.add(tuple(sorted(env[tg.id].items())))
    r0 = row
    if isinstance(r0, ast.Name):
        return False
    if not (isinstance(r0, ast.List) and len(r0.elts) == 1 and isinstance(r0.elts[0], (ast.List, ast.Tuple)) and
            len(r0.elts[0].elts) == 2):
        return False
    try:
        s_, e_ = (P.of_expr(x, env) for x in r0.elts[0].elts)
    except (P.NotPoly, KeyError):
        return False
    start_is_entry_value = len(s_) == 1 and list(s_.values()) == [1] and len(list(s_)[0]) == 1 and \
        not list(s_)[0][0].startswith('<')
    diff = P.add(e_, s_, -1)
    return start_is_entry_value and tuple(sorted(diff.items())) in counts


def d2_keysets(ctx, RA):
    init = RA.methods['__init__']
    f = ctx.repo.func('raggedarray.asraggedarray')

    # the dictionaries are found by role, not by name: the one stored in self._arrayinfo (a local or a
    # literal) and the one handed as `d=` to the writer of the top-level description file
    def resolve(func, expr):
        if isinstance(expr, ast.Name):
            return dict_entries(func.node, expr.id)
        if isinstance(expr, ast.Dict):
            return {k.value: v for k, v in zip(expr.keys, expr.values) if isinstance(k, ast.Constant)}
        return {}
    k1 = {}
    for fn_, val, st in RA.attr_exprs.get('_arrayinfo', []):
        if fn_ is init:
            k1 = resolve(init, val)
    k2 = {}
    for n, cal in ctx.E.callees(f):
        if cal.qualname == 'DataDir._write_jsondict' and isinstance(n, ast.Call) and \
                ctx.E._name_of(get_arg(n, 0, 'filename'), f) == ('lit', 'arraydescription.json'):
            k2 = resolve(f, get_arg(n, 1, 'd'))
    ctx.decide(set(k1) == KEYS, 'R-SIB', 'D2', init, None, 'keyset-in-memory',
               f'RaggedArray.__init__ builds the top-level descriptor with keys {sorted(KEYS)}', detail=f'keys are {sorted(k1)}')
    ctx.decide(set(k2) == KEYS, 'R-SIB', 'D2', f, None, 'keyset-written',
               f'asraggedarray writes the top-level descriptor with keys {sorted(KEYS)}', detail=f'keys are {sorted(k2)}')
    for func, ks in ((init, k1), (f, k2)):
        v = ks.get('darrobject')
        ctx.decide(isinstance(v, ast.Constant) and v.value == 'RaggedArray', 'R-TABLE', 'D2', func, v, 'darrobject',
                   f"{func.qualname}: darrobject == 'RaggedArray'", detail=f'darrobject is {norm(v) if v is not None else None}')
        for key, role, test in (('len', 'INDICESDIR', is_len_of), ('size', 'VALUESDIR', is_size_of)):
            v = ks.get(key)
            ctx.decide(v is not None and test(ctx, v, func, role), 'R-FLOW', 'D2', func, v, f'source::{key}',
                       f'{func.qualname}: descriptor {key!r} is read from the {role[:-3].lower()} sub-array',
                       detail=f'{key} = {norm(v) if v is not None else None}')
        v = ks.get('atom')
        ok = isinstance(v, ast.Subscript) and norm(v).endswith('.shape[1:]') and \
            subarray_role(ctx, v.value.value, func) == 'VALUESDIR'
        ctx.decide(ok, 'R-FLOW', 'D2', func, v, 'source::atom', f'{func.qualname}: descriptor atom is values.shape[1:]',
                   detail=f'atom = {norm(v) if v is not None else None}')
    # who may write the top-level description: besides the creator above and the updater below, every other writer in
    # raggedarray.py must build the same dictionary from the sub-arrays of the array it writes for (a copied / inherited
    # dictionary carries the numtype, len and size of another array)
    m = ctx.repo.module('raggedarray')
    others = 0
    for g in list(m.funcs.values()) + list(RA.all_funcs()):
        if g is f or g.name == '_update_arraydescr':
            continue
        for n, cal in ctx.E.callees(g):
            if cal.qualname == 'DataDir._write_jsondict' and isinstance(n, ast.Call) and \
                    ctx.E._name_of(get_arg(n, 0, 'filename'), g) == ('lit', 'arraydescription.json'):
                others += 1
                ks = resolve(g, get_arg(n, 1, 'd'))
                good = set(ks) == KEYS and is_len_of(ctx, ks['len'], g, 'INDICESDIR') and is_size_of(ctx, ks['size'], g, 'VALUESDIR')
                ctx.decide(good, 'R-OWN', 'D2', g, n, 'other-descriptor-writer',
                           f'{g.qualname} writes a top-level descriptor built from the sub-arrays it describes (keys {sorted(KEYS)})',
                           detail=f'`{norm(get_arg(n, 1, "d") or ast.Constant(None))[:60]}` is not a dictionary built here from the '
                                  f'values / indices arrays of the target: numtype, len or size may be those of another array '
                                  f'(e.g. the source of a copy with a changed dtype)')
    ctx.info['other_toplevel_descriptor_writers'] = others
    # the writer uses the dict it built; the updater rewrites the in-memory dict
    upd = RA.methods.get('_update_arraydescr')
    ok = upd is not None and any(isinstance(n, ast.Call) and norm(n.func) == 'self._arrayinfo.update' for n in own_nodes(upd.node)) \
        and any(isinstance(n, ast.Call) and norm(get_arg(n, 1, 'd') or ast.Constant(0)) == 'self._arrayinfo' for n in own_nodes(upd.node))
    ctx.decide(ok, 'R-FLOW', 'D2', upd or init, None, 'updater-rewrites-dict',
               '_update_arraydescr merges the new values into the in-memory descriptor and writes that dictionary',
               detail='updater does not write the merged in-memory descriptor')


def delegates_to(ctx, f, others, is_own_site):
    """f performs none of the operations itself (no call satisfies is_own_site) and every normal path through f passes a
    call of one and the same function of `others`: returns that function, else None."""
    if any(isinstance(node, ast.Call) and is_own_site(cal) for node, cal in ctx.E.callees(f)):
        return None
    g = cfg_of(f)
    for o in others:
        nodes = {g.node_for(node) for node, cal in ctx.E.callees(f) if cal is o and isinstance(node, ast.Call)}
        if nodes and not g.can_reach(g.entry, g.exit, avoid=nodes, skip_labels=('exc',)):
            return o
    return None


def d3_descriptor_updates(ctx, RA, committer, step):
    upd = RA.methods.get('_update_arraydescr')
    if upd is None:
        raise AnalysisError('RaggedArray._update_arraydescr vanished')
    funcs = [RA.methods['append'], RA.methods['iterappend'], ctx.repo.func('raggedarray.truncate_raggedarray'),
             ctx.repo.func('raggedarray.create_raggedarray')]
    n = 0
    for f in funcs:
        ucalls = [node for node, cal in ctx.E.callees(f) if cal is upd and isinstance(node, ast.Call)]
        if not ucalls:
            dg = delegates_to(ctx, f, [g_ for g_ in funcs if g_ is not f],
                              lambda cal: cal is committer or cal is step or cal.qualname in ('truncate_array', 'create_array'))
            if dg is not None:
                ctx.ok('R-POST', 'D3', f, None, 'updates-toplevel-descriptor',
                       f'{f.qualname} changes no length itself and hands the work to {dg.qualname} on every normal path (decided there)')
                continue
        if not ucalls:
            ctx.bad('R-POST', 'D3', f, None, 'updates-toplevel-descriptor', f'{f.qualname} rewrites the top-level descriptor',
                    detail='no call of _update_arraydescr: len/size in the top-level arraydescription.json go stale')
            continue
        # length-changing sites
        sites = []
        for node, cal in ctx.E.callees(f):
            if not isinstance(node, ast.Call):
                continue
            if cal is committer or cal is step or cal.qualname in ('truncate_array', 'create_array'):
                sites.append(node)
        for s in sites:
            n += 1
            ctx.decide(must_follow(f, s, ucalls), 'R-POST', 'D3', f, s, f'descr-after::{norm(s.func)}',
                       f'{f.qualname}: the top-level descriptor update follows `{norm(s)[:45]}` on every normal path',
                       detail='a length change is not followed by the top-level descriptor update on some path '
                              '(early return / missing call): len/size in arraydescription.json are stale')
        # commits of both sub-arrays follow the step on all paths
        steps = [node for node, cal in ctx.E.callees(f) if cal is step]
        commits = [node for node, cal in ctx.E.callees(f) if cal is committer]
        for s in steps:
            by_role = {}
            for c in commits:
                if isinstance(c.func, ast.Attribute):
                    by_role.setdefault(subarray_role(ctx, c.func.value, f), []).append(c)
            for role in ('VALUESDIR', 'INDICESDIR'):
                ctx.decide(role in by_role and must_follow(f, s, by_role[role]), 'R-POST', 'D3', f, s,
                           f'commit-after-step::{role}',
                           f'{f.qualname}: the {role[:-3].lower()} length commit follows the append step on every normal path',
                           detail='rows were written but a path skips the length commit: the data file is longer '
                                  'than its descriptor says')
        for u in ucalls:
            kws = {k.arg: k.value for k in u.keywords if k.arg}
            lit0 = all(isinstance(kws.get(k), ast.Constant) and kws[k].value == 0 for k in ('len', 'size'))
            if lit0 and f.name == 'create_raggedarray':
                # frozen exception: follows the re-creation of the indices array with literal shape (0, 2)
                repl = [node for node, cal in ctx.E.callees(f) if cal.qualname == 'create_array' and isinstance(node, ast.Call)]
                shp = get_arg(repl[0], 1, 'shape') if repl else None
                ok = bool(repl) and must_precede(f, u, repl) and shp is not None and norm(shp).replace(' ', '') in ('(0,2)', '[0,2]')
                ctx.decide(ok, 'R-FLOW', 'D3', f, u, 'literal-zero',
                           'create_raggedarray: len=0, size=0 follows the replacement of the indices by an empty (0, 2) array',
                           detail='literal zero lengths without the matching empty arrays')
                continue
            okl = 'len' in kws and is_len_of(ctx, kws['len'], f, 'INDICESDIR')
            oks = 'size' in kws and is_size_of(ctx, kws['size'], f, 'VALUESDIR')
            ctx.decide(okl and oks, 'R-FLOW', 'D3', f, u, 'len-size-sources',
                       f'{f.qualname}: _update_arraydescr(len=<indices length>, size=<values size>)',
                       detail=f'len={norm(kws["len"]) if "len" in kws else None}, size={norm(kws["size"]) if "size" in kws else None}: '
                              f'swapped or read from the wrong sub-array')
            cs = [node for node, cal in ctx.E.callees(f) if cal is committer or cal.qualname == 'truncate_array']
            ctx.decide(not any(cfg_of(f).can_reach(cfg_of(f).node_for(u), cfg_of(f).node_for(c)) for c in cs),
                       'R-ORDER', 'D3', f, u, 'after-both-commits',
                       f'{f.qualname}: the top-level descriptor is updated after both sub-array length changes',
                       detail='descriptor values are read before a sub-array length changed')
    ctx.floor('C05 length-changing sites in ragged operations', n, 6)


def d4_cutpoint(ctx):
    f = ctx.repo.func('raggedarray.truncate_raggedarray')
    trunc = ctx.repo.func('array.truncate_array')
    tcalls = {}
    for node, cal in ctx.E.callees(f):
        if cal is trunc and isinstance(node, ast.Call) and node.args:
            tcalls.setdefault(subarray_role(ctx, node.args[0], f), []).append(node)
    vts, its = tcalls.get('VALUESDIR', []), tcalls.get('INDICESDIR', [])
    for vt in vts:
        idx = get_arg(vt, 1, 'index')
        defs = [(v, st) for v, st in defs_of(f.node, idx.id)] if isinstance(idx, ast.Name) else [(idx, vt)]
        ok = bool(defs)
        for v, st in defs:
            if isinstance(v, ast.Constant) and v.value == 0:
                # the literal cut point 0 is used only when the new length is 0 (path conditions, any layout)
                from . import _trunc
                nls = _trunc.find_newlen(f, f.params[1]) if len(f.params) > 1 else []
                if len(nls) != 1:
                    ok = False
                    continue
                L = 5
                res = {}
                for nl in (0, 1, 3):
                    env = dict(_trunc.int_gate_env(f.params[1], True))
                    env[nls[0][0]] = nl
                    for k in _trunc.len_keys(f.params[0]):
                        env[k] = L
                    res[nl] = runs_under(f, st, _trunc.folder(env))
                ok = ok and res[0] is not False and res[1] is False and res[3] is False
                continue
            reads_idx = any(isinstance(x, ast.Subscript) and subarray_role(ctx, x.value, f) == 'INDICESDIR'
                            for x in ast.walk(v) if isinstance(x, ast.Subscript) and not isinstance(x.value, ast.Subscript))
            last = '[-1][-1]' in norm(v) or '[-1, -1]' in norm(v) or '[-1, 1]' in norm(v) or '[-1][1]' in norm(v)
            ok = ok and reads_idx and last and must_precede(f, st, its)
        ctx.decide(ok, 'R-ORDER', 'D4', f, vt, 'cut-point',
                   'truncate_raggedarray: the values cut point is the last end index read from the already truncated indices (or 0 for an empty result)',
                   detail='cut point is not indices[-1][-1] read after the indices were truncated')


def d5_owners(ctx):
    m = ctx.repo.module('raggedarray')
    bad = []
    for f in m.all_funcs():
        for e in ctx.E.primitives(f):
            if e.kind in ('WRITE-HANDLE', 'WRITE-PATH', 'TRUNC-WRITE', 'RESIZE', 'STORE', 'CREATE', 'APPEND-OPEN', 'UPDATE-OPEN'):
                bad.append(e.describe())
    ctx.decide(not bad, 'R-OWN', 'D5', list(m.all_funcs())[0], None, 'no-primitive-writes',
               'raggedarray.py performs no primitive write/resize itself: sub-array files are only touched through Array machinery',
               detail='; '.join(bad[:3]))
