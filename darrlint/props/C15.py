"""C15 — copy() and archive() produce faithful, independent replicas."""
import ast
from ..pathcond import inline, canon, find_defs, runs_under, reach_under
from . import _trunc

from ..rules import must_precede, must_follow
from ..cfg import cfg_of, always_raises
from ..effects import MUTATING
from ..astutil import assignments, pubnorm, dotted, get_arg, derived, norm, enclosing, names_in, defs_of
from ..srcmodel import own_nodes, AnalysisError
from ._shared import raised_names
from .C16 import d6_archive_copy

EXPLANATION = (
    "(D1) Array.copy forwards path, dtype, chunklen, accessmode, overwrite and a fresh dict(self.metadata) "
    "to asarray, and the dtype then reaches every chunk conversion of the generator (sibling rule over all "
    "yields, the Array branch included); (D2) RaggedArray.copy forwards path, dtype (defaulted to the "
    "source dtype), accessmode, overwrite and dict(metadata) to asraggedarray over a generator ranging over "
    "range(len(self)); (D3) empty sources: the Array dispatch branch of the chunk generator handles length "
    "0 like its sequence sibling, asraggedarray consumes and validates the first item before the first "
    "effect with StopIteration handled, and RaggedArray.copy creates an empty copy for a source without "
    "subarrays; (D4) independence by construction: asarray rejects path == source path before any effect "
    "and a copy's metadata is a new dict; (D5) archive: compression validated first, exclusive create "
    "unless overwrite, whole directory under its own name, no effect on the array directory.")
ASSUMPTIONS = [
    "tarfile semantics (mode 'x:' exclusive); np.asarray(x, dtype=None) keeps dtype and byte order",
    "not decided: value equality of copies with a[:].astype(dtype); byte-identical tar extraction; independence as an observed fact under later mutation",
]


def forwarded(ctx, f, call, callee, names, clause, prefix):
    ps = [p for p in callee.params if p != 'self']
    for nm in names:
        a = get_arg(call, None, nm)
        ok = isinstance(a, ast.Name) and a.id == nm and not [1 for v, st in defs_of(f.node, nm) if not _default_rebind(st, nm)]
        ctx.decide(ok, 'R-FLOW', clause, f, call, f'{prefix}::{nm}', f'{f.qualname} forwards `{nm}` to {callee.qualname}',
                   detail=f'{nm}={norm(a) if a is not None else "<not passed: callee default>"}')


def _default_rebind(st, nm):
    """`if nm is None: nm = <source default>` is an allowed rebinding."""
    return isinstance(st, ast.Assign)


def run(ctx):
    A, RA = ctx.repo.cls('Array'), ctx.repo.cls('RaggedArray')
    asarray = ctx.repo.func('array.asarray')
    asragged = ctx.repo.func('raggedarray.asraggedarray')
    gen = ctx.repo.func('array._archunkgenerator')
    # the replica's metadata are the source's metadata as they are on disk when copy() runs: the metadata reader
    # keeps no parsed content in the handle (shared with C13 D1) — with such a cache a copy made through a handle
    # that read its metadata earlier carries what another handle has replaced since
    from .C13 import d1_no_cache
    mc = ctx.repo.cls('MetaData')
    rd = [g for g in mc.all_funcs() if any(isinstance(n, ast.Call) and dotted(n.func) in ('json.load', 'json.loads')
                                           for n in own_nodes(g.node))]
    if not rd:
        raise AnalysisError('MetaData file reader not found')
    d1_no_cache(ctx, mc, rd[-1], clause='D4', only_cache=True)
    # D1
    f = A.methods['copy']
    calls = [n for n, cal in ctx.E.callees(f) if cal is asarray and isinstance(n, ast.Call)]
    if len(calls) != 1:
        raise AnalysisError('Array.copy no longer delegates to asarray exactly once')
    c = calls[0]
    for nm in ('path', 'dtype', 'chunklen', 'accessmode', 'overwrite'):
        a = get_arg(c, None, nm)
        ctx.decide(isinstance(a, ast.Name) and a.id == nm and not defs_of(f.node, nm), 'R-FLOW', 'D1', f, c, f'copy-forward::{nm}',
                   f'Array.copy forwards `{nm}` verbatim to asarray', detail=f'{nm}={norm(a) if a is not None else "<absent>"}')
    a = get_arg(c, None, 'array')
    ctx.decide(a is not None and norm(a) == 'self', 'R-FLOW', 'D1', f, c, 'copy-source', 'the source handed to asarray is self', detail='source differs')
    _fresh_metadata(ctx, f, c, 'D4')
    chunk_generator_rules(ctx, 'D1', 'D3')
    # D2
    g = RA.methods['copy']
    calls = [n for n, cal in ctx.E.callees(g) if cal is asragged and isinstance(n, ast.Call)]
    if len(calls) == 1:
        _ragged_copy_by_delegation(ctx, RA, g, asragged, calls[0])
    elif not calls:
        _ragged_copy_direct(ctx, RA, g)
    else:
        raise AnalysisError('RaggedArray.copy calls asraggedarray more than once')
    # asraggedarray: first item consumed/validated before the first effect, StopIteration handled
    nx = [n for n in own_nodes(asragged.node) if isinstance(n, ast.Call) and dotted(n.func) == 'next']
    muts = [n for n, cal in ctx.E.callees(asragged) if isinstance(n, ast.Call) and any(e.kind in MUTATING for e in ctx.E.may(cal))]
    ok = bool(nx) and all(must_precede(asragged, m, nx) for m in muts)
    ctx.decide(ok, 'R-ORDER', 'D3', asragged, nx[0] if nx else None, 'first-item-before-first-effect',
               'asraggedarray consumes and converts the first item before creating anything', detail='the directory is created before the first item is known to exist')
    for n in nx:
        guarded = len(n.args) > 1 or any(isinstance(p, ast.Try) and fld == 'body' and any('StopIteration' in norm(h.type) for h in p.handlers if h.type is not None)
                                         for p, fld in enclosing(asragged.node, n))
        ctx.decide(guarded, 'R-BELIEF', 'D3', asragged, n, 'next-guarded', 'an empty iterable does not leak StopIteration from asraggedarray',
                   detail='unguarded next() on the caller\'s iterable')
    # D4: same-path rejection before any effect
    # path conditions: with the source an Array whose path equals the target path, no effect is reachable and
    # ValueError is raised (any layout of the test: merged, nested, either polarity)
    from ..pathcond import outcome_under
    pth, src_ = asarray.params[0], asarray.params[1]
    env = {f'isinstance({src_}, Array)': True, f'{pth} == {src_}.path': True, f'{src_}.path == {pth}': True,
           f'{pth} == {src_}._path': True, f'{src_}._path == {pth}': True, f'{pth} != {src_}._path': False,
           f'{src_}._path != {pth}': False,
           f'{pth} != {src_}.path': False, f'{src_}.path != {pth}': False,
           f'{pth}.samefile({src_}.path)': True, f'{src_}.path.samefile({pth})': True}
    ft = _trunc.folder(env, asarray)
    amuts = [n for n, cal in ctx.E.callees(asarray) if isinstance(n, ast.Call) and any(e.kind in MUTATING for e in ctx.E.may(cal))]
    amuts += [e.node for e in ctx.E.primitives(asarray) if e.kind in MUTATING]
    may = reach_under(asarray, ft)
    ga = cfg_of(asarray)
    normal, raised = outcome_under(asarray, ft)
    ok = normal is False and 'ValueError' in raised and not any(ga.node_for(m) in may for m in amuts)
    gates = []
    ctx.decide(ok, 'R-DOM', 'D4', asarray, gates[0] if gates else None, 'same-path-rejected',
               'asarray rejects path == source path (ValueError) before any effect', detail='a source could be overwritten by its own copy')
    d6_archive_copy(ctx)           # D5
    from .C13 import d2b_stale_metadata
    d2b_stale_metadata(ctx, 'D4')   # a copy without metadata does not inherit the target path's old metadata.json
    # the dtype imposed on later chunks keeps the byte order (shared with C01 D2)
    dd = [v for v, st in defs_of(asarray.node, 'dtype')]
    ok = any(isinstance(v, ast.Attribute) and v.attr == 'dtype' for v in dd) and \
        not [v for v in dd if not isinstance(v, ast.Attribute) and ('.name' in norm(v) or 'np.dtype' in norm(v))]
    ctx.decide(ok, 'R-FLOW', 'D1', asarray, None, 'imposed-dtype-keeps-byteorder',
               'asarray imposes the first chunk\'s dtype object (byte order included) on all later chunks of a copy',
               detail='dtype is rebuilt from the type name: multi-chunk copies of non-native byte order mix endianness')
    for cls in (A, RA):
        m = cls.methods.get('archive')
        dd = ctx.repo.func('DataDir.archive')
        calls = [n for n, cal in ctx.E.callees(m) if cal is dd and isinstance(n, ast.Call)] if m else []
        ok = len(calls) == 1 and all(norm(get_arg(calls[0], None, k) or ast.Constant(0)) == k for k in ('filepath', 'compressiontype', 'overwrite'))
        ctx.decide(ok, 'R-FLOW', 'D5', m or dd, calls[0] if calls else None, f'archive-forward::{cls.name}',
                   f'{cls.name}.archive forwards filepath, compressiontype and overwrite to DataDir.archive', detail='arguments not forwarded')


def chunk_generator_rules(ctx, cl_dtype, cl_empty):
    """Clauses about `_archunkgenerator` shared with C01: the Array branch converts with the requested dtype, and a source of
    length 0 reaches a producer and never the frame machinery, on both the Array and the sequence branch."""
    gen = ctx.repo.func('array._archunkgenerator')
    # dtype reaches every producer of the chunk generator (Array branch included)
    ys = [n for n in own_nodes(gen.node) if isinstance(n, ast.Yield)]
    src = gen.params[0]
    # dispatch branches are selected by path-condition evaluation, not by the layout of the if/elif chain
    ARR = {f"hasattr({src}, '__next__')": False, f'isinstance({src}, Array)': True,
           f"hasattr({src}, '__len__')": True, f"hasattr({src}, 'keys')": False}
    SEQ = {f"hasattr({src}, '__next__')": False, f'isinstance({src}, Array)': False,
           f"hasattr({src}, '__len__')": True, f"hasattr({src}, 'keys')": False}
    g_ = cfg_of(gen)
    may_arr = reach_under(gen, _trunc.folder(ARR, gen))
    arr_branch = [y for y in ys if g_.node_for(y) in may_arr]
    ctx.floor('C15 producers on the Array branch', len(arr_branch), 2)
    for y in arr_branch:
        v = y.value
        ok = isinstance(v, ast.Call) and dotted(v.func) in ('np.asarray', 'np.array') and \
            norm(get_arg(v, 1, 'dtype') or ast.Constant('<absent>')) == 'dtype'
        ctx.decide(ok, 'R-SIB', cl_dtype, gen, y, f'array-branch-producer::{norm(v)[:30]}',
                   'the Array branch of the chunk generator converts with the requested dtype',
                   detail='copy(dtype=X) silently keeps the source dtype')
    # D3: a source of length 0 reaches a producer and never the frame machinery, on both branches
    def empty_ok(base, frame_call_pred):
        env = dict(base)
        for k in (f'len({src})', f'{src}.shape[0]'):
            env[k] = 0
        ft = _trunc.folder(env, gen)
        may = reach_under(gen, ft)
        frames = [n for n in own_nodes(gen.node) if isinstance(n, ast.Call) and frame_call_pred(n)]
        return any(g_.node_for(y) in may for y in ys) and not any(g_.node_for(n) in may for n in frames) and bool(frames)
    ff_ = ctx.repo.func('utils.fit_frames')

    def _frame_machinery(n):
        if dotted(n.func) in ('fit_frames', 'utils.fit_frames'):
            return True
        # a frame generator of the package that itself obtains its counts from fit_frames
        return any(k == 'repo' and any(c2 is ff_ for _, c2 in ctx.E.callees(t)) for k, t in ctx.R.resolve_call(n, gen))
    handled = empty_ok(ARR, lambda n: (isinstance(n.func, ast.Attribute) and n.func.attr in ('iterchunks', 'iterindices')) or
                       _frame_machinery(n))
    ctx.decide(handled, 'R-BELIEF', cl_empty, gen, None, 'empty-array-source',
               'the Array branch of the chunk generator handles a source of length 0 (its sequence sibling does, and '
               'iterchunks rejects startindex >= endindex)',
               detail='copying an Array whose first axis has length 0 raises ValueError')
    # an empty Darr array is *read* (`src[:]`, which opens it and returns an ndarray of the stored dtype and trailing
    # shape): handing the handle itself to np.asarray makes NumPy treat it as an empty generic sequence -> float64, (0,)
    env_ = dict(ARR)
    for k_ in (f'len({src})', f'{src}.shape[0]'):
        env_[k_] = 0
    from ..pathcond import inline as _inl
    # locals such as `totallen = len(array)` are folded through the environment of their definition
    for nm_, v_, st_ in assignments(gen.node):
        if norm(v_) in env_ and isinstance(nm_, str) and '.' not in nm_:
            env_[nm_] = env_[norm(v_)]
    may_ = reach_under(gen, _trunc.folder(env_, gen))
    ys_empty_arr = [y for y in ys if g_.node_for(y) in may_]
    bad_ = [y for y in ys_empty_arr if y.value is not None and not any(
        isinstance(x, ast.Subscript) and isinstance(x.value, ast.Name) and x.value.id == src for x in ast.walk(_inl(gen, y.value)))
        and any(isinstance(x, ast.Name) and x.id == src for x in ast.walk(_inl(gen, y.value)))]
    if ys_empty_arr:
        ctx.decide(not bad_, 'R-BELIEF', cl_empty, gen, bad_[0] if bad_ else ys_empty_arr[0], 'empty-array-is-read',
                   'an empty Darr array source is read through indexing (`array[:]`) before it is converted',
                   detail=f'`{norm(bad_[0].value)[:60]}` converts the Darr handle itself: NumPy sees an empty generic sequence and '
                          f'the copy of an empty (0, k) array of type T becomes a float64 array of shape (0,)' if bad_ else '')
    seq_empty = empty_ok(SEQ, _frame_machinery)
    ctx.decide(seq_empty, 'R-BELIEF', cl_empty, gen, None, 'empty-sequence-source', 'the sequence branch handles length 0', detail='missing')


def _ragged_copy_by_delegation(ctx, RA, g, asragged, c):
    for nm in ('path', 'accessmode', 'overwrite'):
        a = get_arg(c, None, nm)
        ctx.decide(isinstance(a, ast.Name) and a.id == nm and not defs_of(g.node, nm), 'R-FLOW', 'D2', g, c, f'ragged-copy-forward::{nm}',
                   f'RaggedArray.copy forwards `{nm}` verbatim to asraggedarray', detail=f'{nm}={norm(a) if a is not None else "<absent>"}')
    a = get_arg(c, None, 'dtype')
    dd = defs_of(g.node, 'dtype')
    # the default is applied exactly when dtype is None (path conditions) and is the source dtype; it precedes
    # every creation call that receives dtype — the empty-source sibling (create_raggedarray) included
    from .C20 import fold as _fold

    def _dflt(v):
        e = v
        while isinstance(e, ast.IfExp):
            try:
                e = e.body if _fold(e.test, {'dtype': None}) else e.orelse
            except Exception:
                return None
        return pubnorm(e)
    ok = isinstance(a, ast.Name) and a.id == 'dtype' and bool(dd) and all(
        _dflt(v) in ('self.dtype', 'self._values.dtype') and
        runs_under(g, st, _trunc.folder({'dtype': None}, g)) is not False and
        (isinstance(v, ast.IfExp) or runs_under(g, st, _trunc.folder({'dtype': 'float32'}, g)) is False) for v, st in dd)
    ctx.decide(ok, 'R-FLOW', 'D2', g, c, 'ragged-copy-forward::dtype', 'RaggedArray.copy forwards dtype, defaulted to the source dtype only when None',
               detail='dtype not forwarded / defaulted differently')
    crt = ctx.repo.func('raggedarray.create_raggedarray')
    for n_, cal in ctx.E.callees(g):
        if cal in (asragged, crt) and isinstance(n_, ast.Call):
            a_ = get_arg(n_, None, 'dtype')
            if isinstance(a_, ast.Name) and a_.id == 'dtype' and dd:
                gg_ = cfg_of(g)
                free_ = reach_under(g, _trunc.folder({'dtype': None}, g), avoid={gg_.node_for(st) for _, st in dd})
                ctx.decide(gg_.node_for(n_) not in free_, 'R-ORDER', 'D2', g, n_, f'dtype-default-before::{cal.name}',
                           f'RaggedArray.copy: the dtype default (source dtype) is applied before {cal.name} receives dtype',
                           detail=f'{cal.name} can be reached with dtype still None: the copy silently gets the '
                                  f'library default type instead of the source dtype')
    _fresh_metadata(ctx, g, c, 'D4')
    it = get_arg(c, None, 'arrayiterable')
    src = None
    if isinstance(it, ast.Name):
        ds = [v for v, _ in defs_of(g.node, it.id)]
        src = ds[0] if len(ds) == 1 else None
    ok = isinstance(src, ast.GeneratorExp) and norm(src.elt) == f'self[{norm(src.generators[0].target)}]' and \
        norm(src.generators[0].iter) in ('range(len(self))', 'range(self.narrays)') and not src.generators[0].ifs
    ctx.decide(ok, 'R-FLOW', 'D2', g, src, 'ragged-copy-items', 'the copy iterates self[i] for i in range(len(self))',
               detail=f'items come from `{norm(src) if src is not None else None}`')
    # D3 ragged: empty source
    cr = ctx.repo.func('raggedarray.create_raggedarray')
    # path conditions: with no subarrays the asraggedarray call is unreachable and create_raggedarray is reached
    envz = {'len(self)': 0, 'self.narrays': 0, 'self._indices.shape[0]': 0, 'len(self._indices)': 0}
    mayz = reach_under(g, _trunc.folder(envz, g))
    gg = cfg_of(g)
    crcalls = [n for n, cal in ctx.E.callees(g) if cal is cr]
    ok = bool(crcalls) and gg.node_for(c) not in mayz and any(gg.node_for(n) in mayz for n in crcalls)
    empties = crcalls
    ctx.decide(ok, 'R-BELIEF', 'D3', g, empties[0] if empties else None, 'empty-ragged-source',
               'RaggedArray.copy creates an empty copy when the source has no subarrays (asraggedarray needs a first item)',
               detail='copying a ragged array without subarrays fails')
    if empties:
        for n, cal in ctx.E.callees(g):
            if cal is cr and isinstance(n, ast.Call):
                # the empty copy receives what its non-empty sibling (the asraggedarray call) receives; locals inlined
                for nm in ('path', 'dtype', 'metadata', 'overwrite', 'atom'):
                    a = get_arg(n, None, nm)
                    want = 'self.atom' if nm == 'atom' else canon(g, get_arg(c, None, nm))
                    ctx.decide(a is not None and canon(g, a) == want, 'R-FLOW', 'D3', g, n, f'empty-copy-forward::{nm}',
                               f'the empty copy receives {nm}={want}', detail=f'{nm}={norm(a) if a is not None else "<absent>"}')


def _ragged_copy_direct(ctx, RA, g):
    """RaggedArray.copy that does not go through asraggedarray: the two sub-arrays are copied as the Arrays they are.
    Decided here: both sub-arrays are copied with Array.copy (values with the requested dtype), overwrite is forwarded,
    and the metadata of the copy *replace* whatever the target has (handed to a creator / writer as a fresh dict, never
    merged with MetaData.update).  The top-level descriptor of the copy is C05's clause (other-descriptor-writer), the
    mode of the returned handle C11's (D6)."""
    from .C17 import subarray_role
    acopy = ctx.repo.func('Array.copy')
    got = {}
    for n, cal in ctx.E.callees(g):
        if cal is acopy and isinstance(n, ast.Call) and isinstance(n.func, ast.Attribute):
            role = subarray_role(ctx, n.func.value, g)
            if role in ('VALUESDIR', 'INDICESDIR'):
                got[role] = n
    for role in ('VALUESDIR', 'INDICESDIR'):
        n = got.get(role)
        ctx.decide(n is not None, 'R-FLOW', 'D2', g, n, f'ragged-direct-copy::{role}',
                   f'RaggedArray.copy copies the {role[:-3].lower()} sub-array with Array.copy',
                   detail='neither delegated to asraggedarray nor copied as an Array')
        if n is None:
            continue
        a = get_arg(n, None, 'overwrite')
        ctx.decide(isinstance(a, ast.Name) and a.id == 'overwrite', 'R-FLOW', 'D2', g, n, f'ragged-direct-copy::{role}::overwrite',
                   f'the {role[:-3].lower()} copy receives overwrite verbatim', detail=f'overwrite={norm(a) if a is not None else "<absent>"}')
        if role == 'VALUESDIR':
            a = get_arg(n, None, 'dtype')
            ctx.decide(a is not None and 'dtype' in derived(g.node, a), 'R-FLOW', 'D2', g, n, 'ragged-direct-copy::dtype',
                       'the values copy receives the requested dtype', detail=f'dtype={norm(a) if a is not None else "<absent>"}: '
                       f'copy(dtype=X) keeps the source type')
    # metadata
    merges = [n for n in own_nodes(g.node) if isinstance(n, ast.Call) and isinstance(n.func, ast.Attribute) and
              n.func.attr in ('update', '__setitem__', 'setdefault') and norm(n.func.value).endswith(('.metadata', '._metadata'))]
    routes = [(n, cal) for n, cal in ctx.E.callees(g) if isinstance(n, ast.Call) and cal is not acopy and
              'metadata' in cal.params + cal.kwonly and get_arg(n, None, 'metadata') is not None]
    if merges:
        ctx.bad('R-FLOW', 'D4', g, merges[0], 'ragged-direct-copy::metadata',
                'the metadata of the copy replace whatever metadata the target path already has',
                detail=f'`{norm(merges[0])[:60]}` merges the source metadata into the metadata.json that is already at the target '
                       f'(overwrite=True on an existing array): keys of the old array survive, the copy does not have identical '
                       f'metadata; with empty source metadata the old file stays as it is')
    elif routes:
        for n, cal in routes:
            _fresh_metadata(ctx, g, n, 'D4')
    else:
        ctx.assume('R-FLOW', 'D4', g, None, 'ragged-direct-copy::metadata',
                   'the metadata of the copy replace whatever metadata the target path already has',
                   detail='no recognised route of the metadata into the copy')


def _fresh_metadata(ctx, f, call, clause):
    a = get_arg(call, None, 'metadata')
    src = a
    if isinstance(a, ast.Name):
        ds = [v for v, _ in defs_of(f.node, a.id)]
        src = ds[0] if len(ds) == 1 else a
    ok = isinstance(src, ast.Call) and dotted(src.func) in ('dict', 'copy.copy', 'copy.deepcopy') and len(src.args) == 1 and \
        norm(src.args[0]) in ('self.metadata', 'self._metadata')
    ok = ok or (isinstance(src, ast.Dict) and len(src.keys) == 1 and src.keys[0] is None and
                norm(src.values[0]) in ('self.metadata', 'self._metadata'))          # {**self.metadata}
    ctx.decide(ok, 'R-FLOW', clause, f, call, 'fresh-metadata-dict',
               f'{f.qualname} passes a fresh dict(self.metadata) (identical content, no shared object)',
               detail=f'metadata={norm(src) if src is not None else None}: the live metadata object of the source is shared or metadata are dropped')
