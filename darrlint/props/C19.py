"""C19 — interleaved iterators/contexts on one Array are memory-safe.

Schedules are not enumerable statically; the reason interleavings are unsafe
is an ownership shape of the shared memmap cache, and that is decided."""
import ast

from ..astutil import dotted, get_arg, norm, enclosing, defs_of
from ..srcmodel import own_nodes, AnalysisError
from ..escape import (esc_obligations, pair_obligations, find_opener, map_yielders, with_blocks)
from ..cfg import cfg_of
from ..rules import GateAnalysis, ModeGate, eval_writeable_test

EXPLANATION = (
    "Ownership analysis of the shared memmap cache (R-SHARE): the opener is found by role; the "
    "hazard is the conjunction of (a) a borrower path (the opener yields the cached map without "
    "registering the user), (b) an owner release that is not guarded by a user count reaching "
    "zero, and (c) suspending holders (generators / context managers that keep a `with <opener>` "
    "open across a yield, so holder lifetimes need not nest). The obligation is discharged when "
    "any of the three is absent (reference-counted release recognised by shape). Also decided: no "
    "raw view of the map reaches user code from any holder (R-ESC) and the release runs on every "
    "exit including generator close (R-PAIR).")
ASSUMPTIONS = [
    "closing an mmap invalidates every view of it (NumPy/OS semantics)",
    "not decided: coherence of returned values under interleaved writes, absence of crashes per schedule, fd counts at the end of a schedule",
]


def suspending_holders(ctx, yielders, opener):
    out = []
    for f, w, seeds in with_blocks(ctx, yielders + [opener] if opener not in yielders else yielders):
        if f is opener:
            continue
        ys = [n for n in own_nodes(f.node) if isinstance(n, (ast.Yield, ast.YieldFrom))
              and any(p is w and field == 'body' for p, field in enclosing(f.node, n))]
        if ys and f not in out:
            out.append(f)
    return out


def refcount_shape(opener, mattr):
    """Is the release in the opener's finally guarded by a user counter that
    every entry (owner and borrower) increments?  -> (bool, explanation)"""
    incs, decs = {}, {}
    for n in own_nodes(opener.node):
        if isinstance(n, ast.AugAssign) and dotted(n.target) and dotted(n.target).startswith('self.') and \
                isinstance(n.value, ast.Constant) and n.value.value == 1:
            d = dotted(n.target)
            (incs if isinstance(n.op, ast.Add) else decs).setdefault(d, []).append(n)
        if isinstance(n, ast.Assign) and len(n.targets) == 1 and dotted(n.targets[0]) and \
                dotted(n.targets[0]).startswith('self.') and isinstance(n.value, ast.Constant) and \
                n.value.value == 1:
            incs.setdefault(dotted(n.targets[0]), []).append(n)
    counters = [k for k in incs if k in decs]
    if not counters:
        return False, 'no user counter (an attribute incremented on entry and decremented on exit)'
    k = counters[0]
    # every yield is preceded by an increment of k
    cfg = cfg_of(opener)
    inc_nodes = {cfg.node_for(n) for n in incs[k]}
    for y in (n for n in own_nodes(opener.node) if isinstance(n, ast.Yield)):
        if cfg.can_reach(cfg.entry, cfg.node_for(y), avoid=inc_nodes):
            return False, f'a path reaches a yield without incrementing {k} (borrowers are not registered)'
    # release statements are under a test on k
    for n in own_nodes(opener.node):
        is_release = (isinstance(n, ast.Call) and isinstance(n.func, ast.Attribute) and n.func.attr == 'close') or \
            (isinstance(n, ast.Assign) and isinstance(n.value, ast.Constant) and n.value.value is None and
             any(dotted(t) == f'self.{mattr}' for t in n.targets))
        if not is_release:
            continue
        in_final = any(isinstance(p, ast.Try) and field == 'finalbody' for p, field in enclosing(opener.node, n))
        if not in_final:
            continue
        guarded = any(isinstance(p, ast.If) and k in norm(p.test) and field == 'body'
                      for p, field in enclosing(opener.node, n))
        if not guarded:
            return False, f'release `{norm(n)[:40]}` is not guarded by a test on {k}'
    return True, f'release guarded by user counter {k}'


class FlagGate(ModeGate):
    """Only tests of the writeable flag of a map count."""
    name = 'writeable-flag gate'

    def classify_if(self, st, func, ctx):
        c = super().classify_if(st, func, ctx)
        if c is not None and c[0] == 'gate' and not c[1].startswith('G1w'):
            return None
        return c

    def forbidden_fold(self, func, ctx):
        return lambda test: eval_writeable_test(test, False)


def d4_write_gate_judges_the_map(ctx, opener):
    """Every write takes effect: with a borrower path the map an element assignment goes to may have been opened by a
    context / generator in another mode than the handle's own attribute (`open_array(accessmode='r+')` on an 'r'
    handle).  The refusal test of __setitem__ must therefore be the writeable flag of the map it is about to write to,
    not the attribute: a gate on the attribute refuses writes that the open context allows."""
    A = opener.cls
    f = A.methods.get('__setitem__')
    if f is None:
        raise AnalysisError('Array.__setitem__ vanished')
    stores = [n for n in own_nodes(f.node) if isinstance(n, ast.Subscript) and isinstance(n.ctx, ast.Store)]
    if not stores:
        raise AnalysisError('Array.__setitem__: element store not found')
    GA = GateAnalysis(ctx, FlagGate())
    gates = set(GA.local_gates(f))
    free = GA.free_nodes(f, gates)
    g = cfg_of(f)
    for st in stores:
        ctx.decide(g.node_for(st) not in free, 'R-DOM', 'D4', f, st, 'write-gate-judges-the-map',
                   'Array.__setitem__: the refusal test in front of the element store is the writeable flag of the (possibly '
                   'borrowed) map that is written to',
                   detail='the store is not dominated by a test of `<map>.flags.writeable`: a gate on the handle\'s accessmode '
                          'attribute refuses an assignment inside `with a.open_array(accessmode=\'r+\')` on a handle whose '
                          'own mode is \'r\' (the write does not take effect), and lets nothing through that the map refuses')


def run(ctx):
    opener, mattr, fdattr = find_opener(ctx)
    yielders = map_yielders(ctx)
    # (a) borrower path
    borrower = None
    for y in (n for n in own_nodes(opener.node) if isinstance(n, ast.Yield)):
        for p, field in enclosing(opener.node, y):
            if isinstance(p, ast.If) and field == 'body' and f'self.{mattr} is not None' in norm(p.test):
                borrower = y
            if isinstance(p, ast.If) and field == 'orelse' and f'self.{mattr} is None' in norm(p.test):
                borrower = y
    # (c) suspending holders
    holders = suspending_holders(ctx, yielders, opener)
    ctx.info['suspending_holders'] = [f.qualname for f in holders]
    ctx.info['borrower_path'] = bool(borrower)
    rc_ok, rc_why = refcount_shape(opener, mattr)
    construct = 'unconditional-release-with-borrowers'
    inst = (f'{opener.qualname}: shared map cache — borrower path: {bool(borrower)}, suspending holders: '
            f'{[f.qualname for f in holders]}, release: {rc_why}')
    if not borrower:
        ctx.ok('R-SHARE', 'D1', opener, None, construct, inst + ' — no borrower path: every user maps privately')
    elif not holders:
        ctx.ok('R-SHARE', 'D1', opener, None, construct, inst + ' — no suspending holder: lifetimes nest')
    elif rc_ok:
        ctx.ok('R-SHARE', 'D1', opener, None, construct, inst)
    else:
        ctx.bad('R-SHARE', 'D1', opener, borrower, construct, inst, role_key='memmap-opener',
                detail='whoever opened the map first closes it when it finishes, regardless of other '
                       'users whose lifetimes do not nest: advancing a second iterchunks generator after '
                       'the first is exhausted touches an unmapped page (SIGSEGV)')
    ctx.floor('C19 suspending holders', len(holders), 3)
    # D2: no raw view escapes any holder
    n = esc_obligations(ctx, 'D2')
    ctx.floor('C19 with-blocks on map-yielding managers', n, 10)
    # D3: release on all exits
    pair_obligations(ctx, 'D3')
    # D2b: each chunk is copied from the map inside the held context in the step that yields it (shared with C14 D1)
    from .C14 import d1_copies
    A_ = ctx.repo.cls('Array')
    d1_copies(ctx, A_.methods['iterchunks'], A_.methods['iterindices'])
    # D4: holders do not pin a mode of their own (every write takes effect)
    from .C12 import d5_contexts
    d5_contexts(ctx)
    if borrower:
        d4_write_gate_judges_the_map(ctx, opener)
    for f in holders:
        ctx.ok('R-PAIR', 'D3', f, None, 'yield-inside-with',
               f'{f.qualname} suspends inside `with <opener>`: GeneratorExit unwinds through the release')
