"""C10 — a failed RaggedArray append leaves exactly the completed subarrays.

Same R-RECOVER rule as C09 applied to the places that run the ragged append
step, plus the two-file clauses."""
import ast

from ..rules import must_precede
from ..cfg import cfg_of, always_raises, handler_names, is_catch_all
from ..astutil import dotted, get_arg, derived, norm, enclosing, names_in, defs_of, assignments
from ..srcmodel import own_nodes, AnalysisError
from .C17 import find_committer, find_appenders, subarray_role

EXPLANATION = (
    "R-RECOVER over the ragged append sites (RaggedArray.append, RaggedArray.iterappend and the "
    "two-step RaggedArray._append): every call that may write values/ or indices/ data must lie inside "
    "a try whose catch-all handler commits both sub-arrays with counts of completed items, cuts both "
    "data files back to the committed sizes and re-raises. On this code base no such handler exists "
    "(design-level gap, recorded as known findings per construct). Decided in addition, because they "
    "are what keeps failures *before the first write* harmless while no recovery exists: in the append "
    "step the validating values write precedes the index-row write, the item's length is taken from "
    "the raw item before the first write, the index row is [start, start + that length], and the "
    "accumulators are increased only after both appenders returned.")
ASSUMPTIONS = [
    "not decided: actual failure offsets; index overflow for small index types (NumPy value behaviour)",
]


def step_params(step):
    """Parameters of the append step without the object it works on (self, or the first parameter when the step
    is a module-level function)."""
    return list(step.params[1:])


def find_step(ctx, appenders):
    """The ragged append step: a RaggedArray method that calls the Array
    appender on both sub-arrays."""
    c = ctx.repo.cls('RaggedArray')
    m = ctx.repo.module('raggedarray')
    # a method of RaggedArray or — when it was moved out of the class — a private module-level function of raggedarray.py
    cands = list(c.all_funcs()) + [f for f in m.funcs.values() if not f.is_public]
    for f in cands:
        roles = {}
        for n, cal in ctx.E.callees(f):
            if cal in appenders and cal.cls is not None and cal.cls.name == 'Array' and \
                    isinstance(n, ast.Call) and isinstance(n.func, ast.Attribute):
                r = subarray_role(ctx, n.func.value, f)
                if r:
                    roles.setdefault(r, []).append(n)
        if 'VALUESDIR' in roles and 'INDICESDIR' in roles:
            return f, roles
    raise AnalysisError('ragged append step (values + indices appender calls) not found')


def protected(f, node):
    """The enclosing try with a catch-all handler that does something (a handler whose whole body is a bare `raise` — and a
    try without finally — protects nothing: it is the same as no handler)."""
    for p, field in enclosing(f.node, node):
        if isinstance(p, ast.Try) and field == 'body' and any(is_catch_all(h) for h in p.handlers):
            noop = all(len(h.body) == 1 and isinstance(h.body[0], ast.Raise) and h.body[0].exc is None
                       for h in p.handlers if is_catch_all(h)) and not p.finalbody
            if noop:
                continue
            return p
    return None


def subarray_role_in_text(ctx, expr, f):
    for n in ast.walk(expr):
        if isinstance(n, ast.Attribute):
            r = subarray_role(ctx, n, f)
            if r in ('VALUESDIR', 'INDICESDIR'):
                return r
    return None


def handler_recovers(ctx, f, tr, committer):
    """Handler (or finally) commits both sub-arrays, resizes both files, re-raises."""
    for h in tr.handlers:
        if not is_catch_all(h):
            continue
        body = ast.Module(body=h.body, type_ignores=[])
        # the values file is cut back to a whole number of *items*: a byte count built from a row count needs the
        # number of items per row (atom) as a factor
        for e in ctx.E.primitives(f):
            if e.kind == 'RESIZE' and any(x is e.node for x in ast.walk(body)) and e.node.args:
                t = norm(e.node.args[-1])
                if 'itemsize' in t and subarray_role_in_text(ctx, e.node.args[-1], f) == 'VALUESDIR' and \
                        not any(k in t for k in ('atom', 'shape[1:]', '.size', '_size', 'nbytes', 'product(', 'prod(')):
                    return False, (f'the values file is cut to `{t}`: a row count times the item size, without the number '
                                   f'of items per row (atom) — for non-scalar atoms original data are cut off')
        if not always_raises(h.body):
            return False, 'handler does not re-raise'
        commits = set()
        for n, cal in ctx.E.callees(f):
            if cal is committer and any(x is n for x in ast.walk(body)) and isinstance(n.func, ast.Attribute):
                commits.add(subarray_role(ctx, n.func.value, f))
        resizes = [e for e in ctx.E.primitives(f) if e.kind == 'RESIZE' and any(x is e.node for x in ast.walk(body))]
        if not {'VALUESDIR', 'INDICESDIR'} <= commits:
            return False, f'handler commits {sorted(x for x in commits if x)} only'
        if len(resizes) < 2:
            return False, 'handler does not cut both data files back'
        return True, ''
    return False, 'no catch-all handler'


def run(ctx):
    from ._shared import ragged_opener_mode_agreement
    ragged_opener_mode_agreement(ctx, 'D2')
    from ._shared import no_escape_from_finally
    no_escape_from_finally(ctx, 'D1')   # a failing append raises: no clean-up swallows the exception in flight
    committer = find_committer(ctx)
    appenders = find_appenders(ctx)
    step, roles = find_step(ctx, appenders)
    ctx.info['append_step'] = step.qualname
    c = ctx.repo.cls('RaggedArray')
    # D1: callers of the step
    n = 0
    for f in list(c.all_funcs()) + list(ctx.repo.module('raggedarray').funcs.values()):
        for node, cal in ctx.E.callees(f):
            if cal is not step or not isinstance(node, ast.Call):
                continue
            n += 1
            in_loop = any(isinstance(p, (ast.For, ast.While)) for p, _ in enclosing(f.node, node))
            construct = f'{"loop-call" if in_loop else "call"}::<ragged-append-step>'
            inst = f'{f.qualname}: the ragged append step is protected by a handler that restores both sub-arrays'
            tr = protected(f, node)
            if tr is None:
                ctx.bad('R-RECOVER', 'D1', f, node, construct, inst,
                        detail='no recovering handler: a failure after the first write leaves both data files '
                               'longer than their descriptors; RaggedArray(path) then raises ValueError for ever')
            else:
                ok, why = handler_recovers(ctx, f, tr, committer)
                # a handler that is there but wrong is a different construct than "no handler at all" (known finding)
                ctx.decide(ok, 'R-RECOVER', 'D1', f, node, construct + '::handler', inst, detail=why)
    ctx.floor('C10 callers of the ragged append step', n, 1)
    # D1: second step of the two-file write
    vcalls, icalls = roles['VALUESDIR'], roles['INDICESDIR']
    for ic in icalls:
        tr = protected(step, ic)
        construct = 'second-step::indices-append'
        inst = f'{step.qualname}: a failing index-row write rolls the values write back'
        if tr is None:
            ctx.bad('R-RECOVER', 'D1', step, ic, construct, inst,
                    detail='values are written, then the index row; if the second write fails nothing removes '
                           'the values that were just appended', role_key='ragged-append-step')
        else:
            ctx.ok('R-RECOVER', 'D1', step, ic, construct, inst, role_key='ragged-append-step')
    values_before_index(ctx, step, vcalls, icalls, 'D2')
    # D2b: item length taken from the raw item before the first write; row = [start, start + n]
    params = step_params(step)
    item = params[0]
    length_before_first_write(ctx, step, vcalls, 'D2')
    for ic in icalls:
        row = ic.args[0] if ic.args else None
        if isinstance(row, ast.Name):
            # a local that holds the row literal
            from ..pathcond import inline as _inl
            row = _inl(step, row)
        good = False
        if isinstance(row, ast.List) and len(row.elts) == 1 and isinstance(row.elts[0], ast.List) and \
                len(row.elts[0].elts) == 2:
            s, e = row.elts[0].elts
            if isinstance(e, ast.BinOp) and isinstance(e.op, ast.Add):
                parts = {norm(e.left), norm(e.right)}
                sname = norm(s)
                if sname in parts:
                    other = (parts - {sname}).pop() if len(parts) == 2 else sname
                    # `other` must be the item length (len(item) directly or a name defined as such),
                    # or the count returned by the values appender
                    names = derived(step.node, ast.parse(other, mode='eval').body)
                    from_len = other == f'len({item})' or any(
                        norm(v) == f'len({item})' for nm in names for v, _ in defs_of(step.node, nm))
                    from_ret = any(isinstance(v, ast.Call) and v in vcalls for nm in names
                                   for v, _ in defs_of(step.node, nm))
                    good = from_len or from_ret
        ctx.decide(good, 'R-FLOW', 'D2', step, ic, 'index-row-shape',
                   f'{step.qualname}: the index row is [[start, start + length of the item just written]]',
                   detail=f'index row `{norm(row) if row is not None else None}` is not [start, start + item length]')
    # the checker used underneath neither promotes ranks nor truncates the shape comparison (shared with C09)
    from .C09 import d3_checker
    d3_checker(ctx, ctx.repo.cls('Array'), [a for a in appenders if a.cls is not None and a.cls.name == 'Array'])
    # D2c: accumulators in loop callers increased after the step returned
    for f in c.all_funcs():
        for node, cal in ctx.E.callees(f):
            if cal is step and isinstance(node, ast.Call) and \
                    any(isinstance(p, (ast.For, ast.While)) for p, _ in enclosing(f.node, node)):
                augs = [a for a in own_nodes(f.node) if isinstance(a, ast.AugAssign)]
                ok = bool(augs) and all(must_precede(f, a, [node]) for a in augs)
                ctx.decide(ok, 'R-FLOW', 'D2', f, node, 'count-after-both-writes',
                           f'{f.qualname}: the length accumulators are increased only after the two-step append returned',
                           detail='an item is counted before both of its writes completed')


def length_before_first_write(ctx, step, vcalls, clause):
    """len(item) is evaluated on the raw item before the values write: a bare number / 0-d item is refused (TypeError
    from len) before anything is written.  Shared with C04 (a refused append leaves the sequence unchanged)."""
    params = step_params(step)
    item = params[0]
    lens = [n for n in own_nodes(step.node) if isinstance(n, ast.Call) and dotted(n.func) == 'len'
            and n.args and norm(n.args[0]) == item]
    ok = bool(lens) and all(must_precede(step, v, lens) for v in vcalls)
    ctx.decide(ok, 'R-DOM', clause, step, lens[0] if lens else None, 'length-before-first-write',
               f'{step.qualname}: len({item}) is evaluated before the first write (unsized items are rejected '
               f'before anything is written)',
               detail='the item length is not taken from the raw item before the values write: a 0-d / unsized '
                      'item is written first and rejected afterwards, with no recovery')


def values_before_index(ctx, step, vcalls, icalls, clause):
    # the validating values write precedes the index-row write
    for ic in icalls:
        ctx.decide(must_precede(step, ic, vcalls), 'R-ORDER', clause, step, ic, 'values-before-index-row',
                   f'{step.qualname}: the values write (which validates atom shape and type) precedes the index-row write',
                   detail='the index row is written first: an item with the wrong atom or rank raises after the '
                          'indices file has already grown (array unopenable)')
