"""C12 — indexing follows NumPy semantics, as detached copies, durably."""
import ast

from ..rules import must_precede, GateAnalysis, ModeGate
from ..cfg import cfg_of
from ..astutil import dotted, get_arg, norm, enclosing, defs_of, assignments
from ..srcmodel import own_nodes, AnalysisError
from ..escape import (esc_obligations, pair_obligations, substitute_compat, find_opener,
                      map_yielders, with_blocks)

EXPLANATION = (
    "(D1) semantics by delegation: in Array.__getitem__/__setitem__ the subscript applied to the "
    "memory map and the stored value are the method's own parameters, unmodified (def-use "
    "identity); (D2) escape/taint analysis over every `with` block on a map-yielding context "
    "manager: names bound to the map and everything derived from them by view operations may "
    "leave the block (return / yield / attribute store / container insert) only through a copy "
    "or a scalar projection; the set of managers allowed to yield the raw map is frozen; (D3) "
    "acquire/release pairing: the opener's finally closes the mmap, closes the file, resets both "
    "cache attributes, yields inside the try, and every other open() of the package is a "
    "with-item or closed on all paths; memmap-only attributes are guarded because the opener may "
    "yield a plain ndarray for empty arrays; (D4) the write gate dominates the store; (D5) the "
    "public open_array/iterchunks contexts add nothing but holding the opener and forward the "
    "access mode verbatim with default None.")
ASSUMPTIONS = [
    "np.memmap indexing equals ndarray indexing; np.array(x, copy=True) / .copy() / .astype() detach from the map",
    "closing a shared writable mapping makes stores visible in the file (OS semantics)",
    "not decided: NumPy's indexing semantics themselves, msync durability, descriptor leaks under interleavings (C19)",
]


def run(ctx):
    c = ctx.repo.cls('Array')
    gi, si = c.methods.get('__getitem__'), c.methods.get('__setitem__')
    if gi is None or si is None:
        raise AnalysisError('Array.__getitem__/__setitem__ vanished')
    yielders = map_yielders(ctx)
    # D1: verbatim index / value
    for f, want_store in ((gi, False), (si, True)):
        blocks = [(w, seeds) for g, w, seeds in with_blocks(ctx, yielders) if g is f]
        if not blocks:
            ctx.bad('R-FLOW', 'D1', f, None, 'uses-opener', f'{f.qualname} indexes the memory map inside the opener context',
                    detail='no with-block on the opener')
            continue
        w, seeds = blocks[0]
        idxparam = [p for p in f.params if p != 'self'][0]
        subs = [n for n in own_nodes(f.node) if isinstance(n, ast.Subscript) and
                isinstance(n.value, ast.Name) and n.value.id in seeds and
                isinstance(n.ctx, ast.Store if want_store else ast.Load)]
        ok = bool(subs) and all(isinstance(s.slice, ast.Name) and s.slice.id == idxparam for s in subs) and \
            not defs_of(f.node, idxparam)
        ctx.decide(ok, 'R-FLOW', 'D1', f, subs[0] if subs else None, 'index-verbatim',
                   f'{f.qualname}: the subscript applied to the map is the `{idxparam}` parameter itself',
                   detail='the index is normalised/clamped/converted before it reaches NumPy, or the map is '
                          'not subscripted with it: results and exception classes are no longer NumPy\'s')
        if want_store:
            valparam = [p for p in f.params if p != 'self'][1]
            stores = [n for n in own_nodes(f.node) if isinstance(n, ast.Assign) and
                      any(s in n.targets for s in subs)]
            ok = bool(stores) and all(isinstance(s.value, ast.Name) and s.value.id == valparam for s in stores) \
                and not defs_of(f.node, valparam)
            ctx.decide(ok, 'R-FLOW', 'D1', f, stores[0] if stores else None, 'value-verbatim',
                       f'{f.qualname}: the stored value is the `{valparam}` parameter itself',
                       detail='the value is converted before assignment (NumPy would cast/broadcast itself)')
            # the assignment is unconditional: every completion that does not raise has stored the value (a "skip when
            # equal" shortcut compares with ==, under which -0.0 == 0.0 and 2**53+1 == float(2**53): what NumPy would
            # store differs from what is there)
            from ..pathcond import runs_under as _ru
            for s_ in stores:
                r_ = _ru(f, s_, lambda t: None)
                ctx.decide(r_ is True, 'R-POST', 'D1', f, s_, 'store-unconditional',
                           f'{f.qualname}: every normal completion has performed the assignment',
                           detail='a path reaches the normal exit without `map[index] = value` (a guard decides on the values '
                                  'whether to write): NumPy assignment is not applied for some inputs')
            # D4: write gate dominates the store
            GA = GateAnalysis(ctx, ModeGate())
            gates = GA.local_gates(f)
            cfg = cfg_of(f)
            for s in stores:
                ok = not cfg.can_reach(cfg.entry, cfg.node_for(s), avoid=set(gates))
                ctx.decide(ok, 'R-DOM', 'D4', f, s, 'write-gate',
                           f'{f.qualname}: the writeability check dominates the store',
                           detail='store reachable without check_arraywriteable')
            # D4b: the gate honours the mode of the *open context*: open_array(accessmode='r+') on a handle in mode 'r'
            # is the documented way to write, so with the handle mode 'r' and a writeable map the gate must let the store
            # through (path conditions: mode tests folded with 'r', writeable-flag tests with True)
            from ..rules import eval_mode_test, eval_writeable_test
            from ..pathcond import runs_under
            oa = ctx.repo.func('Array.open_array', required=False)
            if oa is not None and 'accessmode' in oa.params:
                def ft(t):
                    v = eval_writeable_test(t, True)
                    return v if v is not None else eval_mode_test(t, 'r')
                blocked = []
                for s_ in stores:
                    # interprocedural: the store itself and every gate function called before it
                    if runs_under(f, s_, ft) is False:
                        blocked.append('the store is unreachable')
                for node, cal in ctx.E.callees(f):
                    if cal.cls is f.cls and GA.is_gate_func(cal):
                        from ..pathcond import outcome_under
                        normal, raised = outcome_under(cal, ft)
                        if normal is False:
                            blocked.append(f'{cal.qualname} always raises')
                ctx.decide(not blocked, 'R-SIB', 'D4', f, stores[0] if stores else None, 'write-gate-honours-context-mode',
                           f'{f.qualname}: inside open_array(accessmode=\'r+\') the write gate lets the assignment through '
                           f'although the handle itself is in mode \'r\' (same result inside and outside a context)',
                           detail='with handle mode \'r\' and a writeable (r+) map ' + '; '.join(blocked) + ': the gate tests the '
                                  'handle\'s mode instead of the open map, so the documented per-context override raises OSError '
                                  'and nothing is written')
        else:
            # the value returned is a copy made inside the block (decided by R-ESC below).
            # Reads go through the memory map only: the file object the opener yields next to the map is not used by
            # __getitem__ — a read through the buffered file object does not see what was assigned through the map
            # (results then differ inside and outside an open_array() context)
            fdnames = set()
            for item in w.items:
                ov = item.optional_vars
                if isinstance(ov, ast.Tuple) and len(ov.elts) == 2 and isinstance(ov.elts[1], ast.Name):
                    fdnames.add(ov.elts[1].id)
            used = [n for n in own_nodes(f.node) if isinstance(n, ast.Name) and isinstance(n.ctx, ast.Load) and
                    n.id in fdnames and n.id != '_']
            ctx.decide(not used, 'R-FLOW', 'D1', f, used[0] if used else None, 'reads-through-map-only',
                       f'{f.qualname}: the file object yielded by the opener is not used (every read goes through the memory map)',
                       detail=f'`{used[0].id if used else ""}` (the open data file) is read or handed to a helper: data read through '
                              f'the buffered file object can be stale with respect to assignments made through the map in the '
                              f'same context')
    nblocks = esc_obligations(ctx, 'D2')
    ctx.floor('C12 with-blocks on map-yielding managers', nblocks, 10)
    pair_obligations(ctx, 'D3')
    nm = substitute_compat(ctx, 'D3')
    ctx.floor('C12 memmap-only attribute uses', nm, 1)
    d5_contexts(ctx)
    # a[idx] has the shape that is on disk now: the opener takes shape/dtype from a description re-read on every access
    from .C18 import arrayinfo_always_fresh
    arrayinfo_always_fresh(ctx, 'D1')


def d5_contexts(ctx):
    opener, mattr, fdattr = find_opener(ctx)
    for spec in ('Array.open_array', 'Array.iterchunks'):
        f = ctx.repo.func(spec)
        d = f.param_defaults().get('accessmode')
        ctx.decide(isinstance(d, ast.Constant) and d.value is None, 'R-TABLE', 'D5', f, d, 'accessmode-default-none',
                   f'{f.qualname}: accessmode defaults to None (inherit the handle\'s mode)',
                   detail=f'default is {norm(d) if d is not None else "absent"}: inside a plain context on an '
                          f'r+ array writes behave differently from outside')
        calls = [n for n, cal in ctx.E.callees(f) if cal is opener and isinstance(n, ast.Call)]
        ok = bool(calls)
        for c in calls:
            a = get_arg(c, 0, 'accessmode')
            ok = ok and isinstance(a, ast.Name) and a.id == 'accessmode' and not defs_of(f.node, 'accessmode')
        ctx.decide(ok, 'R-FLOW', 'D5', f, calls[0] if calls else None, 'accessmode-forwarded',
                   f'{f.qualname} forwards accessmode verbatim to the opener',
                   detail='the requested mode does not reach the opener unchanged')
    f = ctx.repo.func('Array.open_array')
    from ..effects import MUTATING
    eff = [e for e in ctx.E.primitives(f) if e.kind in MUTATING]
    ys = [n for n in own_nodes(f.node) if isinstance(n, ast.Yield)]
    ok = not eff and len(ys) == 1 and (ys[0].value is None or
                                       (isinstance(ys[0].value, ast.Constant) and ys[0].value.value is None))
    ctx.decide(ok, 'R-ESC', 'D5', f, ys[0] if ys else None, 'open_array-yields-none',
               'open_array only holds the opener and yields None (no map handed out)',
               detail='open_array yields something or performs effects of its own')
    from ._shared import opener_default_mode
    opener_default_mode(ctx, 'D5', opener)
