"""C02 — on-disk format is self-describing."""
import ast
from ..pathcond import inline, canon, find_defs, runs_under
import re

from ..rules import must_precede, must_follow
from ..cfg import cfg_of, always_raises
from ..astutil import dict_entries, dotted, get_arg, derived, norm, enclosing, names_in, defs_of, assignments
from ..srcmodel import own_nodes, AnalysisError, const_eval
from .C17 import find_committer, find_appenders, d2_data_owners
from .C20 import fold, _NoFold
from .C03 import d5_cache

EXPLANATION = (
    "(D1) descriptor key set: the dictionary asarray writes has exactly {numtype, byteorder, shape, "
    "arrayorder, darrversion, darrobject} (literal keys returned by arraynumtypeinfo plus the subscript "
    "stores in asarray); the reader's required keys and the keys arrayinfotodtype reads are a subset; "
    "(D2) the arrayorder written is 'C' on every path (value-set propagation through the 'F' repair "
    "branch; tofile always writes C order); (D3) closed set of functions that write/grow/resize the data "
    "file, each length-changing site followed on all normal exits by the committer (or the descriptor "
    "write at creation); (D4) the committer writes the same shape it stores, size derived from it; "
    "(D5) byte-order tables: arraynumtypeinfo is evaluated as a decision table over dtype.byteorder in "
    "{<,>,=,|} x sys.byteorder in {little,big} and compared with the reference, arrayinfotodtype's table "
    "is its inverse, numtype is dtype.name both ways, the 13 supported names equal the row labels of "
    "docs/readcode.rst; (D6) file names used by the code equal those the README text and docs/design.rst "
    "tell a third-party reader to look for; (D7) creation ends with README regeneration.")
ASSUMPTIONS = [
    "ndarray.tofile writes C order; np.dtype(name).newbyteorder('<'|'>') denotes little/big endian",
    "not decided: that the bytes decode to the API's values for an independent reader; size == prod(shape) x itemsize as a fact about files for all histories",
]

KEYS = {'numtype', 'byteorder', 'shape', 'arrayorder', 'darrversion', 'darrobject'}
NUMTYPES = ['int8', 'int16', 'int32', 'int64', 'uint8', 'uint16', 'uint32', 'uint64',
            'float16', 'float32', 'float64', 'complex64', 'complex128']


def run(ctx):
    d1_keys(ctx)
    from .C01 import type_gate_dominates
    type_gate_dominates(ctx, 'D3')    # a refused overwrite leaves no 0-byte data file next to the old description
    d2_arrayorder(ctx)
    committer = find_committer(ctx)
    appenders = find_appenders(ctx)
    d2_data_owners(ctx, committer, appenders)         # D3 owners
    d3_commit_follows(ctx, committer, appenders)
    from ._shared import reset_handler_protects_write_only
    ctx.floor('handlers that empty the data file', reset_handler_protects_write_only(ctx, 'D3', committer), 1)
    from .C17 import truncate_commit_matches_resize
    truncate_commit_matches_resize(ctx, 'D3', committer)
    # a failed append leaves file length == descriptor length: recovery handler (shared with C09)
    from .C09 import recover
    c = ctx.repo.cls('Array')
    f = c.methods['iterappend']
    arr_app = [a for a in appenders if a.cls is c]
    for n, cal in ctx.E.callees(f):
        if cal in arr_app and isinstance(n, ast.Call):
            recover(ctx, f, c, n, f'appender call {norm(n.func)}', committer, arr_app)
    for e in ctx.E.primitives(f):
        if e.kind == 'WRITE-PATH':
            recover(ctx, f, c, e.node, f'{e.kind} {norm(e.node)[:40]}', committer, arr_app)
    d5_cache(ctx, ctx.repo.cls('Array'), committer)   # D4
    d4_rewrite_keeps_keys(ctx)
    from ._shared import inplace_rewrites_truncate
    inplace_rewrites_truncate(ctx, 'D4')
    d4_reader_returns_whole_descriptor(ctx)
    from ._shared import opener_branch_agreement
    opener_branch_agreement(ctx, 'D5')
    d5_tables(ctx)
    d6_names(ctx)
    d7_readme(ctx)


def d4_rewrite_keeps_keys(ctx):
    ui = ctx.repo.func('Array._update_arrayinfo')
    wr = [n for n, cal in ctx.E.callees(ui) if cal.qualname == 'DataDir._write_jsondict' and isinstance(n, ast.Call)]
    if not wr:
        raise AnalysisError('_update_arrayinfo no longer writes the descriptor')
    d = get_arg(wr[0], 1, 'd')
    src = d
    if isinstance(d, ast.Name):
        ds = [v for v, st in defs_of(ui.node, d.id) if isinstance(st, ast.Assign)]
        src = ds[0] if len(ds) == 1 else None
    construct = 'rewrite-keeps-keys'
    inst = f'_update_arrayinfo rewrites the whole re-read descriptor (all of {sorted(KEYS)} survive an append/truncate)'
    if src is None:
        ctx.assume('R-TABLE', 'D1', ui, wr[0], construct, inst, detail='written dictionary has several definitions')
    elif norm(src) in ('self._arrayinfo', 'dict(self._arrayinfo)', 'self._arrayinfo.copy()', 'self._read_arraydescr()'):
        ctx.ok('R-TABLE', 'D1', ui, wr[0], construct, inst)
    elif isinstance(src, ast.DictComp):
        keep = None
        for c in ast.walk(src):
            if isinstance(c, ast.Compare) and isinstance(c.ops[0], ast.In):
                r = c.comparators[0]
                try:
                    keep = set(ast.literal_eval(r))
                except Exception:
                    if isinstance(r, ast.Name):
                        for v, _ in defs_of(ui.node, r.id):
                            try:
                                keep = set(ast.literal_eval(v))
                            except Exception:
                                pass
            if isinstance(c, ast.Compare) and isinstance(c.ops[0], ast.NotIn):
                keep = 'blacklist'
        if keep == 'blacklist':
            ctx.assume('R-TABLE', 'D1', ui, wr[0], construct, inst, detail='keys filtered by a blacklist')
        elif keep is None:
            ctx.assume('R-TABLE', 'D1', ui, wr[0], construct, inst, detail='filter not evaluable')
        else:
            ctx.decide(KEYS - {'shape'} <= keep | {'shape'} and KEYS <= keep | {'shape'}, 'R-TABLE', 'D1', ui, wr[0], construct, inst,
                       detail=f'the rewrite keeps only {sorted(keep)}: {sorted(KEYS - keep)} vanish from arraydescription.json '
                              f'after the first append/truncate')
    else:
        ctx.assume('R-TABLE', 'D1', ui, wr[0], construct, inst, detail=f'written dictionary is `{norm(src)[:50]}`')


def _binds_name(st, name):
    if isinstance(st, ast.Assign):
        return any(isinstance(t, ast.Name) and t.id == name for t in st.targets)
    if isinstance(st, ast.AnnAssign):
        return isinstance(st.target, ast.Name) and st.target.id == name
    return False


def _dict_provenance(ctx, func, expr, source_call, depth=0):
    """What a returned dictionary is, relative to the dictionary `source_call` produced:
    ('whole', None) the object itself or a full copy; ('subset', keys) a projection on literal keys; ('unknown', why)."""
    if depth > 5 or expr is None:
        return ('unknown', 'too deep')
    if expr is source_call:
        return ('whole', None)
    if isinstance(expr, ast.Name):
        if expr.id in func.params and source_call is None:
            return ('whole', None)
        ds = [v for v, st in defs_of(func.node, expr.id) if _binds_name(st, expr.id)]
        if not ds:
            return ('unknown', f'`{expr.id}` has no definition')
        res = [_dict_provenance(ctx, func, v, source_call, depth + 1) for v in ds]
        if all(r[0] == 'whole' for r in res):
            return ('whole', None)
        sub = [r for r in res if r[0] == 'subset']
        if sub:
            return sub[0]
        return res[0]
    if isinstance(expr, ast.Call):
        d = dotted(expr.func) or ''
        if d in ('dict', 'copy.copy', 'copy.deepcopy') and len(expr.args) == 1 and not expr.keywords:
            return _dict_provenance(ctx, func, expr.args[0], source_call, depth + 1)
        if isinstance(expr.func, ast.Attribute) and expr.func.attr == 'copy' and not expr.args:
            return _dict_provenance(ctx, func, expr.func.value, source_call, depth + 1)
        tg = [t for k, t in ctx.R.resolve_call(expr, func) if k == 'repo']
        if len(tg) == 1 and expr.args:
            callee = tg[0]
            ps = [p_ for p_ in callee.params if p_ != 'self']
            inner = _dict_provenance(ctx, func, expr.args[0], source_call, depth + 1)
            if inner[0] != 'whole' or not ps:
                return inner
            rets = [r.value for r in own_nodes(callee.node) if isinstance(r, ast.Return)]
            res = []
            for r in rets:
                res.append(_param_provenance(ctx, callee, r, ps[0], depth + 1))
            if res and all(r[0] == 'whole' for r in res):
                return ('whole', None)
            sub = [r for r in res if r[0] == 'subset']
            return sub[0] if sub else (res[0] if res else ('unknown', 'helper returns nothing'))
        return ('unknown', f'`{norm(expr)[:40]}`')
    if isinstance(expr, ast.Dict) and any(k is None for k in expr.keys):
        stars = [v for k, v in zip(expr.keys, expr.values) if k is None]
        return _dict_provenance(ctx, func, stars[0], source_call, depth + 1)
    if isinstance(expr, (ast.DictComp, ast.Dict)):
        return ('subset', _literal_keys(func, expr))
    return ('unknown', f'`{norm(expr)[:40]}`')


def _param_provenance(ctx, func, expr, param, depth):
    """Same question inside a helper, relative to its parameter."""
    if isinstance(expr, ast.Name) and expr.id == param and not [1 for v, st in defs_of(func.node, param)
                                                                if _binds_name(st, param)]:
        return ('whole', None)
    if isinstance(expr, ast.Name):
        ds = [v for v, st in defs_of(func.node, expr.id) if _binds_name(st, expr.id)]
        res = [_param_provenance(ctx, func, v, param, depth + 1) for v in ds] if depth < 6 else []
        if res and all(r[0] == 'whole' for r in res):
            return ('whole', None)
        sub = [r for r in res if r[0] == 'subset']
        return sub[0] if sub else (res[0] if res else ('unknown', f'`{expr.id}`'))
    if isinstance(expr, ast.Call):
        d = dotted(expr.func) or ''
        if d in ('dict', 'copy.copy', 'copy.deepcopy') and len(expr.args) == 1 and not expr.keywords:
            return _param_provenance(ctx, func, expr.args[0], param, depth + 1)
        if isinstance(expr.func, ast.Attribute) and expr.func.attr == 'copy' and not expr.args:
            return _param_provenance(ctx, func, expr.func.value, param, depth + 1)
    if isinstance(expr, ast.Dict) and any(k is None for k in expr.keys):
        stars = [v for k, v in zip(expr.keys, expr.values) if k is None]
        return _param_provenance(ctx, func, stars[0], param, depth + 1)
    if isinstance(expr, (ast.DictComp, ast.Dict)):
        return ('subset', _literal_keys(func, expr))
    return ('unknown', f'`{norm(expr)[:40]}`')


def _literal_keys(func, expr):
    if isinstance(expr, ast.Dict):
        return {k.value for k in expr.keys if isinstance(k, ast.Constant)}
    it = expr.generators[0].iter if expr.generators else None
    from ..pathcond import inline as _inl
    try:
        return set(ast.literal_eval(_inl(func, it)))
    except Exception:
        return None


def d4_reader_returns_whole_descriptor(ctx):
    """`_update_arrayinfo` writes back what the descriptor reader returned: the reader must hand out the dictionary that
    was parsed from the file (itself or a full copy, keys may be added or normalised), not a projection on the keys the
    class happens to need — otherwise the first append/truncate drops the other keys from arraydescription.json."""
    A = ctx.repo.cls('Array')
    readers = []
    for f in A.all_funcs():
        for n, cal in ctx.E.callees(f):
            if cal.qualname == 'DataDir.read_jsondict' and isinstance(n, ast.Call):
                readers.append((f, n))
    if len(readers) != 1:
        raise AnalysisError(f'descriptor reader not identifiable: {[f.qualname for f, _ in readers]}')
    f, call = readers[0]
    rets = [r.value for r in own_nodes(f.node) if isinstance(r, ast.Return) and r.value is not None]
    inst = f'{f.qualname} returns the dictionary parsed from the file (all keys, {sorted(KEYS)} included)'
    for r in rets:
        kind, info = _dict_provenance(ctx, f, r, call)
        if kind == 'whole':
            ctx.ok('R-TABLE', 'D1', f, r, 'reader-returns-whole-descriptor', inst)
        elif kind == 'subset' and info is not None:
            ctx.decide(KEYS <= set(info), 'R-TABLE', 'D1', f, r, 'reader-returns-whole-descriptor', inst,
                       detail=f'the reader returns a projection on {sorted(info)}: {sorted(KEYS - set(info))} are dropped, and '
                              f'_update_arrayinfo writes this dictionary back — after the first append/truncate '
                              f'arraydescription.json no longer carries them')
        else:
            ctx.assume('R-TABLE', 'D1', f, r, 'reader-returns-whole-descriptor', inst, detail=f'provenance not understood: {info}')


def _return_dict(func):
    """The dictionary a function returns, as an ast.Dict: a literal, a dict(k=v) call, or a local built up by
    literal / subscript stores / update() (synthesised)."""
    for n in own_nodes(func.node):
        if isinstance(n, ast.Return) and n.value is not None:
            v = n.value
            if isinstance(v, ast.Dict):
                return v
            if isinstance(v, ast.Call) and dotted(v.func) == 'dict' and not v.args:
                return ast.Dict(keys=[ast.Constant(value=k.arg) for k in v.keywords if k.arg],
                                values=[k.value for k in v.keywords if k.arg])
            if isinstance(v, ast.Name):
                ent = dict_entries(func.node, v.id)
                if ent:
                    return ast.Dict(keys=[ast.Constant(value=k) for k in ent], values=list(ent.values()))
    return None


def d1_keys(ctx):
    nt = ctx.repo.func('numtype.arraynumtypeinfo')
    rd = _return_dict(nt)
    if rd is None:
        raise AnalysisError('arraynumtypeinfo no longer returns a dict literal')
    keys = {k.value for k in rd.keys if isinstance(k, ast.Constant)}
    f = ctx.repo.func('array.asarray')
    dvar = None
    for n in own_nodes(f.node):
        if isinstance(n, ast.Assign) and isinstance(n.value, ast.Call) and \
                any(t is nt for k, t in ctx.R.resolve_call(n.value, f) if k == 'repo'):
            dvar = norm(n.targets[0])
    # subscript stores, .update(k=v) / .update({...}) calls and literal entries alike
    stores = dict_entries(f.node, dvar) if dvar else {}
    written = keys | set(stores)
    ctx.decide(dvar is not None and written == KEYS, 'R-TABLE', 'D1', f, None, 'descriptor-keys',
               f'asarray writes a descriptor with exactly the keys {sorted(KEYS)}',
               detail=f'keys written: {sorted(written)}')
    v = stores.get('darrobject')
    ctx.decide(isinstance(v, ast.Constant) and v.value == 'Array', 'R-TABLE', 'D1', f, v, 'darrobject', "darrobject == 'Array'",
               detail=f'darrobject is {norm(v) if v is not None else None}')
    v = stores.get('darrversion')
    ctx.decide(v is not None and norm(v) in ('Array._formatversion',), 'R-TABLE', 'D1', f, v, 'darrversion',
               'darrversion is the library format version', detail=f'{norm(v) if v is not None else None}')
    # the dict that is written is that variable, to the descriptor file
    wr = [n for n, cal in ctx.E.callees(f) if cal.qualname == 'DataDir._write_jsondict' and isinstance(n, ast.Call)
          and ctx.E._name_of(get_arg(n, 0, 'filename'), f) == ('lit', 'arraydescription.json')]
    ok = len(wr) == 1 and norm(get_arg(wr[0], 1, 'd')) == dvar
    ctx.decide(ok, 'R-FLOW', 'D1', f, wr[0] if wr else None, 'writes-that-dict',
               'asarray writes that dictionary to arraydescription.json', detail='descriptor written from another object')
    # readers use a subset
    rk = None
    rdr = ctx.repo.func('Array._read_arraydescr')
    # the value handed to the JSON reader as `requiredkeys=` (keyword of the public DataDir API), local inlined
    for n in own_nodes(rdr.node):
        if isinstance(n, ast.Call):
            a = get_arg(n, None, 'requiredkeys')
            if a is not None:
                try:
                    rk = set(const_eval(inline(rdr, a), {}))
                except (ValueError, TypeError):
                    pass
    ctx.decide(rk is not None and rk <= KEYS, 'R-TABLE', 'D1', rdr, None, 'required-subset',
               f'the reader requires a subset of the written keys ({sorted(rk) if rk else rk})', detail='reader requires a key that is never written')
    td = ctx.repo.func('numtype.arrayinfotodtype')
    used = {n.slice.value for n in own_nodes(td.node) if isinstance(n, ast.Subscript) and isinstance(n.slice, ast.Constant)
            and isinstance(n.slice.value, str) and norm(n.value) == td.params[0]}
    ctx.decide(used <= KEYS and {'numtype', 'byteorder'} <= used, 'R-TABLE', 'D1', td, None, 'dtype-keys',
               f'arrayinfotodtype reads {sorted(used)} (written keys)', detail='dtype reconstruction reads keys that are not written')
    # shape written: list(firstchunk.shape) with [0] = accumulated length
    v = stores.get('shape')
    ok = False
    if isinstance(v, ast.Name):
        ds = [x for x, _ in defs_of(f.node, v.id)]
        sub0 = [n for n in own_nodes(f.node) if isinstance(n, ast.Assign) and isinstance(n.targets[0], ast.Subscript)
                and norm(n.targets[0].value) == v.id and isinstance(n.targets[0].slice, ast.Constant) and n.targets[0].slice.value == 0]
        ok = any('.shape' in norm(x) for x in ds) and len(sub0) == 1
        if not ok:
            # built in one go from the accumulator and the first chunk's trailing extents
            ok = any(isinstance(x, (ast.BinOp, ast.Tuple, ast.List)) and '.shape[1:]' in norm(x) and
                     any(isinstance(y, ast.Name) and any(isinstance(st_, ast.AugAssign) for _, st_ in defs_of(f.node, y.id))
                         for y in ast.walk(x)) for x in ds)
    ctx.decide(ok, 'R-FLOW', 'D1', f, v, 'shape-written',
               'the shape written is the first chunk\'s shape with the first extent replaced by the accumulated length',
               detail='descriptor shape is the chunk shape (first extent not replaced) or unrelated')


def d2_arrayorder(ctx):
    nt = ctx.repo.func('numtype.arraynumtypeinfo')
    rd = _return_dict(nt)
    vals = set()
    for k, v in zip(rd.keys, rd.values):
        if isinstance(k, ast.Constant) and k.value == 'arrayorder':
            if isinstance(v, ast.IfExp) and isinstance(v.body, ast.Constant) and isinstance(v.orelse, ast.Constant):
                vals = {v.body.value, v.orelse.value}
            elif isinstance(v, ast.Constant):
                vals = {v.value}
    f = ctx.repo.func('array.asarray')
    out = set(vals)
    for n in own_nodes(f.node):
        if isinstance(n, ast.If) and isinstance(n.test, ast.Compare) and "['arrayorder']" in norm(n.test.left) and \
                isinstance(n.test.ops[0], ast.Eq) and isinstance(n.test.comparators[0], ast.Constant):
            x = n.test.comparators[0].value
            for st in n.body:
                if isinstance(st, ast.Assign) and "['arrayorder']" in norm(st.targets[0]) and isinstance(st.value, ast.Constant):
                    out.discard(x)
                    out.add(st.value.value)
    for n in own_nodes(f.node):
        if isinstance(n, ast.Assign) and "['arrayorder']" in norm(n.targets[0]) and isinstance(n.value, ast.Constant) and \
                not any(isinstance(p, ast.If) for p, _ in enclosing(f.node, n)):
            out = {n.value.value}
    ctx.decide(bool(vals) and out == {'C'}, 'R-TABLE', 'D2', f, None, 'arrayorder-written',
               f"the arrayorder written by asarray is 'C' on every path (value set {sorted(out)}; tofile writes C order)",
               detail=f'arrayorder may be written as {sorted(out)} while the bytes are always in C order: third-party readers '
                      f'(and Darr itself) would transpose the data')


def d3_commit_follows(ctx, committer, appenders):
    n = 0
    for f in ctx.repo.all_funcs():
        if f in appenders:
            continue
        sites = []
        for node, cal in ctx.E.callees(f):
            if cal in appenders and isinstance(node, ast.Call):
                sites.append(node)
        for e in ctx.E.primitives(f):
            if e.kind in ('WRITE-PATH', 'RESIZE') and (e.role == 'DATA' or e.kind == 'WRITE-PATH'):
                if any(isinstance(p, ast.ExceptHandler) for p, _ in enclosing(f.node, e.node)):
                    continue
                sites.append(e.node)
        if not sites or f.qualname == 'asarray':
            continue
        commits = [node for node, cal in ctx.E.callees(f) if cal is committer]
        for s in sites:
            n += 1
            ctx.decide(bool(commits) and must_follow(f, s, commits), 'R-POST', 'D3', f, s,
                       f'commit-after::{norm(s.func)}',
                       f'{f.qualname}: the length commit (descriptor + handle) follows `{norm(s)[:40]}` on every normal path',
                       detail='the data file changes length but a path reaches the normal exit without rewriting the '
                              'descriptor: file length != prod(shape) x itemsize')
    ctx.floor('C02 length-changing sites outside the appender', n, 4)
    f = ctx.repo.func('array.asarray')
    wr = [node for node, cal in ctx.E.callees(f) if cal.qualname == 'DataDir._write_jsondict']
    for e in ctx.E.primitives(f):
        if e.kind == 'WRITE-HANDLE':
            ctx.decide(bool(wr) and must_follow(f, e.node, wr), 'R-POST', 'D3', f, e.node, 'descriptor-after-data',
                       'asarray: the descriptor write follows the data writes', detail='data written without descriptor')


def d5_tables(ctx):
    nt = ctx.repo.func('numtype.arraynumtypeinfo')
    # straight-line abstract evaluation of the byte-order decision
    cells, wrong = 0, []
    for bo in ('<', '>', '=', '|'):
        for sysbo in ('little', 'big'):
            env = {k: v for k, v in nt.module.consts.items() if isinstance(v, (str, int, tuple, list, frozenset, set, dict))}
            env.update({'sys.byteorder': sysbo, 'ndarray.dtype.byteorder': bo})
            param = nt.params[0]
            env[f'{param}.dtype.byteorder'] = bo
            try:
                res = _eval_straightline(nt.node.body, env)
            except _NoFold:
                res = None
            expected = {'<': 'little', '>': 'big'}.get(bo, sysbo)
            cells += 1
            if res != expected:
                wrong.append(f'dtype.byteorder={bo!r} on a {sysbo}-endian host: labelled {res!r}, must be {expected!r}')
    ctx.decide(not wrong, 'R-TABLE', 'D5', nt, None, 'byteorder-decision-table',
               f'arraynumtypeinfo labels the byte order correctly in all {cells} cells of dtype.byteorder x sys.byteorder',
               detail='; '.join(wrong[:3]), witness=wrong)
    rd = _return_dict(nt)
    kv = {k.value: norm(v) for k, v in zip(rd.keys, rd.values) if isinstance(k, ast.Constant)}
    p = nt.params[0]
    ctx.decide(kv.get('numtype') == f'{p}.dtype.name', 'R-TABLE', 'D5', nt, None, 'numtype-is-dtype-name',
               'numtype written is dtype.name', detail=f"numtype = {kv.get('numtype')}")
    ctx.decide(kv.get('shape') == f'{p}.shape', 'R-TABLE', 'D5', nt, None, 'shape-is-shape', 'shape is ndarray.shape',
               detail=f"shape = {kv.get('shape')}")
    td = ctx.repo.func('numtype.arrayinfotodtype')
    tab = key = None
    p0 = td.params[0]
    def _littab(v):
        if isinstance(v, ast.Dict):
            return ast.literal_eval(v)
        if isinstance(v, ast.Call) and dotted(v.func) == 'dict' and not v.args:
            return {k.arg: ast.literal_eval(k.value) for k in v.keywords}
        raise ValueError
    for n in own_nodes(td.node):
        if isinstance(n, ast.Subscript):
            try:
                tab = _littab(inline(td, n.value))
                key = canon(td, n.slice)
            except Exception:
                pass
    ctx.decide(tab == {'big': '>', 'little': '<'} and key == f"{p0}['byteorder']", 'R-TABLE', 'D5', td, None, 'byteorder-inverse-table',
               "arrayinfotodtype maps {'little': '<', 'big': '>'} (inverse of the writer's labels), indexed by the stored byteorder",
               detail=f'table is {tab}, indexed by {key}')
    ret = [n for n in own_nodes(td.node) if isinstance(n, ast.Return)]
    # locals inlined: the result is np.dtype(<stored numtype>).newbyteorder(<table>[<stored byteorder>]).str
    rv = inline(td, ret[-1].value) if ret else None
    ok = False
    if isinstance(rv, ast.Attribute) and rv.attr == 'str' and isinstance(rv.value, ast.Call) and \
            isinstance(rv.value.func, ast.Attribute) and rv.value.func.attr == 'newbyteorder' and len(rv.value.args) == 1:
        base, bo = rv.value.func.value, rv.value.args[0]
        ok = isinstance(base, ast.Call) and dotted(base.func) in ('np.dtype', 'numpy.dtype') and len(base.args) == 1 and \
            norm(base.args[0]) == f"{p0}['numtype']" and isinstance(bo, ast.Subscript) and \
            (isinstance(bo.value, ast.Dict) or (isinstance(bo.value, ast.Call) and dotted(bo.value.func) == 'dict')) and \
            norm(bo.slice) == f"{p0}['byteorder']"
    ctx.decide(ok, 'R-TABLE', 'D5', td, ret[-1] if ret else None, 'dtype-reconstruction',
               'the dtype is rebuilt as np.dtype(<stored numtype>).newbyteorder(<table>[<stored byteorder>]).str', detail=f'{norm(rv) if rv is not None else None}')
    # names
    m = ctx.repo.module('numtype')
    names = m.consts.get('numtypesdescr')
    ok = isinstance(names, dict) and list(names) == NUMTYPES or (isinstance(names, dict) and set(names) == set(NUMTYPES))
    ctx.decide(ok, 'R-TABLE', 'D5', nt, None, 'supported-types', 'numtypesdescr lists exactly the 13 supported numeric types',
               detail=f'{sorted(names) if isinstance(names, dict) else names}')
    doc = ctx.repo.docs.get('docs/readcode.rst')
    if doc is None:
        raise AnalysisError('docs/readcode.rst vanished')
    rows = re.findall(r'^\|\s*((?:u?int|float|complex)\d+)\s*\|', doc[0], re.M)
    ctx.decide(set(rows) == set(NUMTYPES), 'R-TABLE', 'D5', nt, None, 'docs-rows',
               'the type rows of docs/readcode.rst are the 13 supported names', detail=f'rows {sorted(set(rows))}')


class _Unknown:
    def __repr__(self):
        return '<unknown>'


_UNK = _Unknown()


def _eval_straightline(stmts, env):
    """Abstract evaluation of a small function body over constants: assignments (unfoldable values become
    <unknown>), dictionary literals / subscript stores / update(), ifs with foldable tests, asserts, expression
    statements.  Returns the 'byteorder' entry of the returned dictionary; raises _NoFold when that entry (or a
    test it depends on) is unknown."""
    env = dict(env)
    dicts = {}

    def val(e):
        try:
            v = fold(e, {k: x for k, x in env.items() if x is not _UNK})
            return v
        except Exception:
            return _UNK

    def dictval(e):
        if isinstance(e, ast.Dict):
            return {k.value: val(v) for k, v in zip(e.keys, e.values) if isinstance(k, ast.Constant)}
        if isinstance(e, ast.Call) and dotted(e.func) == 'dict' and not e.args:
            return {k.arg: val(k.value) for k in e.keywords if k.arg}
        return None

    def run(body):
        for st in body:
            if isinstance(st, (ast.Expr, ast.Assert, ast.Pass)):
                if isinstance(st, ast.Expr) and isinstance(st.value, ast.Call) and isinstance(st.value.func, ast.Attribute) \
                        and st.value.func.attr == 'update' and isinstance(st.value.func.value, ast.Name) \
                        and st.value.func.value.id in dicts:
                    d = dicts[st.value.func.value.id]
                    if st.value.args:
                        d.update(dictval(st.value.args[0]) or {})
                    for k in st.value.keywords:
                        if k.arg:
                            d[k.arg] = val(k.value)
                continue
            if isinstance(st, (ast.Assign, ast.AnnAssign)):
                tgt = st.targets[0] if isinstance(st, ast.Assign) else st.target
                if st.value is None:
                    continue
                if isinstance(tgt, ast.Name):
                    dv = dictval(st.value)
                    if dv is not None:
                        dicts[tgt.id] = dv
                        env[tgt.id] = _UNK
                    else:
                        env[tgt.id] = val(st.value)
                elif isinstance(tgt, ast.Subscript) and isinstance(tgt.value, ast.Name) and tgt.value.id in dicts and \
                        isinstance(tgt.slice, ast.Constant):
                    dicts[tgt.value.id][tgt.slice.value] = val(st.value)
                continue
            if isinstance(st, ast.If):
                t = val(st.test)
                if t is _UNK:
                    raise _NoFold
                r = run(st.body if t else st.orelse)
                if r is not None:
                    return r
                continue
            if isinstance(st, ast.Return):
                d = dictval(st.value) if st.value is not None else None
                if d is None and isinstance(st.value, ast.Name):
                    d = dicts.get(st.value.id)
                if d is None or 'byteorder' not in d or d['byteorder'] is _UNK:
                    raise _NoFold
                return ('ret', d['byteorder'])
            raise _NoFold
        return None
    r = run(stmts)
    if r is None:
        raise _NoFold
    return r[1]


def d6_names(ctx):
    A = ctx.repo.cls('Array')
    want = {'_datafilename': 'arrayvalues.bin', '_arraydescrfilename': 'arraydescription.json',
            '_metadatafilename': 'metadata.json', '_readmefilename': 'README.txt'}
    vals = {k: A.consts.get(k) for k in want}
    ctx.decide(set(vals.values()) == set(want.values()), 'R-TABLE', 'D6', A.methods['__init__'], None, 'file-names',
               f'Array uses the documented file names {sorted(want.values())}', detail=f'{vals}')
    nd = ctx.repo.func('array.numtypedescriptiontxt')
    txt = ' '.join(n.value for n in own_nodes(nd.node) if isinstance(n, ast.Constant) and isinstance(n.value, str))
    for name in ('arrayvalues.bin', 'arraydescription.json', 'metadata.json'):
        ctx.decide(f"'{name}'" in txt and name in A.consts.values(), 'R-TABLE', 'D6', nd, None, f'readme-names::{name}',
                   f'the README text names {name!r}, the name the code uses', detail='README names a file the code does not write')
    doc = ctx.repo.docs.get('docs/design.rst')
    if doc is not None:
        for name in want.values():
            ctx.decide(f"'{name}'" in doc[0], 'R-TABLE', 'D6', nd, None, f'design-doc-names::{name}',
                       f'docs/design.rst names {name!r}', detail='design document names another file')
    # data path / descriptor path are built from those constants
    for a, const in (('_datapath', '_datafilename'), ('_arraydescrpath', '_arraydescrfilename')):
        v = A.init_attr_exprs.get(a)
        ctx.decide(v is not None and const in norm(v), 'R-FLOW', 'D6', A.methods['__init__'], v, f'path::{a}',
                   f'Array.{a} is built from {const}', detail=f'{norm(v) if v is not None else None}')


def d7_readme(ctx):
    f = ctx.repo.func('array.asarray')
    regen = ctx.repo.func('Array._update_readmetxt')
    calls = [n for n, cal in ctx.E.callees(f) if cal is regen]
    rets = [n for n in own_nodes(f.node) if isinstance(n, ast.Return)]
    ok = bool(calls) and all(must_precede(f, r, calls) for r in rets)
    ctx.decide(ok, 'R-POST', 'D7', f, calls[0] if calls else None, 'creation-ends-with-readme',
               'asarray regenerates README.txt before returning', detail='an array can be created without README.txt')
