"""C01 — creation round-trips values, dtype, byte order and shape."""
import ast

from ..rules import must_precede, must_follow, GateAnalysis, chain_text
from ..cfg import cfg_of, always_raises
from ..effects import MUTATING
from ..astutil import dotted, get_arg, derived, norm, enclosing, names_in, defs_of, assignments
from ..srcmodel import own_nodes, AnalysisError
from ._shared import PredGate
from .C02 import d5_tables, d1_keys, d2_arrayorder
from .C16 import _mut_site

EXPLANATION = (
    "(D1) the supported-type gate (raise TypeError when the first chunk's dtype name is not in the "
    "table of 13 types) dominates every file-system effect reachable from asarray (interprocedural gate "
    "analysis), and the delegating creators have no effect of their own before delegating; (D2) every "
    "array written to the data file is the first chunk or `<chunk>.astype(dtype)` with dtype bound to the "
    "first chunk's dtype; (D3) every chunk producer of _archunkgenerator converts with a None-preserving "
    "constructor that receives the caller's dtype (np.asarray / np.array(..., dtype=dtype)) — a sibling "
    "rule over all yields; asarray hands its dtype and chunklen to the generator; (D4) length accounting: "
    "each write in the creation loop is paired with `acc += <same chunk>.shape[0]`, the descriptor's first "
    "extent is that accumulator and the other fields come from the first chunk; (D5) writer/reader "
    "byte-order tables (decision table evaluation, shared with C02).")
ASSUMPTIONS = [
    "NumPy casting/conversion semantics of np.asarray / astype / tofile",
    "not decided: equality of element bit patterns with the NumPy reference; chunklen-invariance; the fill-function index grid",
]


def _closure_text(func, expr):
    seen, out, work = set(), [norm(expr)], [expr]
    while work:
        e = work.pop()
        for nm in names_in(e):
            if nm in seen:
                continue
            seen.add(nm)
            for v, st in defs_of(func.node, nm):
                out.append(norm(v))
                work.append(v)
    return ' ; '.join(out)


def is_type_gate(test, func, raising_when_true):
    t = _closure_text(func, test)
    if 'numtypesdescr' not in t or '.dtype.name' not in t:
        return False
    return any(isinstance(o, ast.NotIn) == raising_when_true for c in ast.walk(test) if isinstance(c, ast.Compare)
               for o in c.ops if isinstance(o, (ast.In, ast.NotIn)))


def type_gate_dominates(ctx, clause):
    """asarray: the supported-type gate dominates every reachable file-system effect.  Shared with C02: a refused
    (re-)creation must not leave a truncated data file next to the previous description."""
    f = ctx.repo.func('array.asarray')
    GA = GateAnalysis(ctx, PredGate('supported-type gate', is_type_gate, {'TypeError'}))
    sites = GA.gated_sites(f, _mut_site)
    ung = GA.ungated(f, _mut_site)
    ctx.floor('effect sites under asarray', len(sites), 4)
    ctx.decide(bool(GA.local_gates(f)) and not ung, 'R-DOM', clause, f, None, 'type-gate-dominates',
               f'asarray: the supported-type gate dominates all {len(sites)} reachable file-system effects',
               detail='an unsupported element type is rejected only after something was created on disk: ' +
                      '; '.join(f'{e.describe()} via {chain_text(ch)}' for ch, e in ung[:2]))


def run(ctx):
    f = ctx.repo.func('array.asarray')
    gen = ctx.repo.func('array._archunkgenerator')
    # an empty source (Darr array or sequence) keeps its dtype and trailing shape: shared with C15
    from .C15 import chunk_generator_rules
    chunk_generator_rules(ctx, 'D3', 'D3')
    # seen identically through a freshly opened handle: the opener's two branches (memmap / empty-array substitute)
    # use the stored dtype, byte order included (shared with C02/C03/C04/C18)
    from ._shared import opener_branch_agreement, memoised_results_not_mutated
    opener_branch_agreement(ctx, 'D5')
    # chunklen- and history-independence: no memoised helper result is advanced in place
    memoised_results_not_mutated(ctx, 'D6')
    # D1
    type_gate_dominates(ctx, 'D1')
    gates = [n for n in own_nodes(f.node) if isinstance(n, ast.If) and is_type_gate(n.test, f, always_raises(n.body))]
    if gates:
        # the gate tests the chunk whose dtype is imposed
        tested = _closure_text(f, gates[0].test).split('.dtype.name')[0].split()[-1].lstrip('(')
        dd = [v for v, _ in defs_of(f.node, 'dtype') if not (isinstance(v, ast.Constant))]
        ok = any(norm(v) == f'{tested}.dtype' for v in dd)
        ctx.decide(ok, 'R-FLOW', 'D1', f, gates[0], 'gate-tests-imposed-dtype',
                   f'the gate tests the dtype of `{tested}`, the dtype that is imposed on all chunks',
                   detail='gate and imposed dtype come from different objects')
    for spec in ('array.create_array', 'array.create_temparray', 'Array.copy'):
        g = ctx.repo.func(spec)
        prim = [e for e in ctx.E.primitives(g) if e.kind in MUTATING]
        ctx.decide(not prim, 'R-OWN', 'D1', g, None, 'delegates-only', f'{g.qualname} has no file-system effect of its own (delegates to asarray)',
                   detail='; '.join(e.describe() for e in prim))
    # D2
    writes = [e for e in ctx.E.primitives(f) if e.kind == 'WRITE-HANDLE']
    ctx.floor('C01 data writes in asarray', len(writes), 2)
    first = None
    for v, st in defs_of(f.node, 'dtype'):
        if isinstance(v, ast.Attribute) and v.attr == 'dtype':
            first = norm(v.value)
    rebuilt = [v for v, st in defs_of(f.node, 'dtype') if '.name' in _closure_text(f, v) and not
               (isinstance(v, ast.Attribute) and v.attr == 'dtype')]
    ctx.decide(first is not None and not rebuilt, 'R-FLOW', 'D2', f, rebuilt[0] if rebuilt else None, 'imposed-dtype-is-first-chunk-dtype',
               'the dtype imposed on later chunks is the first chunk\'s dtype object itself (byte order included)',
               detail=f'dtype is rebuilt as `{norm(rebuilt[0]) if rebuilt else None}` from the type *name*, which carries no '
                      f'byte order: later chunks are written in native order while the descriptor keeps the first chunk\'s')
    if first is None and rebuilt:
        first = 'firstchunk'
    for w in writes:
        recv = w.node.func.value
        ok = False
        if first and norm(recv) == first:
            ok = True
        if isinstance(recv, ast.Call) and isinstance(recv.func, ast.Attribute) and recv.func.attr == 'astype' and \
                recv.args and norm(recv.args[0]) == 'dtype':
            # dtype at this point is the first chunk's dtype
            ok = first is not None and must_precede(f, w.node, [st for v, st in defs_of(f.node, 'dtype')
                                                                 if isinstance(v, ast.Attribute)])
        ctx.decide(ok, 'R-FLOW', 'D2', f, w.node, f'written-dtype::{norm(recv)[:30]}',
                   f'asarray writes `{norm(recv)[:40]}`: the first chunk or a chunk cast to the first chunk\'s dtype',
                   detail='a chunk reaches the file in its own dtype: bytes of mixed item size')
    # D3: yields of the generator
    ys = [n for n in own_nodes(gen.node) if isinstance(n, ast.Yield)]
    ctx.floor('C01 chunk producers', len(ys), 5)
    for y in ys:
        v = y.value
        ok = isinstance(v, ast.Call) and dotted(v.func) in ('np.asarray', 'np.array') and \
            norm(get_arg(v, 1, 'dtype') or ast.Constant('<absent>')) == 'dtype'
        guarded_astype = isinstance(v, ast.Call) and isinstance(v.func, ast.Attribute) and v.func.attr == 'astype' and \
            any(isinstance(p, ast.If) and 'dtype is not None' in norm(p.test) for p, _ in enclosing(gen.node, y))
        ctx.decide(ok or guarded_astype, 'R-SIB', 'D3', gen, y, f'producer::{norm(v)[:40] if v is not None else None}',
                   f'_archunkgenerator yields `{norm(v)[:50] if v is not None else None}`: converted with dtype=dtype',
                   detail='this branch ignores the requested dtype (or uses astype(None), which means float64): '
                          'asarray(..., dtype=X) / copy(dtype=X) silently keeps another type')
    ctx.decide(not defs_of(gen.node, 'dtype'), 'R-FLOW', 'D3', gen, None, 'dtype-not-rebound', '_archunkgenerator does not rebind dtype',
               detail='dtype is reassigned inside the generator')
    calls = [n for n, cal in ctx.E.callees(f) if cal is gen and isinstance(n, ast.Call)]
    for c in calls:
        for kw in ('dtype', 'chunklen'):
            a = get_arg(c, None, kw)
            ctx.decide(isinstance(a, ast.Name) and a.id == kw and must_precede_defs(f, c, kw), 'R-FLOW', 'D3', f, c, f'forward::{kw}',
                       f'asarray hands its `{kw}` to the chunk generator', detail=f'{kw} not forwarded verbatim')
    a = get_arg(calls[0], 0, 'array') if calls else None
    ctx.decide(a is not None and norm(a) == 'array', 'R-FLOW', 'D3', f, calls[0] if calls else None, 'forward::array',
               'asarray hands its input to the chunk generator', detail='input not forwarded')
    # D4: length accounting
    loopw = [w for w in writes if any(isinstance(p, ast.For) for p, _ in enclosing(f.node, w.node))]
    for w in loopw:
        loop = [p for p, _ in enclosing(f.node, w.node) if isinstance(p, ast.For)][0]
        chunk = norm(loop.target)
        augs = [n for n in own_nodes(loop) if isinstance(n, ast.AugAssign) and isinstance(n.op, ast.Add)
                and norm(n.value) in (f'{chunk}.shape[0]', f'len({chunk})')]
        ok = len(augs) == 1 and must_follow(f, w.node, augs)
        ctx.decide(ok, 'R-POST', 'D4', f, w.node, 'length-accounting',
                   f'asarray: each loop write is followed by `acc += {chunk}.shape[0]` for the same chunk',
                   detail='the accumulated length is not increased by the length of the chunk that was written')
        if augs:
            acc = norm(augs[0].target)
            init = [v for v, st in defs_of(f.node, acc) if isinstance(st, ast.Assign)]
            ok = len(init) == 1 and first is not None and norm(init[0]) in (f'{first}.shape[0]', f'len({first})')
            ctx.decide(ok, 'R-FLOW', 'D4', f, None, 'accumulator-init', f'the accumulator starts at the first chunk\'s length',
                       detail=f'accumulator initialised with {norm(init[0]) if init else None}')
            sub0 = [n for n in own_nodes(f.node) if isinstance(n, ast.Assign) and isinstance(n.targets[0], ast.Subscript)
                    and isinstance(n.targets[0].slice, ast.Constant) and n.targets[0].slice.value == 0 and norm(n.value) == acc]
            if not sub0:
                # or the shape is built in one go:  [acc] + list(first.shape[1:])  /  (acc,) + first.shape[1:]  /  (acc, *first.shape[1:])
                for n_ in own_nodes(f.node):
                    if isinstance(n_, ast.Assign) and isinstance(n_.value, (ast.BinOp, ast.Tuple, ast.List)):
                        t_ = norm(n_.value).replace(' ', '')
                        if first is not None and t_ in (f'[{acc}]+list({first}.shape[1:])', f'({acc},)+{first}.shape[1:]',
                                                         f'({acc},)+tuple({first}.shape[1:])', f'({acc},*{first}.shape[1:])',
                                                         f'[{acc},*{first}.shape[1:]]', f'[{acc}]+[*{first}.shape[1:]]'):
                            sub0 = [n_]
            ctx.decide(len(sub0) == 1, 'R-FLOW', 'D4', f, sub0[0] if sub0 else None, 'shape0-is-accumulator',
                       'the descriptor\'s first extent is the accumulated length', detail='shape[0] is not the accumulator')
    nt = ctx.repo.func('numtype.arraynumtypeinfo')
    c = [n for n, cal in ctx.E.callees(f) if cal is nt and isinstance(n, ast.Call)]
    ctx.decide(bool(c) and first is not None and norm(c[0].args[0]) == first, 'R-FLOW', 'D4', f, c[0] if c else None,
               'descriptor-from-first-chunk', 'numtype / byteorder / trailing dims are taken from the first chunk',
               detail='descriptor built from another chunk')
    # 0-d inputs become 1-element arrays with the dtype in force
    for n in own_nodes(f.node):
        if isinstance(n, ast.If) and norm(n.test).endswith('.ndim == 0'):
            st = n.body[0] if n.body else None
            ok = isinstance(st, ast.Assign) and isinstance(st.value, ast.Call) and dotted(st.value.func) == 'np.array' and \
                norm(get_arg(st.value, None, 'ndmin') or ast.Constant(0)) == '1' and norm(get_arg(st.value, None, 'dtype') or ast.Constant(0)) == 'dtype'
            ctx.decide(ok, 'R-SIB', 'D3', f, n, f'scalar-chunk::{norm(n.test)}', 'a 0-d chunk is stored as a 1-element array of the dtype in force',
                       detail='0-d chunk handling changed')
    d5_tables(ctx)
    d2_arrayorder(ctx)
    # fill generator: defaults decided by `is None`, never by truthiness (-0.0, 0 are legitimate fills)
    fg = ctx.repo.func('array._fillgenerator')
    bad = [n for n in own_nodes(fg.node) if isinstance(n, ast.BoolOp) and isinstance(n.op, ast.Or)
           and any(isinstance(v, ast.Name) and v.id in ('fill', 'dtype', 'chunklen') for v in n.values[:1])]
    tests = [n for n in own_nodes(fg.node) if isinstance(n, ast.If) and 'fill' in names_in(n.test)]
    truthy = [t for t in tests if any(isinstance(x, ast.Name) and x.id == 'fill' and not _under_compare(t.test, x) for x in ast.walk(t.test))]
    ctx.decide(not bad and not truthy, 'R-BELIEF', 'D3', fg, (bad + truthy)[0] if bad or truthy else None, 'fill-default-by-is-none',
               '_fillgenerator decides "no fill given" by `is None`, not by truthiness',
               detail='a falsy but legitimate fill value (-0.0, 0) is replaced by the default: the sign bit of -0.0 is lost')
    # no shortcut on the *value* of fill: `fill == 0` is also true for -0.0 (and 0j with a negative zero part)
    eqs = [n for n in own_nodes(fg.node) if isinstance(n, ast.Compare) and len(n.ops) == 1 and
           isinstance(n.ops[0], (ast.Eq, ast.NotEq, ast.In, ast.NotIn)) and
           any(isinstance(x, ast.Name) and x.id == 'fill' for x in [n.left] + n.comparators) and
           any(isinstance(x, ast.Constant) and isinstance(x.value, (int, float, complex)) and not isinstance(x.value, bool)
               for c in [n.left] + n.comparators for x in ast.walk(c))]
    ctx.decide(not eqs, 'R-BELIEF', 'D3', fg, eqs[0] if eqs else None, 'fill-no-value-shortcut',
               '_fillgenerator takes no shortcut on the numeric value of `fill` (it is written as given)',
               detail=f'`{norm(eqs[0]) if eqs else ""}` is also true for -0.0: a fast path for zero fill stores +0.0, a different bit pattern '
                      f'than np.full would give')
    # the index grid handed to fillfunc has the full shape of the chunk it fills ("index numbers along axis 0 for all
    # dimensions"): it is created with the same shape expression as the chunk buffer, not as a broadcastable column
    fcalls = [n for n in own_nodes(fg.node) if isinstance(n, ast.Call) and isinstance(n.func, ast.Name) and n.func.id == 'fillfunc']
    CTORS = ('np.empty', 'np.zeros', 'np.ones', 'np.full', 'np.empty_like', 'np.zeros_like', 'np.broadcast_to', 'np.indices')
    bufshape = None
    for v, st in [(v, st) for nm, v, st in assignments(fg.node) if isinstance(v, ast.Call) and dotted(v.func) in CTORS]:
        if any(isinstance(x, ast.Name) and x.id == 'dtype' for x in ast.walk(v)) and v.args:
            bufshape = norm(v.args[0])
    grid_ok, why = None, ''
    for c in fcalls:
        a = c.args[0] if c.args else None
        if not isinstance(a, ast.Name):
            grid_ok = grid_ok if grid_ok is not None else None
            continue
        ds = [v for v, _ in defs_of(fg.node, a.id) if not isinstance(_, ast.AugAssign)]
        ctor = [v for v in ds if isinstance(v, ast.Call) and dotted(v.func) in CTORS]
        resh = [v for v in ds if any(isinstance(x, ast.Call) and isinstance(x.func, ast.Attribute) and x.func.attr in ('reshape',) for x in ast.walk(v))
                or any(isinstance(x, ast.Subscript) and any(isinstance(y, ast.Constant) and y.value is None for y in ast.walk(x.slice)) for x in ast.walk(v))]
        if ctor and bufshape is not None and all(v.args and norm(v.args[0]) == bufshape for v in ctor) and not resh:
            grid_ok = True if grid_ok is not False else False
        elif resh or (ctor and bufshape is not None):
            grid_ok, why = False, norm((resh or ctor)[0])[:70]
    if grid_ok is None:
        ctx.assume('R-FLOW', 'D3', fg, fcalls[0] if fcalls else None, 'index-grid-full-shape',
                   'the index grid handed to fillfunc has the full shape of the chunk', detail='construction of the grid not recognised')
    else:
        ctx.decide(grid_ok, 'R-FLOW', 'D3', fg, fcalls[0] if fcalls else None, 'index-grid-full-shape',
                   'the index grid handed to fillfunc is created with the full shape of the chunk buffer (index numbers of axis 0 for all dimensions)',
                   detail=f'the grid is built as `{why}`: a broadcastable column / other shape — fill functions that use the grid\'s '
                          f'trailing shape (cumsum along the last axis, i.shape, boolean masks) silently produce other values')
    ie = [n for n in own_nodes(fg.node) if isinstance(n, ast.IfExp) and 'fill' in names_in(n.test)]
    ok = all(norm(n.test) in ('fill is None', 'fill is not None') for n in ie) and len(ie) >= 2
    ctx.decide(ok, 'R-SIB', 'D3', fg, ie[0] if ie else None, 'fill-or-fillfunc',
               '_fillgenerator fills every chunk (full and remainder) with `fillfunc(i) if fill is None else fill`',
               detail='the full-chunk and remainder branches disagree or test truthiness')


def _under_compare(test, name_node):
    for c in ast.walk(test):
        if isinstance(c, ast.Compare) and any(x is name_node for x in ast.walk(c)):
            return True
    return False


def must_precede_defs(f, call, name):
    """No rebinding of `name` before the call other than defaults."""
    cfg = cfg_of(f)
    for v, st in defs_of(f.node, name):
        try:
            if cfg.can_reach(cfg.node_for(st), cfg.node_for(call)):
                return False
        except KeyError:
            pass
    return True
