"""C17 — a process crash at any point never makes Darr return wrong data.

Crash points are run-time; decided here are the ordering / strictness /
ownership facts that make every in-between state rejected at open or
legitimate."""
import ast

from ..rules import must_precede, must_follow
from ..cfg import cfg_of, always_raises
from ..effects import MUTATING
from ..astutil import dotted, get_arg, derived, norm, enclosing, names_in, defs_of, assignments
from ..srcmodel import own_nodes, AnalysisError
from ..resolve import FILE
from ._shared import size_check_obligations
from .C16 import is_exists_call

EXPLANATION = (
    "Ordering/strictness analysis: (D1) the open-time size check is strict (!=), computed from "
    "the validated descriptor, unavoidable, and precedes the first memory map; (D2) the only "
    "functions that write, grow or resize an array's data file are the appender, the first-chunk "
    "write and recovery truncation of iterappend, truncate_array and asarray (who-may-touch over "
    "the primitive-effect table, handles resolved to their opening site), resizes are confined to "
    "the recovery handler / the shrink guard, and every length passed to the committer is def-use "
    "derived from appender return values, from the length of the array that was written, or is "
    "the truncate delta; (D3) ragged two-file ordering: values length commit before indices "
    "length commit on growth, indices truncation before values truncation on shrink (CFG "
    "must-precede); (D4) descriptor/README/metadata rewrites are whole-file truncating writes of "
    "a string serialised before the file is opened, and the readers of those files never turn an "
    "unparsable or empty file into a value.")
ASSUMPTIONS = [
    "a torn write of JSON text is a strict prefix of valid text and json.load raises on it",
    "not decided: enumeration of crash points, what the OS leaves after a kernel crash, legitimacy of "
    "states inside the recovery path beyond D2",
]


def find_committer(ctx):
    c = ctx.repo.cls('Array')
    out = []
    for f in c.all_funcs():
        assigns_shape = any(isinstance(n, ast.Assign) and any(dotted(t) == 'self._shape' for t in n.targets)
                            for n in own_nodes(f.node))
        writes_descr = any(e.kind == 'TRUNC-WRITE' for e in ctx.E.may(f))
        if assigns_shape and writes_descr and f.name != '__init__':
            out.append(f)
    if len(out) != 1:
        raise AnalysisError(f'committer(Array) not identifiable by role: {[f.qualname for f in out]}')
    return out[0]


def committer_kind(ctx, committer):
    """'relative' (the parameter is added to the first extent) or 'absolute' (the parameter becomes the first extent)."""
    from ..pathcond import canon as _canon
    ps = [p for p in committer.params if p != 'self']
    if not ps:
        return 'relative'
    p0 = ps[0]
    for f_, v_, st_ in committer.cls.attr_exprs.get('_shape', []):
        if f_ is committer:
            t = _canon(committer, v_).replace(' ', '')
            if t.startswith(f'({p0},)') or t.startswith(f'({p0},*') or t.startswith(f'(int({p0}),)'):
                return 'absolute'
    return 'relative'


def commit_delta(ctx, committer, node, func):
    """The increment of the first extent that a call of the committer commits, as an expression: the argument itself for
    a relative committer; for an absolute one `<old length> + X` gives X, anything else V gives `V - len(<receiver>)`."""
    from ..pathcond import inline as _inl
    ps = [p for p in committer.params if p != 'self']
    arg = get_arg(node, 0, ps[0] if ps else 'lenincrease')
    if arg is None:
        arg = get_arg(node, 0, 'lenincrease')
    if arg is None or committer_kind(ctx, committer) == 'relative':
        return arg
    recv = norm(node.func.value) if isinstance(node.func, ast.Attribute) else 'self'
    olds = {f'{recv}._shape[0]', f'{recv}.shape[0]', f'len({recv})'}
    v = _inl(func, arg)
    for e in (arg, v):
        if isinstance(e, ast.BinOp) and isinstance(e.op, ast.Add):
            if norm(e.left) in olds:
                return e.right
            if norm(e.right) in olds:
                return e.left
    return ast.BinOp(left=arg, op=ast.Sub(), right=ast.Call(func=ast.Name(id='len', ctx=ast.Load()),
                                                             args=[ast.parse(recv, mode='eval').body], keywords=[]))


def stale_base(ctx, committer, node, func):
    """Absolute committer only: a new length `<base> + <delta>` whose base is a local copy of the length must not be
    older than the last commit — if another commit (a call that may reach the committer) can run between the statement
    that copied the length and this call, the copy is stale and the commit un-counts what the other one committed."""
    if committer_kind(ctx, committer) != 'absolute':
        return None
    ps = [p for p in committer.params if p != 'self']
    arg = get_arg(node, 0, ps[0])
    if arg is None:
        return None
    recv = norm(node.func.value) if isinstance(node.func, ast.Attribute) else 'self'
    olds = {f'{recv}._shape[0]', f'{recv}.shape[0]', f'len({recv})'}
    bases = []
    for x in ast.walk(arg):
        if isinstance(x, ast.Name) and x.id not in func.params:
            for v, st in defs_of(func.node, x.id):
                e = v
                # one more hop: oldshape = self._shape; oldlen = oldshape[0]
                if isinstance(e, ast.Subscript) and isinstance(e.value, ast.Name):
                    for v2, st2 in defs_of(func.node, e.value.id):
                        if norm(v2) in (f'{recv}._shape', f'{recv}.shape'):
                            bases.append((x.id, st2))
                if norm(e) in olds:
                    bases.append((x.id, st))
    if not bases:
        return None
    g = cfg_of(func)
    me = g.node_for(node)
    others = []
    for n2, cal in ctx.E.callees(func):
        if not isinstance(n2, ast.Call) or n2 is node:
            continue
        if cal is committer or any(c2 is committer for _, c2 in ctx.E.callees(cal)) or \
                any(c3 is committer for _, c2 in ctx.E.callees(cal) for _, c3 in ctx.E.callees(c2)):
            others.append(n2)
    for name, st in bases:
        d = g.node_for(st)
        for o in others:
            on = g.node_for(o)
            if on != me and g.can_reach(d, on, skip_labels=('exc',)) and g.can_reach(on, me, skip_labels=('exc',)):
                return (f'the new length is computed from `{name}`, a copy of the length taken at line {st.lineno}, but '
                        f'`{norm(o)[:50]}` (line {o.lineno}) can commit a length change between that copy and this call: the '
                        f'absolute commit overwrites the length with a stale base and drops the rows committed in between')
    return None


def find_appenders(ctx):
    """Functions that write through a file-object parameter and return a count."""
    out = []
    for f in ctx.repo.all_funcs():
        direct = any(e.kind == 'WRITE-HANDLE' and e.handle and e.handle.get('kind') == 'param'
                     for e in ctx.E.primitives(f))
        returns = any(isinstance(n, ast.Return) and n.value is not None for n in own_nodes(f.node))
        if direct and returns:
            out.append(f)
    if not out:
        raise AnalysisError('appender role resolves to nothing')
    # wrappers: functions that call an appender with their own handle params and return
    changed = True
    while changed:
        changed = False
        for f in ctx.repo.all_funcs():
            if f in out:
                continue
            returns = any(isinstance(n, ast.Return) and n.value is not None for n in own_nodes(f.node))
            if not returns:
                continue
            for node, cal in ctx.E.callees(f):
                if cal in out and isinstance(node, ast.Call):
                    passes_param = any(isinstance(a, ast.Name) and a.id in f.params for a in
                                       list(node.args) + [k.value for k in node.keywords]
                                       if FILE in ctx.R.etype(a, f))
                    if passes_param:
                        out.append(f)
                        changed = True
                        break
    return out


def subarray_role(ctx, expr, func, _depth=0):
    """VALUESDIR / INDICESDIR / None for an expression denoting a sub-array
    handle of a ragged array."""
    d = dotted(expr)
    if d is None:
        return None
    if '.' in d:
        attr = d.split('.')[-1]
        for t in ctx.R.etype(expr.value, func):
            if isinstance(t, tuple) and t[0] == 'inst' and t[1] == 'RaggedArray':
                c = ctx.repo.cls('RaggedArray')
                v = c.init_attr_exprs.get(attr)
                if isinstance(v, ast.Call):
                    p = get_arg(v, 0, 'path')
                    pv = ctx.E.pathval(p, c.methods['__init__']) if p is not None else None
                    if pv is not None and pv.role in ('VALUESDIR', 'INDICESDIR'):
                        return pv.role
        return None
    for v, st in defs_of(func.node, d):
        if isinstance(v, ast.Call):
            p = get_arg(v, 0, 'path')
            pv = ctx.E.pathval(p, func) if p is not None else None
            if pv is not None and pv.role in ('VALUESDIR', 'INDICESDIR'):
                return pv.role
        elif isinstance(v, ast.Attribute) and _depth < 3:
            # a local alias of a sub-array handle:  values = ra._values
            r = subarray_role(ctx, v, func, _depth + 1)
            if r:
                return r
    return None


def run(ctx):
    size_check_obligations(ctx, 'D1')
    committer = find_committer(ctx)
    appenders = find_appenders(ctx)
    ctx.info['committer'] = committer.qualname
    ctx.info['appenders'] = [f.qualname for f in appenders]
    d2_data_owners(ctx, committer, appenders)
    d2_commit_counts(ctx, committer, appenders)
    truncate_commit_matches_resize(ctx, 'D2', committer)
    from ._shared import reset_handler_protects_write_only
    ctx.floor('handlers that empty the data file', reset_handler_protects_write_only(ctx, 'D2', committer), 1)
    # crash states of an append are "original data + a whole number of the appended chunks": append(x) offers x as ONE
    # chunk (shared with C09) — cut into physical pieces, a crash after the first piece's commit shows a prefix of x
    from .C09 import append_is_one_chunk
    A_ = ctx.repo.cls('Array')
    append_is_one_chunk(ctx, A_.methods.get('append'), A_.methods.get('iterappend'))
    # a crash inside truncate_raggedarray (indices cut, values not yet) legitimately leaves orphan rows at the end of
    # values: the next append must start its index row at the values LENGTH, not at the end of the last index row
    # (shared with C04/C05 D1)
    from .C10 import find_step
    from .C05 import d1_contiguity
    step_, _roles = find_step(ctx, appenders)
    d1_contiguity(ctx, ctx.repo.cls('RaggedArray'), step_, appenders)
    d3_two_file_order(ctx, committer)
    d4_whole_file_rewrites(ctx)
    # opening after a crash only reads: a constructor that "repairs" what it finds (e.g. rewrites the description to the
    # row count implied by the file size) turns a torn append into a state that opens and shows a partial chunk
    for cname in ('Array', 'RaggedArray'):
        init = ctx.repo.cls(cname).methods.get('__init__')
        eff = [e for e in ctx.E.may(init) if e.kind in MUTATING] if init is not None else []
        ctx.decide(init is not None and not eff, 'R-OWN', 'D1', init, None, f'constructor-effect-free::{cname}',
                   f'{cname}.__init__ performs no file-system mutation (opening never rewrites what a crash left behind)',
                   detail='opening can write: ' + '; '.join(e.describe() for e in eff[:3]))
    # the recovery path of iterappend commits exactly the completed chunks (shared with C09/C02)
    from .C09 import recover
    c_ = ctx.repo.cls('Array')
    f_ = c_.methods['iterappend']
    arr_app = [a for a in appenders if a.cls is c_]
    for n_, cal in ctx.E.callees(f_):
        if cal in arr_app and isinstance(n_, ast.Call):
            recover(ctx, f_, c_, n_, f'appender call {norm(n_.func)}', committer, arr_app)
    # ... and what it commits is the counter of completely written chunks, never a count derived from the file size
    from .C09 import d2_accumulator
    d2_accumulator(ctx, f_, committer, arr_app)
    from ._shared import inplace_rewrites_truncate
    inplace_rewrites_truncate(ctx, 'D4')


DATA_OWNERS = {
    'Array.iterappend': 'first-chunk write for empty arrays; truncation back in the recovery handler',
    'truncate_array': 'shrinks the file under the 0 <= newlen < len guard',
    'asarray': 'creates the file',
}


def d2_data_owners(ctx, committer, appenders):
    n = 0
    owners = dict(DATA_OWNERS)
    arr_app = [a for a in appenders if a.cls is not None and a.cls.name == 'Array' and
               any(e.kind == 'WRITE-HANDLE' for e in ctx.E.primitives(a))]
    for a in arr_app:
        owners[a.qualname] = 'the appender, found by role (seek end, tofile, flush)'
    # a private helper of array.py / of class Array that is only ever called by owners is part of its owners: the
    # primitive is still reachable only through them (who-may-call closure).  The owner-specific conditions are then
    # judged at the helper's call sites.
    origin = {}
    changed = True
    while changed:
        changed = False
        for g in ctx.repo.all_funcs():
            if g.qualname in owners or g.module.name != 'array' or not g.name.startswith('_') or g.name.startswith('__'):
                continue
            if not any(e.kind in ('WRITE-PATH', 'TRUNC-WRITE', 'RESIZE', 'WRITE-HANDLE') for e in ctx.E.primitives(g)):
                continue
            callers = ctx.E._callers(g)
            if callers and all(c_.qualname in owners for c_, _ in callers):
                names = sorted({origin.get(c_.qualname, c_.qualname) for c_, _ in callers})
                if len(names) == 1:
                    owners[g.qualname] = f'private helper called only by {names[0]}'
                    origin[g.qualname] = names[0]
                    changed = True
    for f in ctx.repo.all_funcs():
        for e in ctx.E.primitives(f):
            role = e.role
            touches_data = False
            if e.kind in ('WRITE-PATH', 'TRUNC-WRITE', 'CREATE', 'APPEND-OPEN', 'UPDATE-OPEN', 'RESIZE') \
                    and e.path is not None and role == 'DATA':
                touches_data = True
            if e.kind in ('WRITE-HANDLE', 'RESIZE') and e.handle is not None:
                h = e.handle
                if h.get('kind') == 'param':
                    # only Array machinery receives data-file handles
                    touches_data = f.cls is not None and f.cls.name == 'Array'
                elif h.get('kind') == 'opener':
                    touches_data = True
                elif h.get('path') is not None and h['path'].role == 'DATA':
                    touches_data = True
            if e.kind == 'WRITE-PATH' and e.path is None:
                touches_data = True       # tofile to an unknown path
            if not touches_data:
                continue
            n += 1
            construct = f'data-touch::{e.kind}'
            inst = f'{e.kind} on the data file: {norm(e.node)[:50]}'
            if f.qualname not in owners:
                ctx.bad('R-OWN', 'D2', f, e.node, construct, inst,
                        detail='the data file is written/grown/resized outside the closed set of '
                               f'owners {sorted(owners)}: such a state is not one the descriptor '
                               f'bookkeeping and the recovery path account for')
                continue
            if e.kind == 'RESIZE' and origin.get(f.qualname) == 'truncate_array':
                # shrink-only is a condition of the call sites in truncate_array; not decided for a helper: stay closed
                ctx.bad('R-OWN', 'D2', f, e.node, construct, inst,
                        detail=f'the resize moved into the helper {f.qualname}: that it can only shrink the file is a condition '
                               f'of its callers which this rule does not follow')
                continue
            if e.kind == 'RESIZE' and (f.qualname == 'Array.iterappend' or origin.get(f.qualname) == 'Array.iterappend'):
                in_handler = any(isinstance(p, ast.ExceptHandler) for p, _ in enclosing(f.node, e.node))
                if not in_handler and f.qualname != 'Array.iterappend':
                    # a helper: all its call sites lie inside a handler of the owner
                    sites = ctx.E._callers(f)
                    in_handler = bool(sites) and all(any(isinstance(p, ast.ExceptHandler) for p, _ in enclosing(c_.node, n_))
                                                     for c_, n_ in sites)
                ctx.decide(in_handler, 'R-OWN', 'D2', f, e.node, construct,
                           inst + ' (only inside the recovery handler)',
                           detail='a resize outside the recovery handler (e.g. a preallocation) makes the '
                                  'data file longer than the rows completely written')
                continue
            if e.kind == 'RESIZE' and f.qualname == 'truncate_array':
                # path-condition evaluation: the resize is unreachable whenever newlen >= len (it can only shrink)
                from . import _trunc
                nls = _trunc.find_newlen(f, f.params[1]) if len(f.params) > 1 else []
                grows, unknown = [], not nls
                if nls:
                    for nl, L, runs, normal, raised in _trunc.shrink_rows(f, e.node, nls[0][0], f.params[0], f.params[1]):
                        if not (0 <= nl < L):
                            if runs is None:
                                unknown = True
                            elif runs:
                                grows.append(f'newlen={nl}, len={L}')
                if unknown and not grows:
                    ctx.assume('R-OWN', 'D2', f, e.node, construct, inst + ' (only when it shrinks the file)',
                               detail='the tests deciding the resize are not pure comparisons of the new length and len')
                else:
                    ctx.decide(not grows, 'R-OWN', 'D2', f, e.node, construct,
                               inst + ' (reached only when 0 <= newlen < len: it can only shrink the file)',
                               detail='os.truncate is reachable with a new length that is not shorter than the array: it could grow the file ('
                                      + '; '.join(grows[:2]) + ')')
                continue
            ctx.ok('R-OWN', 'D2', f, e.node, construct, inst + f' — owner: {owners[f.qualname]}')
    ctx.floor('C17 data-file touch sites', n, 5)
    # flush follows the write inside the appender
    if not arr_app:
        raise AnalysisError('Array appender (role) not found')
    ap = arr_app[0]
    writes = [e for e in ctx.E.primitives(ap) if e.kind == 'WRITE-HANDLE']
    flushes = [e.node for e in ctx.E.primitives(ap) if e.kind == 'FLUSH']
    seeks = [e.node for e in ctx.E.primitives(ap) if e.kind == 'SEEK']
    for w in writes:
        ctx.decide(bool(flushes) and must_follow(ap, w.node, flushes), 'R-POST', 'D2', ap, w.node,
                   'flush-after-write', 'the appender flushes after tofile on every normal path',
                   detail='rows may sit in the stdio buffer while the descriptor already counts them')
        ok = False
        for s in seeks:
            a0, a1 = get_arg(s, 0, 'offset'), get_arg(s, 1, 'whence')
            if must_precede(ap, w.node, [s]) and isinstance(a0, ast.Constant) and a0.value == 0 and \
                    a1 is not None and (norm(a1) in ('2', 'os.SEEK_END', 'io.SEEK_END')):
                ok = True
        ctx.decide(ok, 'R-ORDER', 'D2', ap, w.node, 'seek-end-before-write',
                   'the appender seeks to the end of the file (seek(0, 2)) before writing',
                   detail='append may overwrite previously stored bytes')


def count_source(ctx, func, arg, appenders, seen=None):
    """Classify where a committed length comes from."""
    seen = seen or set()
    kinds = set()

    def visit(e):
        for n in ast.walk(e):
            if isinstance(n, ast.Call):
                tg = [t for k, t in ctx.R.resolve_call(n, func) if k == 'repo']
                if any(t in appenders for t in tg):
                    kinds.add('appender-return')
            if isinstance(n, ast.Name) and n.id not in seen:
                seen.add(n.id)
                for v, st in defs_of(func.node, n.id):
                    if isinstance(st, (ast.For, ast.With)):
                        continue
                    visit(v)
    visit(arg)
    return kinds


def d2_commit_counts(ctx, committer, appenders):
    n = 0
    for f in ctx.repo.all_funcs():
        for node, cal in ctx.E.callees(f):
            if cal is not committer or not isinstance(node, ast.Call):
                continue
            n += 1
            arg = commit_delta(ctx, committer, node, f)
            construct = f'commit-count::{norm(node.func)}'
            inst = f'{f.qualname}: {norm(node)[:60]}'
            if arg is None:
                ctx.bad('R-FLOW', 'D2', f, node, construct, inst, detail='committer called without a count')
                continue
            stale = stale_base(ctx, committer, node, f)
            if stale:
                ctx.bad('R-FLOW', 'D2', f, node, construct + '::fresh-base', inst,
                        detail=stale)
                continue
            kinds = count_source(ctx, f, arg, appenders)
            names = derived(f.node, arg)
            if 'appender-return' in kinds:
                ctx.ok('R-FLOW', 'D2', f, node, construct, inst + ' — count derived from appender return values')
                continue
            # length of the very array that was written by path (first chunk of an empty array)
            written = [norm(e.node.func.value) for e in ctx.E.primitives(f)
                       if e.kind in ('WRITE-PATH', 'WRITE-HANDLE') and isinstance(e.node.func, ast.Attribute)]
            a = norm(arg)
            from ..pathcond import inline as _inl2
            if any(x in (f'{w}.shape[0]', f'len({w})') for w in written for x in (a, norm(_inl2(f, arg)))):
                ctx.ok('R-FLOW', 'D2', f, node, construct, inst + ' — length of the array that was written')
                continue
            # truncate delta: newlen - len(a) with a RESIZE in the same function
            if any(e.kind == 'RESIZE' for e in ctx.E.primitives(f)) and \
                    any(isinstance(x, ast.BinOp) and isinstance(x.op, ast.Sub)
                        for nm in [arg] + [v for k in names for v, _ in defs_of(f.node, k)]
                        for x in ast.walk(nm)):
                ctx.ok('R-FLOW', 'D2', f, node, construct, inst + ' — truncate delta (new length - old length)')
                continue
            ctx.bad('R-FLOW', 'D2', f, node, construct, inst,
                    detail=f'committed count `{a}` is not derived from appender return values nor from '
                           f'the length of the array that was written: the descriptor may admit rows '
                           f'that were not (completely) written')
    ctx.floor('C17 committer call sites', n, 6)


def _factors(e):
    if isinstance(e, ast.BinOp) and isinstance(e.op, ast.Mult):
        return _factors(e.left) + _factors(e.right)
    return [e]


def truncate_commit_matches_resize(ctx, clause, committer):
    """truncate_array: the length that is committed (descriptor + handle) is the length the data file was cut to.
    The file is resized to  N x (row size)  and the commit is  N - (old length)  (or N itself for an absolute
    committer): the same N on both sides.  Decided only where both expressions have that shape; other shapes stay
    with the order-type table of C03 D4."""
    from ..pathcond import inline as _inl
    f = ctx.repo.func('array.truncate_array')
    res = [e for e in ctx.E.primitives(f) if e.kind == 'RESIZE' and isinstance(e.node, ast.Call) and len(e.node.args) > 1]
    calls = [n for n, cal in ctx.E.callees(f) if cal is committer and isinstance(n, ast.Call)]
    if not res or not calls:
        return 0
    size = res[0].node.args[1]
    cands = [size] + [v for v, _ in defs_of(f.node, size.id)] if isinstance(size, ast.Name) else [size]
    facs = set()
    for c_ in cands:
        for x in _factors(c_):
            facs.add(norm(x))
            facs.add(norm(_inl(f, x)))
    n = 0
    for call in calls:
        arg = commit_delta(ctx, committer, call, f)
        if arg is None:
            continue
        exprs = [arg] + ([v for v, _ in defs_of(f.node, arg.id)] if isinstance(arg, ast.Name) else [])
        subs = [x for x in exprs if isinstance(x, ast.BinOp) and isinstance(x.op, ast.Sub)]
        if len(facs) < 2 or not subs:
            continue
        n += 1
        left = subs[-1].left
        ok = norm(left) in facs or norm(_inl(f, left)) in facs
        ctx.decide(ok, 'R-FLOW', clause, f, call, 'truncate-commit-is-resize-length',
                   'truncate_array commits the length the data file was cut to (the resize is N x row size, the commit N - old length)',
                   detail=f'the file is cut to `{norm(size)[:50]}` but the committed length is `{norm(left)}` + old - old: '
                          f'`{norm(left)}` is not the row count of the resize (e.g. the raw index, negative for '
                          f'truncation from the end) — descriptor shape x item size != file length')
    return n


def d3_two_file_order(ctx, committer):
    trunc = ctx.repo.func('array.truncate_array')
    ngrow = nshrink = 0
    for f in ctx.repo.all_funcs():
        if f.cls is not None and f.cls.name == 'Array':
            continue
        commits = {'VALUESDIR': [], 'INDICESDIR': []}
        truncs = {'VALUESDIR': [], 'INDICESDIR': []}
        for node, cal in ctx.E.callees(f):
            if not isinstance(node, ast.Call):
                continue
            # a length commit of a sub-array: the committer itself, or a public append of the sub-array (which writes and
            # commits in one call)
            if (cal is committer or (cal.cls is committer.cls and cal.name in ('append', 'iterappend'))) and \
                    isinstance(node.func, ast.Attribute):
                r = subarray_role(ctx, node.func.value, f)
                if r:
                    commits[r].append(node)
            if cal is trunc and node.args:
                r = subarray_role(ctx, node.args[0], f)
                if r:
                    truncs[r].append(node)
        if commits['VALUESDIR'] and commits['INDICESDIR']:
            ngrow += 1
            for ic in commits['INDICESDIR']:
                ctx.decide(must_precede(f, ic, commits['VALUESDIR']), 'R-ORDER', 'D3', f, ic,
                           'growth::values-commit-before-indices-commit',
                           f'{f.qualname}: values length is committed before indices length',
                           detail='indices length committed first: a crash in between leaves two '
                                  'self-consistent sub-arrays whose index rows point past the end of '
                                  'values (opens successfully, returns short data)')
        elif commits['VALUESDIR'] or commits['INDICESDIR']:
            ctx.bad('R-ORDER', 'D3', f, (commits['VALUESDIR'] + commits['INDICESDIR'])[0],
                    'growth::both-commits', f'{f.qualname} commits both sub-array lengths',
                    detail='only one of the two sub-array lengths is committed')
        if truncs['VALUESDIR'] and truncs['INDICESDIR']:
            nshrink += 1
            for vt in truncs['VALUESDIR']:
                ctx.decide(must_precede(f, vt, truncs['INDICESDIR']), 'R-ORDER', 'D3', f, vt,
                           'shrink::indices-before-values',
                           f'{f.qualname}: indices are truncated before values',
                           detail='values truncated first: a crash in between leaves index rows that '
                                  'point past the end of values while both sub-arrays are self-consistent')
    ctx.floor('C17 ragged growth functions', ngrow, 2)
    ctx.floor('C17 ragged shrink functions', nshrink, 1)


def d4_whole_file_rewrites(ctx):
    wj = ctx.repo.func('utils.write_jsonfile')
    opens = [e for e in ctx.E.primitives(wj) if e.kind == 'TRUNC-WRITE']
    dumps = [e.node for e in ctx.E.primitives(wj) if e.kind == 'SERIALISE']
    streams = [n for n in own_nodes(wj.node) if isinstance(n, ast.Call) and dotted(n.func) == 'json.dump']
    ctx.decide(not streams, 'R-ORDER', 'D4', wj, streams[0] if streams else None, 'no-streaming-dump',
               'write_jsonfile does not stream json.dump into the open file',
               detail='json.dump(data, fp) serialises while the truncated file is open: a TypeError or a '
                      'crash midway leaves a half-written descriptor/metadata file')
    # a rewrite through a non-truncating handle ('r+') is never a whole-file rewrite: torn, it leaves a prefix of the new
    # text followed by the tail of the old one, which often parses — a state that is neither "before" nor "after"
    inplace = [e for e in ctx.E.primitives(wj) if e.kind in ('UPDATE-OPEN', 'APPEND-OPEN')]
    for e in ctx.E.primitives(wj):
        # a mode held in a local: every constant it can be bound to is looked at
        if e.kind in ('MODE-OPEN', 'OPEN-DYNAMIC') and isinstance(e.node, ast.Call):
            m = get_arg(e.node, 1, 'mode') if (dotted(e.node.func) or '') in ('open', 'io.open') else get_arg(e.node, 0, 'mode')
            if isinstance(m, ast.Name):
                vals = [v for v, _ in defs_of(wj.node, m.id)]
                flat = []
                for v in vals:
                    flat += [v.body, v.orelse] if isinstance(v, ast.IfExp) else [v]
                consts = [v.value for v in flat if isinstance(v, ast.Constant) and isinstance(v.value, str)]
                if consts and len(consts) == len(flat):
                    if any('w' not in c and 'x' not in c and ('+' in c or 'a' in c) for c in consts):
                        inplace.append(e)
                    if any('w' in c for c in consts):
                        opens.append(e)
    for e in inplace:
        ctx.bad('R-ORDER', 'D4', wj, e.node, 'rewrite-truncates-first',
                'write_jsonfile rewrites by truncating the file first (a torn write leaves a prefix of the new text, which does not parse)',
                detail=f'`{norm(e.node)[:60]}` rewrites in place: a torn write leaves new text followed by the tail of the old '
                       f'text, which can be valid JSON mixing old and new values')
    if not opens and not inplace:
        raise AnalysisError('write_jsonfile: truncating open vanished')
    for o in opens:
        ctx.decide(bool(dumps) and must_precede(wj, o.node, dumps), 'R-ORDER', 'D4', wj, o.node,
                   'serialise-before-open',
                   'write_jsonfile serialises (json.dumps) before the file is opened for truncation',
                   detail='the file is truncated before serialisation can fail')
    for e in ctx.E.primitives(wj):
        if e.kind == 'WRITE-HANDLE':
            arg = e.node.args[0] if e.node.args else None
            names = derived(wj.node, arg) if arg is not None else set()
            ctx.decide('json.dumps' in names, 'R-FLOW', 'D4', wj, e.node, 'writes-serialised-string',
                       'the string written is the one json.dumps returned', detail='written value is not the dumps result')
    # readers never turn an unparsable/empty file into a value
    for spec in ('MetaData._read', 'DataDir.read_jsonfile'):
        f = ctx.repo.func(spec)
        loads = [n for n in own_nodes(f.node) if isinstance(n, ast.Call) and dotted(n.func) in ('json.load', 'json.loads')]
        ctx.decide(bool(loads), 'R-DOM', 'D4', f, None, 'parses-with-json',
                   f'{f.qualname} parses with json.load', detail='json.load vanished')
        for r in (n for n in own_nodes(f.node) if isinstance(n, ast.Return)):
            if r.value is not None and any(x in loads for x in ast.walk(r.value)):
                continue
            if isinstance(r.value, ast.Name) and any(any(x in loads for x in ast.walk(v))
                                                     for v, _ in defs_of(f.node, r.value.id)):
                continue
            # a value computed from the parse result (copy of it, element of a pair that holds it ...)
            if r.value is not None and {'json.load', 'json.loads'} & set(derived(f.node, r.value)):
                continue
            # a non-parsed return is only allowed directly under `not <path>.exists()`
            from ._shared import default_only_when_absent
            ok = default_only_when_absent(f, r)
            ctx.decide(ok, 'R-BELIEF', 'D4', f, r, f'default-return::{norm(r)[:30]}',
                       f'{f.qualname}: a default value is returned only when the file does not exist',
                       detail='a file that exists but is empty/unparsable (torn write) is turned into a '
                              'value instead of raising')
        for t in (n for n in own_nodes(f.node) if isinstance(n, ast.Try)):
            for h in t.handlers:
                ctx.decide(always_raises(h.body), 'R-RECOVER', 'D4', f, h, 'handler-reraises',
                           f'{f.qualname}: handler around parsing re-raises',
                           detail='a parse error of a torn file is swallowed')
    # in-place rewrite: the writers never remove or move the file they are about to write — a missing metadata.json is a
    # legitimate state ("no metadata") that the reader turns into {}, so a crash between removal and rewrite would open
    # successfully showing something that is neither the old nor the new state
    for w in (wj, ctx.repo.func('DataDir._write_txt')):
        gone = [e for e in ctx.E.primitives(w) if e.kind in ('DELETE', 'RMTREE', 'RMDIR')]
        ctx.decide(not gone, 'R-ORDER', 'D4', w, gone[0].node if gone else None, 'rewrite-in-place',
                   f'{w.qualname} rewrites the file in place (it never removes it first)',
                   detail=f'`{norm(gone[0].node)[:50]}` makes the file disappear before the new content is written: a crash in '
                          f'between leaves no file, which for metadata.json reads as "no metadata"' if gone else '')
    wt = ctx.repo.func('DataDir._write_txt')
    ws = [e for e in ctx.E.primitives(wt) if e.kind == 'WRITE-HANDLE']
    ctx.decide(len(ws) == 1 and isinstance(ws[0].node.args[0], ast.Name) and ws[0].node.args[0].id in wt.params,
               'R-FLOW', 'D4', wt, ws[0].node if ws else None, 'single-write-of-parameter',
               '_write_txt writes its text parameter with a single write call',
               detail='README text is produced piecewise while the truncated file is open')
