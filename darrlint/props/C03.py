"""C03 — Array histories of append/assign/truncate equal the NumPy model."""
import ast

from ..rules import must_precede, must_follow, weak_orderings
from ..cfg import cfg_of, always_raises
from ..effects import MUTATING
from ..astutil import pubnorm, dotted, get_arg, derived, norm, enclosing, names_in, defs_of, assignments
from ..srcmodel import own_nodes, AnalysisError
from .C17 import find_committer, find_appenders, d2_data_owners, d2_commit_counts, commit_delta, committer_kind
from .C09 import d3_checker, d2_accumulator, d4_iterable, product_atoms, expand_props, recover
from .C20 import fold
from ._shared import raised_names
from . import _trunc
from ..pathcond import inline, canon

EXPLANATION = (
    "(D1) append casts to the array's dtype and checks the whole trailing shape before writing (the "
    "written value is the checker's return value); (D2) append never rewrites old bytes: seek(0, 2) "
    "precedes the write, the handle's mode comes from check_accessmode (never truncating), and the only "
    "by-path write of the data file inside Array methods sits under an emptiness test of the cached "
    "shape; (D3) the count committed is the count written (appender returns the written array's first "
    "extent, accumulators only add appender returns, committer receives them); (D4) truncate_array: the "
    "int gate (TypeError) dominates the resize; the resize runs exactly when 0 <= newlen < len — decided "
    "by evaluating the guard on every weak ordering of (0, newlen, len), the guard only compares — and "
    "the other branch raises IndexError; newlen is len(map[:index]) with index forwarded verbatim; the "
    "byte count is the monomial newlen x product(shape[1:]) x itemsize; the committer receives "
    "newlen - len; (D5) the handle's cached shape/size/dtype are assigned only in __init__ and in the "
    "committer, which derives size from the new shape and writes that same shape to the descriptor; "
    "(D6) no unguarded next() on the caller's iterable.")
ASSUMPTIONS = [
    "NumPy slicing semantics (len(a[:index])) and np.asarray casting are the reference by delegation",
    "not decided: equality with the NumPy model over whole histories; state after failed calls mid-iteration (C09)",
]


def run(ctx):
    from ._shared import no_escape_from_finally
    no_escape_from_finally(ctx, 'D1')   # a failing append raises: no clean-up swallows the exception in flight
    c = ctx.repo.cls('Array')
    committer = find_committer(ctx)
    all_appenders = find_appenders(ctx)
    appenders = [a for a in all_appenders if a.cls is c]
    if not appenders:
        raise AnalysisError('Array appender not found')
    d3_checker(ctx, c, appenders)                   # D1
    d2_data_owners(ctx, committer, appenders)       # D2 (seek-end, flush, owners)
    d2_no_truncating_open(ctx, c)
    d2_commit_counts(ctx, committer, all_appenders)     # D3
    f = c.methods['iterappend']
    d2_accumulator(ctx, f, committer, appenders)
    if c.methods.get('append') is not None:
        from .C09 import append_always_delegates
        append_always_delegates(ctx, c.methods['append'], f, clause='D1')   # rejected calls raise: no shortcut around the checks
    ap = appenders[0]
    d3_appender_return(ctx, ap)
    d4_truncate(ctx, committer)
    d5_cache(ctx, c, committer)
    from ._shared import opener_branch_agreement
    opener_branch_agreement(ctx, 'D5')
    # rejected calls leave the state unchanged: the recovery of iterappend (shared with C09)
    for n, cal in ctx.E.callees(f):
        if cal in appenders and isinstance(n, ast.Call):
            recover(ctx, f, c, n, f'appender call {norm(n.func)}', committer, appenders)
    for e in ctx.E.primitives(f):
        if e.kind == 'WRITE-PATH':
            recover(ctx, f, c, e.node, f'{e.kind} {norm(e.node)[:40]}', committer, appenders)
    sites = [(n, '') for n, cal in ctx.E.callees(f) if cal in appenders] + \
        [(e.node, '') for e in ctx.E.primitives(f) if e.kind in ('WRITE-PATH',)]
    d4_iterable(ctx, f, sites)                      # D6
    # D7: access-mode changes take effect — the opener reads the handle's current mode on every open (shared with C12)
    from ..escape import find_opener
    from ._shared import opener_default_mode
    opener_default_mode(ctx, 'D7', find_opener(ctx)[0])


def d2_no_truncating_open(ctx, c):
    ca = ctx.repo.func('utils.check_accessmode')
    # makebinary only appends 'b'
    augs = [n for n in own_nodes(ca.node) if isinstance(n, ast.AugAssign)]
    ok = len(augs) == 1 and isinstance(augs[0].value, ast.Constant) and augs[0].value.value == 'b'
    rets = [n for n in own_nodes(ca.node) if isinstance(n, ast.Return)]
    ok = ok and all(norm(r.value) == 'accessmode' for r in rets)
    # path conditions: with a mode that is not one of the valid modes no return is reachable (any layout / polarity)
    from ..pathcond import reach_under
    from ..rules import eval_bool

    def _invalid(t):
        def atom(x):
            if isinstance(x, ast.Compare) and len(x.ops) == 1 and isinstance(x.ops[0], (ast.In, ast.NotIn)) and \
                    norm(x.left) == 'accessmode' and norm(x.comparators[0]) == 'validmodes':
                return isinstance(x.ops[0], ast.NotIn)
            return None
        return eval_bool(t, atom)
    g_ = cfg_of(ca)
    may = reach_under(ca, _invalid)
    mentions = any(isinstance(x, ast.Compare) and norm(x.left) == 'accessmode' and norm(x.comparators[0]) == 'validmodes'
                   for x in own_nodes(ca.node) if isinstance(x, ast.Compare) and len(x.ops) == 1)
    ok = ok and mentions and not any(g_.node_for(r) in may for r in rets)
    ctx.decide(ok, 'R-TABLE', 'D2', ca, None, 'mode-strings',
               "check_accessmode returns one of the valid modes ('r', 'r+'), optionally with 'b' appended: the data file is never opened in a truncating mode through it",
               detail='check_accessmode can return a mode other than r / r+ (+b)')
    for f in c.all_funcs():
        for e in ctx.E.primitives(f):
            if e.kind in ('WRITE-PATH', 'TRUNC-WRITE', 'CREATE') and e.role == 'DATA':
                guarded = False
                for p, fld in enclosing(f.node, e.node):
                    if isinstance(p, ast.If) and fld == 'body':
                        t = norm(p.test)
                        if any(k in t for k in ('self._shape', 'self._size', 'self.shape', 'self.size', 'len(self)')) and '== 0' in t:
                            guarded = True
                ctx.decide(guarded, 'R-DOM', 'D2', f, e.node, f'overwrite-only-when-empty::{e.kind}',
                           f'{f.qualname}: the by-path (overwriting) write of the data file is under an emptiness test of the cached shape',
                           detail='the data file can be overwritten while it holds data')


def d3_appender_return(ctx, ap):
    writes = [e for e in ctx.E.primitives(ap) if e.kind == 'WRITE-HANDLE']
    rets = [n for n in own_nodes(ap.node) if isinstance(n, ast.Return) and n.value is not None]
    ok = bool(writes) and bool(rets)
    for r in rets:
        from ..astutil import written_base
        recv = norm(written_base(writes[0].node)[0]) if writes else ''
        ok = ok and norm(r.value) in (f'{recv}.shape[0]', f'len({recv})')
    ctx.decide(ok, 'R-FLOW', 'D3', ap, rets[0] if rets else None, 'returns-rows-written',
               f'{ap.qualname} returns the first extent of the array it wrote',
               detail='the count returned is not the length of the written array')


def d4_truncate(ctx, committer):
    f = ctx.repo.func('array.truncate_array')
    resizes = [e for e in ctx.E.primitives(f) if e.kind == 'RESIZE']
    if not resizes:
        raise AnalysisError('truncate_array: resize vanished')
    r = resizes[0]
    obj, index = f.params[0], f.params[1]
    # int gate (path-condition evaluation: polarity- and layout-independent)
    ctx.decide(_trunc.int_gate(f, [r.node], index), 'R-DOM', 'D4', f, r.node, 'int-gate',
               f'truncate_array: a non-int `{index}` raises TypeError and never reaches the resize of the data file',
               detail='a non-int index can reach os.truncate')
    # newlen = len(map[:index])  (variable found by role)
    nls = _trunc.find_newlen(f, index)
    ctx.decide(len(nls) == 1, 'R-FLOW', 'D4', f, nls[0][1] if nls else None, 'newlen-by-numpy-slicing',
               f'truncate_array: the new length is len(map[:{index}]) with `{index}` forwarded verbatim (NumPy slicing semantics)',
               detail='new length is not computed by NumPy slicing of the verbatim index')
    newlen = nls[0][0] if len(nls) == 1 else None
    if newlen is None:
        return
    rows = _trunc.shrink_rows(f, r.node, newlen, obj, index)
    wrong, unknown = _trunc.judge(rows)
    inst = f'truncate_array: the resize runs exactly when 0 <= {newlen} < len({obj}) (path conditions folded on {len(rows)} order types)'
    if unknown:
        ctx.assume('R-TABLE', 'D4', f, r.node, 'shrink-guard', inst, detail='a test deciding the resize is not a pure comparison of the new length and len')
    else:
        ctx.decide(not wrong, 'R-TABLE', 'D4', f, r.node, 'shrink-guard', inst, detail='; '.join(wrong[:3]), witness=wrong)
    badrej = _trunc.rejects_with(rows, 'IndexError')
    ctx.decide(not badrej, 'R-DOM', 'D4', f, r.node, 'else-raises-indexerror',
               'truncate_array: an index that does not shorten the array raises IndexError', detail='; '.join(badrej[:2]) or 'no IndexError branch')
    # byte count monomial
    arg = r.node.args[1] if len(r.node.args) > 1 else None
    if isinstance(arg, ast.Name):
        ds = [v for v, _ in defs_of(f.node, arg.id)]
        arg = ds[0] if len(ds) == 1 else arg
    atoms = product_atoms(arg) if arg is not None else None
    if atoms is not None:
        atoms = tuple(sorted(pubnorm(a_) for a_ in atoms))
    want = [tuple(sorted((f'{obj}.itemsize', newlen, f'product({obj}.shape[1:])'))),
            tuple(sorted((f'{obj}.itemsize', newlen, f'np.prod({obj}.shape[1:])')))]
    if atoms is None:
        ctx.assume('R-FLOW', 'D4', f, r.node, 'byte-count', 'truncate_array: byte count = newlen x product(shape[1:]) x itemsize',
                   detail='not a pure product')
    else:
        ctx.decide(tuple(sorted(atoms)) in want, 'R-FLOW', 'D4', f, r.node, 'byte-count',
                   'truncate_array: byte count = newlen x product(shape[1:]) x itemsize',
                   detail=f'file is cut to `{" * ".join(atoms)}` bytes')
    # path is the data path of the same handle
    pv = r.path
    ctx.decide(pv is not None and pv.role == 'DATA', 'R-OWN', 'D4', f, r.node, 'resizes-data-file',
               'truncate_array resizes the handle\'s data file', detail=f'target {pv}')
    # committer arg
    for node, cal in ctx.E.callees(f):
        if cal is committer and isinstance(node, ast.Call):
            a = commit_delta(ctx, committer, node, f)
            if isinstance(a, ast.Name):
                ds = [v for v, _ in defs_of(f.node, a.id)]
                a = ds[0] if len(ds) == 1 else a
            a = inline(f, a) if a is not None else a
            ok = isinstance(a, ast.BinOp) and isinstance(a.op, ast.Sub) and \
                norm(a.left) in (newlen, norm(nls[0][1])) and pubnorm(a.right) in (f'len({obj})', f'{obj}.shape[0]')
            ctx.decide(ok, 'R-FLOW', 'D4', f, node, 'commit-delta', 'truncate_array commits newlen - len(a)',
                       detail=f'committed delta is {norm(a)}')
            ctx.decide(must_precede(f, node, [r.node]), 'R-ORDER', 'D4', f, node, 'resize-before-commit',
                       'truncate_array resizes the file before rewriting the descriptor', detail='descriptor first')


def d5_cache(ctx, c, committer):
    allowed = {'Array.__init__', committer.qualname}
    for a in ('_shape', '_size', '_dtype'):
        for f, val, st in c.attr_exprs.get(a, []):
            ctx.decide(f.qualname in allowed, 'R-OWN', 'D5', f, st, f'cache-attr::{a}',
                       f'self.{a} is assigned in {f.qualname}',
                       detail=f'the cached {a} is changed outside __init__ and the committer: handle and descriptor can disagree')
    # committer: newshape[0] += lenincrease; _shape = tuple(newshape); _size = product(_shape); descriptor gets _shape
    body = committer.node
    aug = [n for n in own_nodes(body) if isinstance(n, ast.AugAssign) and isinstance(n.op, ast.Add)
           and isinstance(n.target, ast.Subscript) and isinstance(n.target.slice, ast.Constant) and n.target.slice.value == 0]
    param = [p for p in committer.params if p != 'self'][0]
    ok = len(aug) == 1 and norm(aug[0].value) == param
    if not ok and not aug:
        # tuple arithmetic: self._shape = (<shape>[0] + param,) + <shape>[1:]
        for f_, v_, st_ in c.attr_exprs.get('_shape', []):
            if f_ is committer:
                t = canon(committer, v_).replace(' ', '')
                for sh in ('self._shape', 'self.shape'):
                    if t in (f'({sh}[0]+{param},)+{sh}[1:]', f'({param}+{sh}[0],)+{sh}[1:]',
                             f'({sh}[0]+{param},*{sh}[1:])', f'({sh}[0]+{param},)+tuple({sh}[1:])'):
                        ok = True
    if not ok and not aug and committer_kind(ctx, committer) == 'absolute':
        # absolute committer: self._shape = (<param>,) + <shape>[1:]  (only the first extent is replaced)
        for f_, v_, st_ in c.attr_exprs.get('_shape', []):
            if f_ is committer:
                t = canon(committer, v_).replace(' ', '')
                for sh in ('self._shape', 'self.shape'):
                    if t in (f'({param},)+{sh}[1:]', f'({param},)+tuple({sh}[1:])', f'({param},*{sh}[1:])'):
                        ok = True
    anyaug = [n for n in own_nodes(body) if isinstance(n, ast.AugAssign) and isinstance(n.target, ast.Subscript)]
    if ok or anyaug:
        ctx.decide(ok, 'R-FLOW', 'D5', committer, aug[0] if aug else None, 'first-axis-increment',
                   f'{committer.qualname} adds `{param}` to the first extent only', detail='shape update changed')
    else:
        ctx.assume('R-FLOW', 'D5', committer, None, 'first-axis-increment',
                   f'{committer.qualname} adds `{param}` to the first extent only', detail='shape update in a form the rule does not model')
    sz = [v for f, v, st in c.attr_exprs.get('_size', []) if f is committer]
    ok = bool(sz) and norm(sz[0]) in ('product(self._shape)', 'np.prod(self._shape)', 'product(self.shape)')
    ctx.decide(ok, 'R-FLOW', 'D5', committer, sz[0] if sz else None, 'size-from-shape',
               f'{committer.qualname} recomputes the size from the new shape', detail='size not derived from the new shape')
    calls = [n for n in own_nodes(body) if isinstance(n, ast.Call) and get_arg(n, None, 'shape') is not None]
    shp = get_arg(calls[0], None, 'shape') if calls else None
    if shp is None:
        # or a dictionary argument {'shape': <shape>} handed to the descriptor updater
        for n in own_nodes(body):
            if isinstance(n, ast.Call):
                for a_ in n.args:
                    a_ = inline(committer, a_)
                    if isinstance(a_, ast.Dict):
                        for k_, v_ in zip(a_.keys, a_.values):
                            if isinstance(k_, ast.Constant) and k_.value == 'shape':
                                shp, calls = v_, [n]
    ok = shp is not None and pubnorm(shp) in ('self.shape',)
    ctx.decide(ok, 'R-FLOW', 'D5', committer, calls[0] if calls else None, 'descriptor-gets-handle-shape',
               f'{committer.qualname} writes the shape it stored in the handle to the descriptor',
               detail='descriptor and handle receive different shapes')
    # _update_arrayinfo: read-modify-write of the descriptor file
    ui = c.methods.get('_update_arrayinfo')
    if ui is not None:
        ok = any(isinstance(n, ast.Call) and isinstance(n.func, ast.Attribute) and n.func.attr == 'update' for n in own_nodes(ui.node)) \
            and any(cal.qualname == 'DataDir._write_jsondict' for _, cal in ctx.E.callees(ui))
        wr = [n for n, cal in ctx.E.callees(ui) if cal.qualname == 'DataDir._write_jsondict']
        ow = get_arg(wr[0], None, 'overwrite') if wr else None
        ctx.decide(ok and isinstance(ow, ast.Constant) and ow.value is True, 'R-FLOW', 'D5', ui, wr[0] if wr else None,
                   'descriptor-rmw', '_update_arrayinfo merges into the re-read descriptor and rewrites it (overwrite=True)',
                   detail='descriptor update is not a read-modify-write')
    ln = c.methods.get('__len__')
    ok = ln is not None and any(isinstance(n, ast.Return) and norm(n.value) in ('self._shape[0]', 'self.shape[0]') for n in own_nodes(ln.node))
    ctx.decide(ok, 'R-FLOW', 'D5', ln or committer, None, 'len-from-shape', 'len(array) is the cached first extent', detail='__len__ changed')
