"""C16 — deletion and creation never destroy data that is not theirs.

A who-may-touch property: the complete list of delete / rmdir / rmtree /
rename sites of the package is classified against the owners allowed to
perform them, the refusal of non-arrays and the overwrite gates are decided
as gate-dominance obligations."""
import ast

from ..rules import (GateAnalysis, OverwriteGate, must_precede, chain_text, eval_bool,
                     is_exists_call, handler_reraises)
from ..cfg import cfg_of, always_raises, is_catch_all, handler_names
from ..effects import MUTATING
from ..astutil import dotted, get_arg, derived, norm, enclosing, names_in
from ..srcmodel import own_nodes, AnalysisError
from .C11 import CREATORS

EXPLANATION = (
    "Who-may-touch analysis: every DELETE / RMDIR / RMTREE / RENAME / COPYTREE site of the "
    "package (primitive-effect table over the resolved program) is classified by the symbolic "
    "role of its target path and checked against the closed set of owners; directory-listing "
    "driven deletion is excluded; delete/truncate-by-path construct the handle inside a "
    "try whose catch-all handler raises TypeError before any effect (R-DOM); every effect of "
    "the creating functions is dominated by an overwrite gate that raises exactly when the "
    "target exists and overwrite is false, with path/overwrite forwarded verbatim (R-FLOW); "
    "creators never remove anything but a stale metadata.json (effect-set inclusion); archive "
    "validates the compression type first, creates exclusively unless overwrite, and adds the "
    "whole directory under its own name.")
ASSUMPTIONS = [
    "primitive-effect table (effects.py) lists every stdlib call that removes or renames files",
    "Path.rmdir refuses non-empty directories (that refusal turns foreign content into OSError)",
    "tarfile mode 'x:' fails if the archive exists",
    "not decided: what the OS does with exotic directory entries; byte-identity snapshots",
]

LISTING = {'iterdir', 'glob', 'rglob', 'scandir', 'walk', 'listdir'}


def enclosing_tests(func, node):
    for p, field in enclosing(func.node, node):
        if isinstance(p, ast.If) and field in ('body', 'orelse'):
            yield p, field


def run(ctx):
    d1_delete_sites(ctx)
    d3_refuse_non_arrays(ctx)
    d4_overwrite(ctx)
    d5_creator_effect_set(ctx)
    d6_archive_copy(ctx)


def d1_delete_sites(ctx):
    E = ctx.E
    counts = {'DELETE': 0, 'RMDIR': 0, 'RMTREE': 0, 'RENAME': 0, 'COPYTREE': 0, 'MKDIR': 0}
    deleters = []
    for f in ctx.repo.all_funcs():
        prims = E.primitives(f)
        kinds = {e.kind for e in prims}
        if kinds & {'DELETE', 'RMDIR', 'RMTREE'}:
            deleters.append(f)
            for n in own_nodes(f.node):
                if isinstance(n, ast.Call):
                    nm = dotted(n.func) or ''
                    a = n.func.attr if isinstance(n.func, ast.Attribute) else nm
                    if a in LISTING or nm in ('os.listdir', 'os.walk', 'os.scandir', 'glob.glob'):
                        ctx.bad('R-OWN', 'D1', f, n, f'listing::{a}',
                                f'{f.qualname} deletes and lists a directory ({norm(n)[:50]})',
                                detail='deletion driven by a directory listing can remove files '
                                       'Darr did not create')
        for e in prims:
            if e.kind not in counts:
                continue
            counts[e.kind] += 1
            pv = e.path
            construct = f'{e.kind}::{pv.base if pv else None}::{pv.name if pv else None}'
            inst = f'{e.kind} of {norm(e.node)[:50]} — target {pv}'
            if e.kind == 'DELETE':
                ok, why = False, 'unlink outside the closed set of owners'
                if pv is None:
                    why = 'target path is not derived from an array directory and a Darr file name'
                elif pv.name is not None and pv.name[0] == 'protected' and pv.base[0] == 'dir':
                    ok = True        # delete functions: names drawn from _protectedfiles
                elif pv.role == 'META' and f.qualname in CREATORS:
                    guarded = any(any(is_exists_call(x) for x in ast.walk(p.test))
                                  for p, _ in enclosing_tests(f, e.node))
                    ok, why = guarded, 'stale-metadata unlink in a creator is not guarded by exists()'
                elif pv.base == ('META',) and f.cls is not None and f.cls.name == 'MetaData':
                    ok = True
                elif pv.role == 'USERFILE' and f.cls is not None and f.cls.name == 'DataDir' \
                        and f.name.startswith('_'):
                    ok = True        # private deleter behind the C20 guard
                ctx.decide(ok, 'R-OWN', 'D1', f, e.node, construct, inst, detail=why)
            elif e.kind == 'RMTREE':
                ctx.decide(pv is not None and pv.role == 'TEMP', 'R-OWN', 'D2', f, e.node, construct, inst,
                           detail='shutil.rmtree on anything but the directory returned by the '
                                  'function\'s own mkdtemp removes foreign content')
            elif e.kind == 'RMDIR':
                ok = pv is not None and pv.name is None and pv.base[0] == 'dir'
                why = 'rmdir target is not the array directory of the handle'
                if ok:
                    # inside try whose OSError handler re-raises OSError
                    ok = False
                    why = 'rmdir is not inside a try whose OSError handler re-raises OSError'
                    for p, field in enclosing(f.node, e.node):
                        if isinstance(p, ast.Try) and field == 'body':
                            hs = [h for h in p.handlers if handler_names(h) & {'OSError', 'Exception',
                                                                             'BaseException'}]
                            if hs and all(handler_reraises(h, {'OSError'}) for h in hs):
                                ok = True
                            break
                    else:
                        ok, why = True, ''     # no try at all: OSError propagates
                ctx.decide(ok, 'R-OWN', 'D2', f, e.node, construct, inst, detail=why)
            elif e.kind == 'RENAME':
                ctx.bad('R-OWN', 'D1', f, e.node, construct, inst,
                        detail='no function of the package is allowed to rename/move files')
            elif e.kind == 'COPYTREE':
                ok = f.qualname == 'DataDir.copy'
                ctx.decide(ok, 'R-OWN', 'D6', f, e.node, construct, inst,
                           detail='copytree outside DataDir.copy')
            elif e.kind == 'MKDIR':
                ok = pv is None or pv.role in ('DIR', 'TEMP', 'UNKNOWN')
                ctx.decide(ok, 'R-OWN', 'D5', f, e.node, construct, inst, detail='mkdir of a file role')
    # swallowed failures in deleting functions
    for f in ctx.repo.all_funcs():
        if not any(e.kind in ('DELETE', 'RMDIR') for e in E.may(f)):
            continue
        if f.cls is not None and f.cls.name == 'MetaData':
            continue
        for n in own_nodes(f.node):
            if isinstance(n, ast.Try):
                body_deletes = False
                for c in ast.walk(ast.Module(body=n.body, type_ignores=[])):
                    if isinstance(c, ast.Call):
                        for k, t in ctx.R.resolve_call(c, f):
                            if k == 'repo' and any(e.kind in ('DELETE', 'RMDIR') for e in E.may(t)):
                                body_deletes = True
                        if any(e.node is c and e.kind in ('DELETE', 'RMDIR') for e in E.primitives(f)):
                            body_deletes = True
                if not body_deletes:
                    continue
                for h in n.handlers:
                    ctx.decide(always_raises(h.body), 'R-RECOVER', 'D2', f, h,
                               f'handler::{"/".join(sorted(handler_names(h)))}',
                               f'{f.qualname}: handler around a deletion re-raises',
                               detail='a handler swallows the failure of a deletion (foreign content '
                                      'would be left behind silently)')
    ctx.floor('C16 unlink sites', counts['DELETE'], 4)
    ctx.floor('C16 rmdir sites', counts['RMDIR'], 2)
    ctx.floor('C16 rmtree sites', counts['RMTREE'], 1)
    ctx.floor('C16 mkdir sites', counts['MKDIR'], 2)
    ctx.floor('C16 copytree sites', counts['COPYTREE'], 1)
    ctx.info['site_counts'] = counts


def d3_refuse_non_arrays(ctx):
    """delete_* / truncate_* by path: constructor inside try, catch-all handler
    raises TypeError, no effect before it."""
    n = 0
    for mn in ('array', 'raggedarray'):
        m = ctx.repo.module(mn)
        for f in m.funcs.values():
            if not f.is_public or f.qualname in CREATORS:
                continue
            if not any(e.kind in MUTATING for e in ctx.E.may(f)):
                continue
            # find `if not isinstance(x, Cls): x = Cls(x, ...)` inside a Try
            found = None
            for t in own_nodes(f.node):
                if not isinstance(t, ast.Try):
                    continue
                for c in ast.walk(ast.Module(body=t.body, type_ignores=[])):
                    if isinstance(c, ast.Call) and c.args and isinstance(c.args[0], ast.Name) and \
                            c.args[0].id in f.params:
                        tg = [x for k, x in ctx.R.resolve_call(c, f) if k == 'repo']
                        if tg and tg[0].name == '__init__' and tg[0].cls.name in ('Array', 'RaggedArray'):
                            found = (t, c, tg[0].cls.name)
            if found is None:
                if f.params and f.params[0] in ('da', 'a', 'ra', 'dra') or mn in ('array', 'raggedarray') \
                        and f.name.startswith(('delete_', 'truncate_')):
                    ctx.bad('R-DOM', 'D3', f, None, 'ctor-in-try', f'{f.qualname} constructs the handle inside try',
                            detail='no constructor call inside a try block found')
                    n += 1
                continue
            t, c, cname = found
            n += 1
            hs = t.handlers
            catch_all = any(is_catch_all(h) for h in hs)
            ok = catch_all and all(handler_reraises(h, {'TypeError'}) for h in hs)
            ctx.decide(ok, 'R-DOM', 'D3', f, t, 'ctor-in-try',
                       f'{f.qualname}: {cname}(...) inside try; catch-all handler raises TypeError',
                       detail='open failures of a non-array path are not all converted to TypeError')
            # no mutating effect before the try
            cfg = cfg_of(f)
            first = cfg.node_for(t.body[0])
            bad = []
            for e in ctx.E.primitives(f):
                if e.kind in MUTATING and not must_precede(f, e.node, [t.body[0]]):
                    bad.append(e.describe())
            for node, callee in ctx.E.callees(f):
                if callee.name == '__init__':
                    continue
                if any(e.kind in MUTATING for e in ctx.E.may(callee)):
                    try:
                        if not must_precede(f, node, [t.body[0]]):
                            bad.append(f'{norm(node)[:40]}')
                    except KeyError:
                        pass
            ctx.decide(not bad, 'R-DOM', 'D3', f, t, 'no-effect-before-refusal',
                       f'{f.qualname}: every mutating step follows the handle construction',
                       detail=f'effects that can run before the array is recognised: {bad}')
    ctx.floor('C16 D3 delete/truncate-by-path functions', n, 4)
    # D3b: deletion through a handle *object* re-validates what is on disk first: every unlink/rmdir of a public delete
    # function is preceded by a call that opens the array's data (the opener refuses a directory that no longer holds the
    # array) — a stale handle whose path was re-used must not remove the new occupant's files
    for spec in ('array.delete_array', 'raggedarray.delete_raggedarray'):
        f = ctx.repo.func(spec)
        sites = [e.node for e in ctx.E.primitives(f) if e.kind in ('DELETE', 'RMDIR')]
        validators = [nd for nd, cal in ctx.E.callees(f) if isinstance(nd, ast.Call) and
                      any(e.kind == 'MAP' for e in ctx.E.may(cal)) and not any(e.kind in ('DELETE', 'RMDIR') for e in ctx.E.may(cal))]
        late = [s_ for s_ in sites if not (validators and must_precede(f, s_, validators))]
        ctx.decide(not late, 'R-DOM', 'D3', f, late[0] if late else (sites[0] if sites else None), 'revalidate-before-delete',
                   f'{f.qualname}: the array on disk is opened (validated) before the first file is removed',
                   detail='files are unlinked before anything checks that the directory still holds this array: with a '
                          'stale handle whose path was re-used, README.txt / metadata.json / arraydescription.json of '
                          'the new occupant are removed before the call fails')
    # delete_raggedarray specifics
    f = ctx.repo.func('raggedarray.delete_raggedarray')
    for e in ctx.E.primitives(f):
        if e.kind == 'DELETE':
            # path conditions: when the name is a directory the unlink is unreachable
            from ..pathcond import runs_under as _ru

            def _isdir(t):
                def atoms(x):
                    if isinstance(x, ast.Call) and isinstance(x.func, ast.Attribute) and x.func.attr == 'is_dir':
                        return True
                    if is_exists_call(x):
                        return True
                    return None
                return eval_bool(t, atoms)
            ok = _ru(f, e.node, _isdir) is False
            ctx.decide(ok, 'R-OWN', 'D3', f, e.node, 'top-level-files-only',
                       'delete_raggedarray unlinks top-level names only when they are not directories',
                       detail='unlink is not guarded by `not path.is_dir()`')
    subs = []
    for node, callee in ctx.E.callees(f):
        if callee.qualname == 'delete_array' and isinstance(node, ast.Call) and node.args:
            subs.append(norm(node.args[0]))
    ctx.decide(len(set(subs)) >= 2, 'R-OWN', 'D3', f, None, 'subarrays-via-delete_array',
               f'delete_raggedarray hands both sub-arrays to delete_array ({sorted(set(subs))})',
               detail='sub-directories are not both removed through delete_array (which removes only '
                      'Darr files and refuses foreign content)')


def _mut_site(e):
    if e.kind not in MUTATING:
        return False
    if e.kind == 'MKDIR' and (e.path is None or e.role in ('UNKNOWN', 'TEMP')):
        return False       # mkdtemp: a fresh private directory
    if e.kind == 'RMTREE' and e.role == 'TEMP':
        return False
    if e.kind in ('WRITE-HANDLE', 'RESIZE', 'STORE'):
        return False       # needs a handle whose opening is itself an effect site
    return True


ROOTS = ('array.asarray', 'array.create_array', 'array.create_temparray',
         'raggedarray.asraggedarray', 'raggedarray.create_raggedarray',
         'Array.copy', 'RaggedArray.copy')
OVERWRITE_EXCEPTIONS = {
    ('create_raggedarray', 'create_array'):
        'replaces the indices array the same call has just created under its own path',
}


def d4_overwrite(ctx):
    GA = GateAnalysis(ctx, OverwriteGate())
    nsites = 0
    for spec in ROOTS:
        f = ctx.repo.func(spec)
        sites = GA.gated_sites(f, _mut_site)
        ung = GA.ungated(f, _mut_site)
        nsites += len(sites)
        ctx.decide(not ung, 'R-DOM', 'D4', f, None, 'overwrite-gate-dominates',
                   f'{f.qualname}: {len(sites)} effect site(s) all dominated by an overwrite gate',
                   detail='reachable without passing a test that raises when the target exists and '
                          'overwrite is false: ' + '; '.join(
                              f'{e.describe()} via {chain_text(ch)}' for ch, e in ung[:3]),
                   witness=[f'{e.describe()} via {chain_text(ch)}' for ch, e in ung])
        # verbatim forwarding of overwrite (and path) to every callee that takes it
        if 'overwrite' not in f.params and 'overwrite' not in f.kwonly:
            ctx.bad('R-FLOW', 'D4', f, None, 'has-overwrite-param', f'{f.qualname} takes overwrite',
                    detail='creator has no overwrite parameter')
            continue
        d = f.param_defaults().get('overwrite')
        ctx.decide(isinstance(d, ast.Constant) and d.value is False, 'R-TABLE', 'D4', f, d,
                   'overwrite-default', f'{f.qualname}: overwrite defaults to False',
                   detail='overwrite default is not False')
        for node, callee in ctx.E.callees(f):
            if not isinstance(node, ast.Call):
                continue
            if 'overwrite' not in callee.params and 'overwrite' not in callee.kwonly:
                continue
            arg = get_arg(node, None, 'overwrite')
            if arg is None:
                ps = [p for p in callee.params if p != 'self']
                if 'overwrite' in ps and ps.index('overwrite') < len(node.args):
                    arg = node.args[ps.index('overwrite')]
            key = (f.qualname, callee.qualname)
            construct = f'forward-overwrite::{callee.qualname}'
            inst = f'{f.qualname} -> {callee.qualname}(overwrite={norm(arg) if arg is not None else "<default False>"})'
            if arg is None:
                ctx.ok('R-FLOW', 'D4', f, node, construct, inst + ' (safe default)')
            elif isinstance(arg, ast.Name) and arg.id == 'overwrite' and \
                    not [1 for nm, v, s in __import__('darrlint.astutil', fromlist=['assignments']).assignments(f.node)
                         if nm == 'overwrite']:
                ctx.ok('R-FLOW', 'D4', f, node, construct, inst)
            elif key in OVERWRITE_EXCEPTIONS and isinstance(arg, ast.Constant):
                # must follow (be dominated by) a gate
                cfg = cfg_of(f)
                gates = set(GA.local_gates(f))
                dominated = not cfg.can_reach(cfg.entry, cfg.node_for(node), avoid=gates)
                ctx.decide(dominated, 'R-FLOW', 'D4', f, node, construct,
                           inst + f' — frozen exception: {OVERWRITE_EXCEPTIONS[key]}',
                           detail='the constant overwrite is not preceded by the overwrite gate')
            else:
                ctx.bad('R-FLOW', 'D4', f, node, construct, inst,
                        detail='overwrite is not forwarded verbatim: the callee may replace existing '
                               'data although the caller asked not to')
    # gate functions' own argument forwarding: create_datadir(path=<own path>, overwrite=<own overwrite>)
    cd = ctx.repo.func('datadir.create_datadir')
    ctx.decide(GA.is_gate_func(cd), 'R-DOM', 'D4', cd, None, 'is-gate',
               'create_datadir raises when the path exists and overwrite is false, on every path',
               detail='create_datadir no longer is an overwrite gate')
    # the directory creation is exclusive unless overwrite was asked for: `exists()` + `mkdir()` is check-then-act, and
    # the plain mkdir (FileExistsError) is what refuses a directory another writer created in between.  mkdir with
    # exist_ok=True is accepted only where overwrite is known to be true (or exist_ok is `overwrite` itself).
    from ..pathcond import reach_under
    from ._trunc import folder
    nmk = 0
    for e in ctx.E.primitives(cd):
        if e.kind != 'MKDIR' or not isinstance(e.node, ast.Call):
            continue
        nmk += 1
        eo = get_arg(e.node, None, 'exist_ok')
        if eo is None and (dotted(e.node.func) or '') in ('os.makedirs',) and len(e.node.args) > 2:
            eo = e.node.args[2]
        inst = 'create_datadir: the directory is created exclusively (mkdir refuses an existing directory) unless overwrite'
        if eo is None or (isinstance(eo, ast.Constant) and not eo.value):
            ctx.ok('R-TABLE', 'D4', cd, e.node, 'exclusive-mkdir', inst)
        elif isinstance(eo, ast.Name) and eo.id == 'overwrite':
            ctx.ok('R-TABLE', 'D4', cd, e.node, 'exclusive-mkdir', inst + ' (exist_ok=overwrite)')
        else:
            g = cfg_of(cd)
            reach = reach_under(cd, folder({'overwrite': False}, cd))
            ctx.decide(g.node_for(e.node) not in reach, 'R-TABLE', 'D4', cd, e.node, 'exclusive-mkdir', inst,
                       detail=f'mkdir(exist_ok={norm(eo)}) is reachable with overwrite=False: a directory that another '
                              f'writer creates between the exists() test and the mkdir is silently adopted, and the '
                              f'creator goes on to truncate and rewrite its files although overwrite was not requested')
    ctx.floor('C16 mkdir sites of create_datadir', nmk, 1)
    ncalls = 0
    for f in ctx.repo.all_funcs():
        for node, callee in ctx.E.callees(f):
            if callee is cd and isinstance(node, ast.Call):
                ncalls += 1
                parg = get_arg(node, 0, 'path')
                ok = parg is not None and 'path' in derived(f.node, parg)
                ctx.decide(ok, 'R-FLOW', 'D4', f, node, 'create_datadir-path',
                           f'{f.qualname}: create_datadir is given the function\'s own path',
                           detail='the gate tests a different path than the one written to')
    ctx.floor('C16 create_datadir call sites', ncalls, 2)
    for spec in ('utils.write_jsonfile', 'DataDir._write_txt'):
        f = ctx.repo.func(spec)
        ung = GA.ungated(f, _mut_site)
        ctx.decide(not ung, 'R-DOM', 'D4', f, None, 'own-overwrite-gate',
                   f'{f.qualname}: truncating open dominated by its own overwrite gate',
                   detail='; '.join(e.describe() for _, e in ung))
    for func, node, text in GA.bad_gates:
        ctx.bad('R-DOM', 'D4', func, node, f'gate::{norm(node.test)}', f'overwrite gate in {func.qualname}',
                detail=text)
    seen = set()
    for func, node, text in GA.assumed_gates:
        if (func.key, node.lineno) not in seen:
            seen.add((func.key, node.lineno))
            ctx.assume('R-DOM', 'D4', func, node, f'gate::{norm(node.test)}',
                       f'overwrite-related test in {func.qualname}', detail=text)
    ctx.floor('C16 effect sites under creators', nsites, 25)


def d5_creator_effect_set(ctx):
    for spec in ROOTS:
        f = ctx.repo.func(spec)
        bad = []
        for e in ctx.E.may(f):
            if e.kind in ('RMDIR', 'RENAME', 'COPYTREE'):
                bad.append(e.describe())
            elif e.kind == 'RMTREE' and e.role != 'TEMP':
                bad.append(e.describe())
            elif e.kind == 'DELETE' and e.role != 'META':
                bad.append(e.describe())
        ctx.decide(not bad, 'R-OWN', 'D5', f, None, 'creator-effect-set',
                   f'{f.qualname}: may-effects remove nothing but a stale metadata.json',
                   detail='; '.join(bad[:3]), witness=bad)


def d6_archive_copy(ctx):
    f = ctx.repo.func('DataDir.archive')
    tars = [e for e in ctx.E.primitives(f) if e.kind == 'TAR-CREATE']
    if not tars:
        raise AnalysisError('DataDir.archive: tarfile.open site vanished')
    others = [e for e in ctx.E.may(f) if e.kind in MUTATING and e.kind != 'TAR-CREATE']
    ctx.decide(not others, 'R-OWN', 'D6', f, None, 'archive-effect-set',
               'archive performs no file-system effect other than creating the archive',
               detail='; '.join(e.describe() for e in others))
    for e in tars:
        # validation precedes: with a compression type outside the supported set (locals inlined, tests folded)
        # tarfile.open is unreachable and ValueError is raised — whatever the polarity/layout of the test
        from ..pathcond import runs_under, outcome_under
        from ._trunc import folder
        ft = folder({'compressiontype': '<<unsupported>>'}, f)
        normal, raised = outcome_under(f, ft)
        ctx.decide(runs_under(f, e.node, ft) is False and 'ValueError' in raised, 'R-DOM', 'D6', f, e.node,
                   'compression-validated-first',
                   'archive validates the compression type before tarfile.open',
                   detail='tarfile.open is reachable without the ValueError check')
        # mode
        marg = get_arg(e.node, 1, 'mode')
        ok, why = _tar_mode_ok(f, marg)
        inst = f"archive opens the tar file with mode {norm(marg) if marg is not None else None}: 'x' unless overwrite"
        if ok is None:
            ctx.assume('R-FLOW', 'D6', f, e.node, 'exclusive-create-unless-overwrite', inst, detail=why)
        else:
            ctx.decide(ok, 'R-FLOW', 'D6', f, e.node, 'exclusive-create-unless-overwrite', inst, detail=why)
    # every normal completion of archive() has written the archive in this very call: no return is reachable without
    # passing tarfile.open (an early "still up to date" return, judged by time stamps or sizes, hands back an archive
    # whose extraction differs from the directory — in-place rewrites do not touch the directory's mtime)
    rets = [n for n in own_nodes(f.node) if isinstance(n, ast.Return)]
    early = [r for r in rets if not must_precede(f, r, [e.node for e in tars])]
    ctx.decide(bool(rets) and not early, 'R-POST', 'D6', f, early[0] if early else None, 'archive-always-written',
               'archive: every return is preceded by tarfile.open on all paths (the archive handed back was written by this call)',
               detail=f'a return at line {early[0].lineno if early else 0} is reachable without creating the archive: an '
                      f'existing file is handed back as the archive of the current content')
    adds = [n for n in own_nodes(f.node) if isinstance(n, ast.Call) and
            isinstance(n.func, ast.Attribute) and n.func.attr == 'add']
    ok = bool(adds)
    for a in adds:
        ok_one = False
        src = a.args[0] if a.args else get_arg(a, None, 'name')
        arc = get_arg(a, 1, 'arcname')
        pv = ctx.E.pathval(src, f) if src is not None else None
        rec = get_arg(a, 2, 'recursive')
        if pv is not None and pv.name is None and pv.base[0] == 'dir' and arc is not None and \
                isinstance(arc, ast.Attribute) and arc.attr == 'name' and norm(arc.value) == norm(src) and \
                (rec is None or (isinstance(rec, ast.Constant) and rec.value is True)):
            ok_one = True
        ok = ok and ok_one      # EVERY add is the whole directory (a second route that adds selected names leaves files out)
    ctx.decide(ok, 'R-FLOW', 'D6', f, adds[0] if adds else None, 'whole-dir-under-own-name',
               'archive adds the whole array directory under its own name',
               detail='tf.add does not add self.path recursively with arcname=self.path.name (sub-directories such as '
                      'values/ and indices/ of a ragged array would be archived empty)')
    # DataDir.copy
    f = ctx.repo.func('DataDir.copy')
    for e in ctx.E.primitives(f):
        if e.kind == 'COPYTREE':
            gates = [n for n in own_nodes(f.node) if isinstance(n, ast.If) and always_raises(n.body)
                     and any(is_exists_call(x) for x in ast.walk(n.test))
                     and eval_bool(n.test, lambda x: True if is_exists_call(x) else None) is True]
            ctx.decide(bool(gates) and must_precede(f, e.node, gates), 'R-DOM', 'D6', f, e.node,
                       'copy-refuses-existing', 'DataDir.copy refuses an existing destination before copytree',
                       detail='copytree reachable without the exists() refusal')
            deo = get_arg(e.node, None, 'dirs_exist_ok')
            ctx.decide(deo is None or (isinstance(deo, ast.Constant) and deo.value is False),
                       'R-TABLE', 'D6', f, e.node, 'dirs_exist_ok',
                       'copytree is called with dirs_exist_ok=False', detail='dirs_exist_ok is not False')


def _mode_head(marg):
    """The expression that supplies the first character(s) of the tar mode string, or None."""
    if isinstance(marg, ast.JoinedStr) and marg.values:
        v0 = marg.values[0]
        if isinstance(v0, ast.FormattedValue):
            return v0.value
        if isinstance(v0, ast.Constant):
            return v0
    if isinstance(marg, ast.BinOp) and isinstance(marg.op, ast.Add):
        e = marg
        while isinstance(e, ast.BinOp) and isinstance(e.op, ast.Add):
            e = e.left
        return e
    if isinstance(marg, ast.BinOp) and isinstance(marg.op, ast.Mod) and isinstance(marg.left, ast.Constant) and \
            isinstance(marg.left.value, str) and marg.left.value.startswith('%s'):
        r = marg.right
        return r.elts[0] if isinstance(r, ast.Tuple) and r.elts else r
    if isinstance(marg, ast.Call) and isinstance(marg.func, ast.Attribute) and marg.func.attr == 'format' and \
            isinstance(marg.func.value, ast.Constant) and isinstance(marg.func.value.value, str):
        t = marg.func.value.value
        if t.startswith('{}') or t.startswith('{0}'):
            return marg.args[0] if marg.args else None
        if t[:1] in 'xw':
            return ast.Constant(value=t)
    if isinstance(marg, ast.Name):
        return marg
    return None


def _tar_mode_ok(f, marg):
    """(True/False/None, why): None = a form of the mode expression the rule does not model (assumed)."""
    from ..pathcond import runs_under
    from ._trunc import folder
    from .C20 import fold
    if marg is None:
        return False, 'no mode argument: tarfile default is read'
    head = _mode_head(marg)
    if head is None:
        return None, 'unmodelled tar mode expression'
    ft = folder({'overwrite': False}, f)

    def const_under(e):
        try:
            v = fold(e, {'overwrite': False})
            return v if isinstance(v, str) else None
        except Exception:
            return None
    v = const_under(head)
    if v is not None:
        return (v.startswith('x'), f'tar mode {v!r} when overwrite is false')
    if not isinstance(head, ast.Name):
        return None, 'unmodelled tar mode expression'
    from ..astutil import defs_of
    ds = []
    for n in own_nodes(f.node):
        if isinstance(n, ast.Assign):
            for t in n.targets:
                if isinstance(t, ast.Name) and t.id == head.id:
                    ds.append((n.value, n))
                elif isinstance(t, ast.Tuple) and isinstance(n.value, ast.Tuple) and len(t.elts) == len(n.value.elts):
                    for te, ve in zip(t.elts, n.value.elts):
                        if isinstance(te, ast.Name) and te.id == head.id:
                            ds.append((ve, n))
    if not ds:
        return None, f'{head.id} has no definition in archive'
    seen_x = False
    for val, st in ds:
        v = const_under(val)
        if v is None and _mode_head(val) is not None:
            v = const_under(_mode_head(val))
        if v is None:
            return None, f'{head.id} assigned a value the rule cannot fold'
        reach = runs_under(f, st, ft)
        if v.startswith('x'):
            seen_x = seen_x or reach is not False
        elif reach is not False:
            return False, f"{head.id} = {v!r} is reachable when overwrite is false: an existing archive is overwritten"
    if not seen_x:
        return False, f"no exclusive-create ('x') definition of {head.id} is reachable when overwrite is false"
    return True, ''

