"""C08 — README.txt is current after every operation."""
import ast
from ..pathcond import inline, canon, find_defs, runs_under

from ..rules import must_precede, must_follow, transitively_calls
from ..cfg import cfg_of, always_raises
from ..effects import MUTATING
from ..astutil import dotted, get_arg, derived, norm, enclosing, names_in, defs_of, assignments
from ..srcmodel import own_nodes, AnalysisError, FuncRef
from ..escape import map_yielders, with_blocks
from .C17 import find_committer, subarray_role
from .C20 import fold

EXPLANATION = (
    "(D1) regenerate last: in the committer, in asarray and in every ragged mutator/creator, every "
    "state change that the README text depends on is followed on all normal paths by the README "
    "regeneration (CFG must-follow); which descriptor keys the README depends on is computed from "
    "the call graph of the README builders (subscripts of _arrayinfo reached from _update_readmetxt), "
    "so a top-level descriptor update only carries the obligation when the README reads the keys it "
    "changes; (D2) from fresh state: the ragged README is not regenerated inside a with-block of a "
    "sub-array opener after a commit in that block (the borrower path would serve the pre-commit map), "
    "and not through a handle whose sub-array was replaced after the handle was built; (D3) single "
    "source: the README builders call the same readcode dispatcher as the public readcode() methods "
    "over a language list equal to the registry key set, and the type/byte-order/dimension lines are "
    "read from the re-read descriptor; (D4) the metadata mention is decided by re-reading the file and "
    "the creation/deletion callback follows every unlink and every creating write; (D5) the 'first "
    "five and last' wording thresholds equal the listing thresholds.")
ASSUMPTIONS = [
    "README generators are deterministic functions of the state they read",
    "not decided: byte equality of README with a regenerated text; the wording itself",
]


def readme_funcs(ctx, root):
    """Functions reachable from a README regeneration method."""
    seen, work = {}, [root]
    while work:
        f = work.pop()
        if f.key in seen:
            continue
        seen[f.key] = f
        for _, cal in ctx.E.callees(f):
            work.append(cal)
    return list(seen.values())


def arrayinfo_keys_read(funcs, attr='_arrayinfo'):
    keys = set()
    for f in funcs:
        for n in own_nodes(f.node):
            if isinstance(n, ast.Subscript) and isinstance(n.ctx, ast.Load) and \
                    isinstance(n.slice, ast.Constant) and isinstance(n.value, ast.Attribute) and \
                    n.value.attr == attr:
                keys.add(n.slice.value)
    return keys


def run(ctx):
    A, RA = ctx.repo.cls('Array'), ctx.repo.cls('RaggedArray')
    a_regen, r_regen = A.methods.get('_update_readmetxt'), RA.methods.get('_update_readmetxt')
    if a_regen is None or r_regen is None:
        # role fallback: the method that writes README.txt
        raise AnalysisError('README regeneration methods not found')
    for f in (a_regen, r_regen):
        ok = any(e.kind == 'TRUNC-WRITE' for e in ctx.E.may(f)) and any(
            isinstance(c, ast.Call) and ctx.E._name_of(get_arg(c, 0, 'filename'), f) == ('lit', 'README.txt')
            for c in own_nodes(f.node) if isinstance(c, ast.Call) and get_arg(c, 0, 'filename') is not None)
        ctx.decide(ok, 'R-OWN', 'D1', f, None, 'writes-readme', f'{f.qualname} rewrites README.txt',
                   detail='regeneration method no longer writes README.txt')
    committer = find_committer(ctx)
    d1_committer(ctx, committer, a_regen)
    from .C18 import arrayinfo_always_fresh
    arrayinfo_always_fresh(ctx, 'D1')     # the README generator reads the descriptor through Array._arrayinfo
    d1_asarray(ctx, a_regen)
    d1_d2_ragged(ctx, committer, a_regen, r_regen)
    d3_single_source(ctx)
    d4_metadata(ctx, a_regen)
    d5_thresholds(ctx)


def d1_committer(ctx, committer, a_regen):
    cfg = cfg_of(committer)
    regens = [n for n, cal in ctx.E.callees(committer) if cal is a_regen]
    descr = [n for n, cal in ctx.E.callees(committer)
             if isinstance(n, ast.Call) and cal is not a_regen and any(e.kind == 'TRUNC-WRITE' for e in ctx.E.may(cal))]
    shape_assign = [n for n in own_nodes(committer.node) if isinstance(n, ast.Assign)
                    and any(dotted(t) == 'self._shape' for t in n.targets)]
    nodes = {cfg.node_for(n) for n in regens}
    ok = bool(regens) and not cfg.can_reach(cfg.entry, cfg.exit, avoid=nodes, skip_labels=('exc',))
    ctx.decide(ok, 'R-POST', 'D1', committer, regens[0] if regens else None, 'committer-regenerates',
               f'{committer.qualname}: every normal path regenerates the README',
               detail='a path through the committer (early return / flag) skips README regeneration: after '
                      'some appends or truncations README.txt describes the previous length')
    for r in regens:
        ctx.decide(must_precede(committer, r, descr) and must_precede(committer, r, shape_assign), 'R-ORDER', 'D1',
                   committer, r, 'descriptor-before-readme',
                   'the handle shape and the descriptor are updated before the README is regenerated',
                   detail='README is generated from the old shape/descriptor')


def state_change_sites(ctx, f, committer, a_regen, r_regen, readme_keys):
    """Call sites in f that change state the README depends on."""
    out = []
    for node, cal in ctx.E.callees(f):
        if not isinstance(node, ast.Call) or cal in (a_regen, r_regen):
            continue
        if cal is committer:
            out.append((node, 'length commit'))
        elif cal.qualname in ('truncate_array', 'asarray', 'create_array'):
            out.append((node, cal.qualname))
        elif cal.qualname in ('RaggedArray._update_arraydescr',):
            keys = {k.arg for k in node.keywords if k.arg}
            if keys & readme_keys or any(k.arg is None for k in node.keywords):
                out.append((node, f'top-level descriptor update of {sorted(keys & readme_keys)}'))
        elif cal.qualname in ('DataDir._write_jsondict', 'Array._update_arrayinfo'):
            out.append((node, 'descriptor/metadata write'))
        elif cal.qualname in ('RaggedArray._append', 'Array._append'):
            out.append((node, 'data append'))
    for e in ctx.E.primitives(f):
        if e.kind in ('DELETE', 'RESIZE', 'WRITE-PATH'):
            out.append((e.node, e.kind))
    return out


def d1_asarray(ctx, a_regen):
    f = ctx.repo.func('array.asarray')
    regens = [n for n, cal in ctx.E.callees(f) if cal is a_regen]
    sites = state_change_sites(ctx, f, None, a_regen, None, set())
    n = 0
    for node, what in sites:
        n += 1
        ctx.decide(bool(regens) and must_follow(f, node, regens), 'R-POST', 'D1', f, node,
                   f'asarray-readme-after::{what}',
                   f'asarray: README regeneration follows `{norm(node)[:40]}` ({what}) on every normal path',
                   detail='a state change is not followed by README regeneration')
    ctx.floor('C08 asarray state-change sites', n, 2)
    # regenerated through a freshly opened handle
    for r in regens:
        recv = r.func.value if isinstance(r.func, ast.Attribute) else None
        ok = False
        if isinstance(recv, ast.Name):
            ds = defs_of(f.node, recv.id)
            ok = any(isinstance(v, ast.Call) and any(t.name == '__init__' for k, t in ctx.R.resolve_call(v, f)
                                                     if k == 'repo') for v, _ in ds)
        ctx.decide(ok, 'R-FLOW', 'D2', f, r, 'fresh-handle', 'asarray regenerates the README through a freshly opened handle',
                   detail='README generated from a handle that was opened before the files were (re)written')


RAGGED_FUNCS = ('RaggedArray.append', 'RaggedArray.iterappend', 'raggedarray.truncate_raggedarray',
                'raggedarray.asraggedarray', 'raggedarray.create_raggedarray')


def d1_d2_ragged(ctx, committer, a_regen, r_regen):
    rfuncs = readme_funcs(ctx, r_regen)
    readme_keys = arrayinfo_keys_read([g for g in rfuncs if g.cls is not None and g.cls.name == 'RaggedArray'
                                       or g.module.name in ('raggedarray', 'readcoderaggedarray')])
    ctx.info['ragged_readme_reads_descriptor_keys'] = sorted(readme_keys)
    ctx.info['ragged_readme_functions'] = len(rfuncs)
    yielders = map_yielders(ctx)
    nsites = 0
    for spec in RAGGED_FUNCS:
        f = ctx.repo.func(spec)
        regens = [n for n, cal in ctx.E.callees(f) if cal is r_regen and isinstance(n, ast.Call)]
        if not regens:
            from .C05 import delegates_to
            others = [ctx.repo.func(s_) for s_ in RAGGED_FUNCS if s_ != spec]
            dg = delegates_to(ctx, f, others, lambda cal: cal is committer or cal.qualname in ('truncate_array', 'create_array') or
                              (cal.name == '_append' and cal.cls is not None))
            if dg is not None:
                ctx.ok('R-POST', 'D1', f, None, 'ragged-regenerates',
                       f'{f.qualname} changes no state itself and hands the work to {dg.qualname} on every normal path (decided there)')
                continue
        if not regens:
            ctx.bad('R-POST', 'D1', f, None, 'ragged-regenerates', f'{f.qualname} regenerates the top-level README',
                    detail='no call of RaggedArray._update_readmetxt')
            continue
        for node, what in state_change_sites(ctx, f, committer, a_regen, r_regen, readme_keys):
            nsites += 1
            ctx.decide(must_follow(f, node, regens), 'R-POST', 'D1', f, node,
                       f'ragged-readme-after::{norm(node.func) if isinstance(node, ast.Call) else what}',
                       f'{f.qualname}: top-level README regeneration follows `{norm(node)[:45]}` ({what})',
                       detail='a state change the README text depends on is not followed by README regeneration '
                              'on every normal path: README.txt describes the previous state')
        # D2: not inside a with-block on a sub-array opener after a commit in that block
        for r in regens:
            for g, w, seeds in with_blocks(ctx, yielders):
                if g is not f:
                    continue
                inside = any(p is w and fld == 'body' for p, fld in enclosing(f.node, r))
                if not inside:
                    continue
                commits_before = [n for n, cal in ctx.E.callees(f) if cal is committer and
                                  any(p is w and fld == 'body' for p, fld in enclosing(f.node, n))
                                  and n.lineno <= r.lineno]
                ctx.decide(not commits_before, 'R-ORDER', 'D2', f, r, 'readme-outside-open-context',
                           f'{f.qualname}: README is not regenerated inside the open sub-array context after a commit',
                           detail='README regenerated while the pre-commit memory maps are still cached: the '
                                  'listing reads the indices through the stale map (previous last subarray\'s '
                                  'length reported for the new one)')
            ctx.ok('R-ORDER', 'D2', f, r, 'readme-regen-site', f'{f.qualname}: README regeneration site analysed')
        # D2: receiver handle not stale w.r.t. a replaced sub-array
        repl = []
        for node, cal in ctx.E.callees(f):
            if isinstance(node, ast.Call) and cal.qualname in ('create_array', 'asarray'):
                p = get_arg(node, 0, 'path')
                if p is not None and isinstance(p, ast.Attribute) and p.attr in ('_indicespath', '_valuespath'):
                    repl.append((node, dotted(p.value)))
        for rnode, h in repl:
            for r in regens:
                recv = dotted(r.func.value) if isinstance(r.func, ast.Attribute) else None
                if recv != h:
                    continue
                redefs = [st for v, st in defs_of(f.node, h) if isinstance(st, ast.Assign) and st.lineno > rnode.lineno]
                cfg = cfg_of(f)
                ok = bool(redefs) and not cfg.can_reach(cfg.node_for(rnode), cfg.node_for(r),
                                                        avoid={cfg.node_for(s) for s in redefs})
                ctx.decide(ok, 'R-ORDER', 'D2', f, r, 'fresh-handle-after-replacement',
                           f'{f.qualname}: handle `{h}` is re-opened after its sub-array was replaced and before the README is regenerated',
                           detail='README generated through a handle that still caches the replaced sub-array\'s shape')
            if not any((dotted(r.func.value) if isinstance(r.func, ast.Attribute) else None) == h or True for r in regens):
                pass
            # a replacement must be followed by a regeneration at all
            ctx.decide(must_follow(f, rnode, regens), 'R-POST', 'D1', f, rnode, 'readme-after-replacement',
                       f'{f.qualname}: README regeneration follows the replacement of a sub-array',
                       detail='sub-array replaced without regenerating the top-level README')
    ctx.floor('C08 ragged state-change sites', nsites, 8)


def _comprehension_filter(ctx, f, disp):
    """Comprehension form of the README loop: the dispatcher is called in the element of a comprehension (alone or as one
    component of a tuple), and every comprehension that consumes that list filters on `<that component> is not None`."""
    from ._trunc import folder
    comps = (ast.ListComp, ast.GeneratorExp)
    calls = [c for c, cal in ctx.E.callees(f) if cal is disp]
    c1s = [n for n in own_nodes(f.node) if isinstance(n, comps) and any(x is c for c in calls for x in ast.walk(n.elt))]
    if len(c1s) != 1 or len(calls) != 1:
        return False
    c1 = c1s[0]
    if c1.elt is calls[0]:
        pos = None
    elif isinstance(c1.elt, ast.Tuple) and any(e is calls[0] for e in c1.elt.elts):
        pos = [i for i, e in enumerate(c1.elt.elts) if e is calls[0]][0]
    else:
        return False
    holder = [st for st in own_nodes(f.node) if isinstance(st, ast.Assign) and st.value is c1 and len(st.targets) == 1
              and isinstance(st.targets[0], ast.Name)]
    if not holder:
        return False
    x = holder[0].targets[0].id
    uses = [n for n in own_nodes(f.node) if isinstance(n, ast.Name) and n.id == x and isinstance(n.ctx, ast.Load)]
    consumers = [n for n in own_nodes(f.node) if isinstance(n, comps + (ast.SetComp, ast.DictComp)) and
                 any(g.iter is u for g in n.generators for u in uses)]
    if not uses or len(consumers) != len(uses):
        return False                # the list escapes unfiltered somewhere
    for c2 in consumers:
        g = [g for g in c2.generators if any(g.iter is u for u in uses)][0]
        t = g.target
        if pos is not None:
            if not (isinstance(t, ast.Tuple) and len(t.elts) > pos and isinstance(t.elts[pos], ast.Name)):
                return False
            v = t.elts[pos].id
        else:
            if not isinstance(t, ast.Name):
                return False
            v = t.id
        ft = folder({v: None})
        if not any(ft(test) is False for test in g.ifs):
            return False
    return True


def d3_single_source(ctx):
    for modname, regname in (('array', 'readcodearray'), ('raggedarray', 'readcoderaggedarray')):
        m = ctx.repo.module(modname)
        f = m.funcs.get('readcodetxt')
        if f is None:
            raise AnalysisError(f'{modname}.readcodetxt vanished')
        reg = ctx.repo.module(regname).consts.get('readcodefunc')
        if not isinstance(reg, dict):
            raise AnalysisError(f'{regname}.readcodefunc is not a literal registry')
        # the loop that calls the dispatcher; what it ranges over (locals inlined) is the README language list
        disp0 = ctx.repo.module(regname).funcs.get('readcode')
        loops = [n for n in own_nodes(f.node) if isinstance(n, ast.For) and
                 any(cal is disp0 and any(x is c for x in ast.walk(n)) for c, cal in ctx.E.callees(f))]
        langs = None
        if loops:
            it = inline(f, loops[0].iter)
            try:
                seq = ast.literal_eval(it)
                langs = []
                for item in seq:
                    cand = [x for x in (item if isinstance(item, (tuple, list)) else (item,)) if x in reg]
                    langs.extend(cand[:1] if cand else [item])
            except Exception:
                t = norm(it)
                if t in ('readcodefunc', 'readcodefunc.keys()', 'sorted(readcodefunc)', 'list(readcodefunc)', 'readcodelanguages'):
                    langs = list(reg)
        disp = ctx.repo.module(regname).funcs.get('readcode')
        ok = any(cal is disp for _, cal in ctx.E.callees(f))
        pub = ctx.repo.cls('Array' if modname == 'array' else 'RaggedArray').methods.get('readcode')
        ok2 = pub is not None and any(cal is disp for _, cal in ctx.E.callees(pub))
        ctx.decide(ok and ok2, 'R-SIB', 'D3', f, None, 'same-dispatcher',
                   f'{modname}.readcodetxt and the public readcode() call the same dispatcher {regname}.readcode',
                   detail='README snippets and readcode() output come from different code')
        # withheld languages are skipped, offered ones included: `if codetext is not None`
        ok = False
        if loops:
            cvars = [nm for nm, v, st in assignments(f.node) if isinstance(v, ast.Call) and
                     any(cal is disp0 and c is v for c, cal in ctx.E.callees(f))]
            adds = [n for n in ast.walk(loops[0]) if isinstance(n, (ast.AugAssign, ast.Expr)) and
                    any(isinstance(x, ast.Name) and x.id in cvars for x in ast.walk(n))]
            if cvars and adds:
                from ._trunc import folder
                ok = all(runs_under(f, a_, folder({cvars[0]: None})) is False for a_ in adds)
        if not ok and not loops:
            ok = _comprehension_filter(ctx, f, disp0)
        ctx.decide(ok, 'R-SIB', 'D3', f, None, 'skips-withheld', f'{modname}.readcodetxt includes exactly the offered languages',
                   detail='the `is not None` filter on generated code vanished')
    nt = ctx.repo.func('array.numtypedescriptiontxt')
    names = set()
    for n in own_nodes(nt.node):
        if isinstance(n, ast.Assign):
            names |= {norm(n.value)}
    ok = any('._arrayinfo' in x for x in names)
    ctx.decide(ok, 'R-FLOW', 'D3', nt, None, 'descriptor-reread',
               'the type / byte order / dimension lines are taken from the re-read descriptor (da._arrayinfo)',
               detail='format description no longer reads the descriptor')
    for key in ('numtype', 'byteorder', 'shape', 'arrayorder'):
        ok = any(isinstance(n, ast.Subscript) and isinstance(n.slice, ast.Constant) and n.slice.value == key
                 for n in own_nodes(nt.node))
        ctx.decide(ok, 'R-FLOW', 'D3', nt, None, f'descriptor-field::{key}', f'README format description uses descriptor field {key!r}',
                   detail='field not read')


def CBATTR(ctx):
    from ._shared import attr_from_param
    a = attr_from_param(ctx.repo.cls('MetaData'), 'callatfilecreationordeletion')
    if a is None:
        raise AnalysisError('MetaData: attribute holding the file creation/deletion callback not found by role')
    return a


def callback_strong(ctx, clause):
    """The README callback is kept alive by the MetaData object: what __init__ stores is the parameter itself (or a
    no-op default), never a weak reference — `Array(path).metadata['k'] = v` must still refresh the README although the
    owning Array is already unreachable."""
    c = ctx.repo.cls('MetaData')
    init = c.methods['__init__']
    a = CBATTR(ctx)
    weak = [v for f_, v, st in c.attr_exprs.get(a, []) if f_ is init and
            any(isinstance(x, ast.Call) and (dotted(x.func) or '').split('.')[0] in ('weakref', 'WeakMethod', 'ref', 'proxy')
                for x in ast.walk(v))]
    ctx.decide(not weak, 'R-FLOW', clause, init, weak[0] if weak else None, 'callback-strong-reference',
               f'MetaData.__init__ keeps a strong reference to the file creation/deletion callback (self.{a})',
               detail=f'the callback is stored as `{norm(weak[0])[:60]}`: once the owning array object is garbage collected '
                      f'the README is no longer refreshed when metadata.json is created or removed' if weak else '')


def d4_metadata(ctx, a_regen):
    callback_strong(ctx, 'D4')
    nt = ctx.repo.func('array.numtypedescriptiontxt')
    tests = [n for n in own_nodes(nt.node) if isinstance(n, ast.If) and 'metadata' in norm(n.test)]
    ok = False
    for t in tests:
        try:
            ok = ok or (bool(fold(t.test, {'len(da.metadata)': 0})) is False and
                        bool(fold(t.test, {'len(da.metadata)': 2})) is True)
        except Exception:
            if norm(t.test) in ('len(da.metadata) > 0', 'da.metadata', 'len(da.metadata) != 0', 'len(da.metadata)'):
                ok = True
        if norm(t.test) in ('len(da.metadata) > 0', 'len(da.metadata) != 0', 'len(da.metadata)', 'len(da.metadata) >= 1'):
            ok = True
    ctx.decide(ok, 'R-FLOW', 'D4', nt, tests[0] if tests else None, 'metadata-mention',
               'metadata.json is mentioned exactly when len(da.metadata) > 0 (re-reads the file)',
               detail='the mention is not decided by the current metadata')
    init = ctx.repo.func('Array.__init__')
    v = ctx.repo.cls('Array').init_attr_exprs.get('_metadata')
    cb = get_arg(v, None, 'callatfilecreationordeletion') if isinstance(v, ast.Call) else None
    ctx.decide(cb is not None and norm(cb) == 'self._update_readmetxt', 'R-FLOW', 'D4', init, v, 'callback-wired',
               'Array passes its README regeneration to MetaData as creation/deletion callback',
               detail='callback not wired: metadata changes never refresh the README')
    M = ctx.repo.cls('MetaData')
    n = 0
    for name in ('pop', 'popitem', 'update'):
        f = M.methods[name]
        cbs = [c for c in own_nodes(f.node) if isinstance(c, ast.Call) and dotted(c.func) == f'self.{CBATTR(ctx)}']
        for e in ctx.E.primitives(f):
            if e.kind == 'DELETE':
                n += 1
                ctx.decide(bool(cbs) and must_follow(f, e.node, cbs), 'R-POST', 'D4', f, e.node, f'callback-after-unlink::{name}',
                           f'MetaData.{name}: the callback follows the removal of metadata.json',
                           detail='metadata.json removed without refreshing the README (it still mentions the file)')
        if name == 'update':
            from .C13 import _write_sites
            for call, data in _write_sites(ctx, f):
                n += 1
                ctx.decide(bool(cbs) and must_follow(f, call, cbs), 'R-POST', 'D4', f, call, 'callback-after-write::update',
                           'MetaData.update: the callback follows the (possibly creating) write of metadata.json',
                           detail='metadata.json created without refreshing the README')
    # helpers of MetaData that unlink
    for f in M.all_funcs():
        if f.name in ('pop', 'popitem', 'update'):
            continue
        for e in ctx.E.primitives(f):
            if e.kind == 'DELETE':
                n += 1
                cbs = [c for c in own_nodes(f.node) if isinstance(c, ast.Call) and dotted(c.func) == f'self.{CBATTR(ctx)}']
                ctx.decide(bool(cbs) and must_follow(f, e.node, cbs), 'R-POST', 'D4', f, e.node, f'callback-after-unlink::{f.name}',
                           f'MetaData.{f.name}: the callback follows the removal of metadata.json',
                           detail='metadata.json removed without refreshing the README')
    ctx.floor('C08 metadata callback sites', n, 2)


def d5_thresholds(ctx):
    rm = ctx.repo.func('raggedarray.readmetxt')
    dt = ctx.repo.func('raggedarray.dimensionstxt')
    call = [n for n, cal in ctx.E.callees(rm) if cal is dt and isinstance(n, ast.Call)]
    if not call:
        ctx.bad('R-SIB', 'D5', rm, None, 'listing-call', 'readmetxt includes the subarray listing', detail='dimensionstxt not called')
        return
    k = get_arg(call[0], 1, 'firstnmax')
    try:
        k = ast.literal_eval(k) if k is not None else ast.literal_eval(dt.param_defaults()['firstnmax'])
    except Exception:
        ctx.assume('R-SIB', 'D5', rm, call[0], 'thresholds', 'wording thresholds equal listing thresholds', detail='firstnmax not constant')
        return
    consts = set()
    # tests `<number of subarrays> > <const>` that decide the wording: if statements and conditional expressions alike
    lens = ('len(ra)', 'ra.narrays', 'len(ra._indices)')
    for n in own_nodes(rm.node):
        t = n.test if isinstance(n, (ast.If, ast.IfExp)) else None
        if t is not None and isinstance(t, ast.Compare) and len(t.ops) == 1 and \
                isinstance(t.ops[0], ast.Gt) and isinstance(t.comparators[0], ast.Constant) and \
                (norm(t.left) in lens or norm(inline(rm, t.left)) in lens):
            consts.add(t.comparators[0].value)
    ctx.decide(consts == {k, k + 1}, 'R-SIB', 'D5', rm, call[0], 'thresholds',
               f"'first five' / 'and last' wording thresholds {sorted(consts)} equal the listing thresholds "
               f'{{firstnmax, firstnmax+1}} = {{{k}, {k + 1}}}',
               detail='the words in the README no longer match which subarrays are listed')
    uses_len = any(norm(n) == 'len(ra)' for n in own_nodes(rm.node) if isinstance(n, ast.Call))
    ctx.decide(uses_len, 'R-FLOW', 'D5', rm, None, 'count-from-len', 'the subarray count in the README is len(ra)', detail='count not from len(ra)')
