"""Shared, name-independent analysis of the two truncate functions
(truncate_array, truncate_raggedarray): role discovery of the new-length variable and
path-condition evaluation of the shrink guard on all weak orderings of (0, newlen, len)."""
import ast

from ..astutil import dotted, defs_of
from ..pathcond import find_defs, runs_under, outcome_under
from ..rules import weak_orderings
from .C20 import fold


def find_newlen(f, index_param):
    """Bindings `x = len(<something>[:index])` with the index parameter verbatim."""
    def pred(v):
        return isinstance(v, ast.Call) and dotted(v.func) == 'len' and len(v.args) == 1 and \
            isinstance(v.args[0], ast.Subscript) and isinstance(v.args[0].slice, ast.Slice) and \
            v.args[0].slice.lower is None and v.args[0].slice.step is None and \
            isinstance(v.args[0].slice.upper, ast.Name) and v.args[0].slice.upper.id == index_param
    if defs_of(f.node, index_param):
        return []                       # the index is rewritten before use: not verbatim
    return find_defs(f, pred, inlined=False)


def len_keys(obj):
    return [f'len({obj})', f'{obj}.shape[0]', f'{obj}._shape[0]', f'{obj}.narrays', f'{obj}.__len__()']


def int_gate_env(index_param, isint):
    return {f'isinstance({index_param}, int)': isint, f'type({index_param}) is int': isint,
            f'type({index_param}) is not int': not isint}


class PatEnv(dict):
    """Environment for fold(): exact bindings plus (regex -> value) bindings on the expression text."""
    def __init__(self, exact, patterns=()):
        super().__init__(exact)
        import re
        self.patterns = [(re.compile(p), v) for p, v in patterns]

    def __contains__(self, k):
        return dict.__contains__(self, k) or (isinstance(k, str) and any(p.search(k) for p, _ in self.patterns))

    def __getitem__(self, k):
        if dict.__contains__(self, k):
            return dict.__getitem__(self, k)
        for p, v in self.patterns:
            if p.search(k):
                return v
        raise KeyError(k)


def folder(env, func=None):
    """Branch-test evaluator for pathcond: folds a test under `env` (expression text ->
    value); with `func`, single-definition locals are inlined first, so a test on a
    temporary (`totallen == 0`) is decided by an env entry for what it stands for
    (`len(array)`)."""
    from ..pathcond import inline

    def ft(test):
        keep = [k for k in env if isinstance(k, str) and k.isidentifier()]
        for t in ((test,) if func is None else (test, inline(func, test, keep=keep), inline(func, test))):
            try:
                return bool(fold(t, env))
            except Exception:
                continue
        return None
    return ft


def shrink_rows(f, site, newlen_name, obj, index_param):
    """One row per weak ordering of (0, newlen, len): (newlen, len, runs, normal, raised)."""
    rows = []
    for o in weak_orderings(['zero', 'newlen', 'L']):
        nl, L = o['newlen'] - o['zero'], o['L'] - o['zero']
        if L < 0:
            continue
        env = dict(int_gate_env(index_param, True))
        env[newlen_name] = nl
        for k in (f'{obj}.accessmode', f'{obj}._accessmode'):
            env[k] = 'r+'         # the guard is evaluated for a writeable handle (mode gates are C11's business)
        for k in len_keys(obj):
            env[k] = L
        ft = folder(env, f)
        normal, raised = outcome_under(f, ft)
        rows.append((nl, L, runs_under(f, site, ft), normal, raised))
    return rows


def judge(rows, what='resizes'):
    """(wrong, unknown): disagreements with `runs iff 0 <= newlen < len`, and whether some
    order type could not be decided."""
    wrong, unknown = [], False
    for nl, L, runs, normal, raised in rows:
        spec = 0 <= nl < L
        if runs is None:
            unknown = True
        elif runs != spec:
            wrong.append(f'newlen={nl}, len={L}: {what}={runs}, spec={spec}')
    return wrong, unknown


def rejects_with(rows, exc='IndexError'):
    """Every order type outside 0 <= newlen < len ends in `raise <exc>` and never reaches the normal exit."""
    bad = []
    for nl, L, runs, normal, raised in rows:
        if not (0 <= nl < L):
            if normal is not False or exc not in raised:
                bad.append(f'newlen={nl}, len={L}: normal exit reachable={normal}, raises {sorted(raised)}')
    return bad


def int_gate(f, sites, index_param):
    """With a non-int index no site is reached and a TypeError raise is."""
    ft = folder(int_gate_env(index_param, False), f)
    reached = [s for s in sites if runs_under(f, s, ft) is not False]
    normal, raised = outcome_under(f, ft)
    return not reached and 'TypeError' in raised and normal is False
