"""C18 — inconsistent or invalid array descriptions are rejected at open."""
import ast
from ..pathcond import inline, canon, find_defs, runs_under, reach_under, outcome_under
from ._trunc import folder

from ..rules import GateAnalysis, must_precede
from ..cfg import cfg_of, always_raises
from ..effects import MUTATING
from ..astutil import dotted, get_arg, derived, norm, enclosing, names_in, defs_of
from ..srcmodel import own_nodes, AnalysisError, const_eval
from ._shared import PredGate, size_check_obligations, raised_names
from . import C16

EXPLANATION = (
    "Validator-dominance analysis: the descriptor reader is found by role (the Array method "
    "that calls DataDir.read_jsondict on 'arraydescription.json'); for each field class of the "
    "descriptor (dictionary type, required keys, int-only shape, arrayorder in {C,F}, numtype in "
    "the supported table, byteorder in {little,big}) there must be a raising test such that every "
    "normal path through the reader passes it (interprocedural gate analysis over the CFGs), no "
    "handler on the way swallows open/parse errors, the reader is the single consumer of the "
    "descriptor file (plus darr.open for dispatch), the size check is strict, unavoidable and "
    "precedes the first memory map, delete/truncate by path convert open failures into TypeError "
    "before any effect, and darr.open rejects unknown object kinds.")
ASSUMPTIONS = [
    "open()/json.load raise for a missing or non-JSON file (stdlib semantics)",
    "not decided: completeness over every corruption (negative or boolean extents pass the int test "
    "and are left to the size check / NumPy)",
]

REQUIRED = {'numtype', 'shape', 'arrayorder', 'darrversion'}


def find_reader(ctx):
    c = ctx.repo.cls('Array')
    out = []
    for f in c.all_funcs():
        for node, callee in ctx.E.callees(f):
            if callee.qualname == 'DataDir.read_jsondict' and isinstance(node, ast.Call):
                a = get_arg(node, 0, 'filename')
                if a is not None and ctx.E._name_of(a, f) == ('lit', 'arraydescription.json'):
                    out.append((f, node))
    if len(out) != 1:
        raise AnalysisError(f'descriptor reader not identifiable by role: {[f.qualname for f, _ in out]}')
    return out[0]


def _lit_set(test):
    """Literal collection used as the right operand of an `in`/`not in`."""
    for c in ast.walk(test):
        if isinstance(c, ast.Compare) and len(c.ops) == 1 and isinstance(c.ops[0], (ast.In, ast.NotIn)):
            try:
                v = ast.literal_eval(c.comparators[0])
                return set(v), isinstance(c.ops[0], ast.NotIn)
            except Exception:
                return None, isinstance(c.ops[0], ast.NotIn)
    return None, None


def is_raw_field(expr, func, key):
    """expr is <dict>['key'] itself or a name all of whose definitions are."""
    def sub(e):
        return isinstance(e, ast.Subscript) and isinstance(e.slice, ast.Constant) and e.slice.value == key
    if sub(expr):
        return True
    if isinstance(expr, ast.Name):
        ds = defs_of(func.node, expr.id)
        return bool(ds) and all(sub(v) for v, _ in ds)
    return False


def _membership_operand(test):
    for c in ast.walk(test):
        if isinstance(c, ast.Compare) and len(c.ops) == 1 and isinstance(c.ops[0], (ast.In, ast.NotIn)):
            return c.left
    return None


def v_dict(test, func, raising_when_true):
    test = inline(func, test)
    return 'isinstance' in norm(test) and 'dict' in norm(test)


def v_shape(test, func, rwt):
    test = inline(func, test)
    t = norm(test)
    return 'isinstance' in t and 'int' in t and 'shape' in t


def v_order(test, func, rwt):
    test = inline(func, test)
    if 'arrayorder' not in norm(test):
        return False
    s, notin = _lit_set(test)
    return s == {'C', 'F'} and notin == rwt and is_raw_field(_membership_operand(test), func, 'arrayorder')


def v_numtype(test, func, rwt):
    test = inline(func, test)
    t = norm(test)
    if 'numtype' not in names_in(test) and "['numtype']" not in t:
        return False
    if 'numtypesdescr' not in t:
        return False
    if not is_raw_field(_membership_operand(test), func, 'numtype'):
        return False      # a transformed value is validated, not the stored one
    return any(isinstance(o, ast.NotIn) == rwt for c in ast.walk(test) if isinstance(c, ast.Compare)
               for o in c.ops if isinstance(o, (ast.In, ast.NotIn)))


def v_byteorder(test, func, rwt):
    test = inline(func, test)
    if 'byteorder' not in norm(test):
        return False
    s, notin = _lit_set(test)
    return s == {'little', 'big'} and notin == rwt and is_raw_field(_membership_operand(test), func, 'byteorder')


VALIDATORS = [
    ('descriptor is a dictionary', v_dict, {'TypeError'}),
    ('shape is a sequence of ints', v_shape, {'TypeError'}),
    ("arrayorder in {'C','F'}", v_order, {'ValueError'}),
    ('numtype is a supported type', v_numtype, {'ValueError'}),
    ("byteorder in {'little','big'}", v_byteorder, {'ValueError'}),
]


def pre(ctx):
    from ._shared import no_runtime_module_state
    no_runtime_module_state(ctx, 'D1', ('datadir', 'utils', 'array', 'numtype'))


def run(ctx):
    # what the handle reports (dtype, shape, size) is taken from the object the opener builds from the validated descriptor:
    # NumPy itself then rejects what the explicit tests do not look at (negative extents, whose product can still match
    # the file size)
    from ._shared import opener_branch_agreement
    opener_branch_agreement(ctx, 'D3')
    reader, rcall = find_reader(ctx)
    ctx.info['descriptor_reader'] = reader.qualname
    nval = 0
    for label, pred, excs in VALIDATORS:
        GA = GateAnalysis(ctx, PredGate(label, pred, excs))
        ok = GA.is_gate_func(reader)
        where = [f'{f.qualname}' for f in ctx.repo.all_funcs() if GA.local_gates(f)]
        nval += 1
        bad = [] if ok else [t for _, _, t in GA.bad_gates]
        ctx.decide(ok, 'R-DOM', 'D1', reader, None, f'validator::{label}',
                   f'every normal path through {reader.qualname} passes the test "{label}" (raising '
                   f'{"/".join(sorted(excs))})',
                   detail=(bad[0] if bad else 'no raising test of this kind on the stored field itself '
                           'dominates the reader\'s normal return (removed, weakened to a warning, made '
                           'conditional, moved after the return, or applied to a transformed value)'))
    # required keys
    rk = get_arg(rcall, 1, 'requiredkeys')
    val = None
    if rk is not None:
        rk = inline(reader, rk)
        try:
            val = const_eval(rk, reader.module.consts)
        except ValueError:
            if isinstance(rk, ast.Name):
                for v, _ in defs_of(reader.node, rk.id):
                    try:
                        val = const_eval(v, {})
                    except ValueError:
                        pass
    nval += 1
    ctx.decide(val is not None and REQUIRED <= set(val), 'R-TABLE', 'D1', reader, rcall, 'required-keys',
               f'reader demands the keys {sorted(REQUIRED)} (got {sorted(val) if val else val})',
               detail='requiredkeys no longer contains all four essential keys')
    rj = ctx.repo.func('DataDir.read_jsondict')
    nval += 1
    # path conditions folded with concrete key sets: a missing required key ends in ValueError, a complete key
    # set reaches the normal exit — independent of how the subset test is spelled or laid out
    from ._trunc import PatEnv
    rk_param = 'requiredkeys' if 'requiredkeys' in rj.params else None
    verdicts = {}
    for label, have in (('missing', frozenset({'k1'})), ('complete', frozenset({'k1', 'k2', 'k3'}))):
        env = PatEnv({rk_param: frozenset({'k1', 'k2'}), f'set({rk_param})': frozenset({'k1', 'k2'})},
                     patterns=[(r'\.keys\(\)$', have), (r'^set\(\w+(\.keys\(\))?\)$', have),
                               (r'^isinstance\(\w+, dict\)$', True)])
        verdicts[label] = outcome_under(rj, folder(env, rj))
    (n_miss, r_miss), (n_ok, r_ok) = verdicts['missing'], verdicts['complete']
    if rk_param is None:
        ctx.bad('R-DOM', 'D1', rj, None, 'required-keys-test', 'read_jsondict raises for missing required keys',
                detail='read_jsondict has no requiredkeys parameter any more')
    elif n_miss is False and 'ValueError' in r_miss and 'ValueError' not in r_ok:
        ctx.ok('R-DOM', 'D1', rj, None, 'required-keys-test',
               'read_jsondict: whenever requiredkeys is given, a missing key ends in ValueError before the dictionary is returned')
    elif n_miss is True or (n_miss is None and 'ValueError' not in r_miss):
        ctx.bad('R-DOM', 'D1', rj, None, 'required-keys-test', 'read_jsondict raises for missing required keys',
                detail='with a required key missing the dictionary is returned (no ValueError is reachable)')
    else:
        ctx.assume('R-DOM', 'D1', rj, None, 'required-keys-test', 'read_jsondict raises for missing required keys',
                   detail='the subset test is in a form the rule cannot fold')
    # no handler on the read path swallows
    nval += 1
    chain = [reader, rj, ctx.repo.func('DataDir.read_jsonfile')]
    swallow = []
    for f in chain:
        for n in own_nodes(f.node):
            if isinstance(n, ast.Try):
                for h in n.handlers:
                    if not always_raises(h.body):
                        swallow.append(f'{f.loc(h)} {f.qualname}')
    ctx.decide(not swallow, 'R-RECOVER', 'D1', reader, None, 'no-swallowing-handler',
               'no exception handler on the descriptor read path swallows open/parse/validation errors',
               detail=f'handlers that do not re-raise: {swallow}')
    rjf = chain[2]
    has_load = any(isinstance(n, ast.Call) and dotted(n.func) in ('json.load', 'json.loads')
                   for n in own_nodes(rjf.node))
    ctx.decide(has_load, 'R-DOM', 'D1', rjf, None, 'json-parse',
               'read_jsonfile parses the file with json.load (raises for a missing or non-JSON file)',
               detail='json.load vanished from read_jsonfile')
    nval += 1
    ctx.floor('C18 validator obligations', nval, 9)

    # reader calls arrayinfotodtype (numtype/byteorder validation) before returning
    d2_single_reader(ctx, reader)
    size_check_obligations(ctx, 'D3')
    C16.d3_refuse_non_arrays(ctx)
    # "refuse and change nothing": delete/truncate by path validate by constructing the handle, so the constructors
    # (and what they build: DataDir, MetaData) must not touch the file system — whatever they changed before the
    # validation raised stays changed
    for cname in ('Array', 'RaggedArray'):
        init = ctx.repo.cls(cname).methods.get('__init__')
        eff = [e for e in ctx.E.may(init) if e.kind in MUTATING] if init is not None else []
        ctx.decide(init is not None and not eff, 'R-OWN', 'D4', init, None, f'constructor-effect-free::{cname}',
                   f'{cname}.__init__ performs no file-system mutation (a refused open / delete / truncate by path changes nothing)',
                   detail='opening can change the directory before validation refuses it: ' + '; '.join(e.describe() for e in eff[:3]))
    d5_open(ctx)


def d2_single_reader(ctx, reader):
    allowed = {reader.key} | {g.key for g in ctx.repo.module('__init__').all_funcs()}   # the reader, and the dispatch of darr.open
    readers = []
    for f in ctx.repo.all_funcs():
        for node, callee in ctx.E.callees(f):
            if callee.qualname in ('DataDir.read_jsondict', 'DataDir.read_jsonfile', 'DataDir.read_txt') and \
                    isinstance(node, ast.Call) and callee.cls is not f.cls:
                a = get_arg(node, 0, 'filename')
                if a is not None and ctx.E._name_of(a, f) == ('lit', 'arraydescription.json'):
                    readers.append((f, node))
        for e in ctx.E.primitives(f):
            if e.kind in ('READ-OPEN', 'MODE-OPEN') and e.role == 'DESCR':
                readers.append((f, e.node))
        if f.module.name in ('array', 'raggedarray') and f is not reader:
            for n in own_nodes(f.node):
                if isinstance(n, ast.Call) and dotted(n.func) in ('json.load', 'json.loads'):
                    readers.append((f, n))
    for f, node in readers:
        ctx.decide(f.key in allowed, 'R-OWN', 'D2', f, node, 'descriptor-consumer',
                   f'{f.qualname} reads arraydescription.json',
                   detail='a second consumer of the descriptor file bypasses the validating reader')
    ctx.floor('C18 descriptor consumers', len(readers), 2)
    # the property that exposes the descriptor goes through the reader
    c = ctx.repo.cls('Array')
    arrayinfo_always_fresh(ctx, 'D2', reader)
    # every function of Array that subscripts a descriptor dict got it from the reader
    users = 0
    for f in c.all_funcs():
        if f is reader:
            continue
        for n in own_nodes(f.node):
            if isinstance(n, ast.Subscript) and isinstance(n.slice, ast.Constant) and \
                    n.slice.value in ('shape', 'arrayorder', 'numtype', 'byteorder') and \
                    isinstance(n.ctx, ast.Load):
                users += 1
                names = derived(f.node, n.value)
                ok = 'self._arrayinfo' in names or any(x.endswith('._arrayinfo') for x in names) or \
                    'self._read_arraydescr' in names
                ctx.decide(ok, 'R-FLOW', 'D2', f, n, f'descriptor-field::{n.slice.value}',
                           f'{f.qualname} takes descriptor field {n.slice.value!r} from the validated dictionary',
                           detail='descriptor field does not come from the validating reader')
    ctx.floor('C18 descriptor field uses in Array', users, 3)


def arrayinfo_always_fresh(ctx, clause, reader=None):
    """Array._arrayinfo (a property) returns the validating reader's result on EVERY path: no return hands out something
    remembered in the handle (a copy kept while the array is open goes stale as soon as the length is committed: the
    README is then generated from the old length).  Shared with C08."""
    c = ctx.repo.cls('Array')
    if reader is None:
        reader = c.methods.get('_read_arraydescr')
    p = c.methods.get('_arrayinfo')
    if p is None or not p.is_property or reader is None:
        return
    rcalls = [n for n, cal in ctx.E.callees(p) if cal is reader and isinstance(n, ast.Call)]
    rets = [r for r in own_nodes(p.node) if isinstance(r, ast.Return)]
    stale = []
    for r in rets:
        if r.value is None:
            stale.append(r)
            continue
        vals = [r.value] + ([v for v, _ in defs_of(p.node, r.value.id)] if isinstance(r.value, ast.Name) else [])
        if not any(any(x is rc for x in ast.walk(v)) for v in vals for rc in rcalls):
            stale.append(r)
    ctx.decide(bool(rcalls) and bool(rets) and not stale, 'R-OWN', clause, p, stale[0] if stale else None, 'arrayinfo-via-reader',
               'Array._arrayinfo is computed by the validating reader on every access (every return is the reader\'s result)',
               detail=('_arrayinfo no longer calls the validating reader' if not rcalls or not stale else
                       f'`{norm(stale[0])[:60]}` returns remembered content instead of reading the descriptor: after a length '
                       f'commit inside an open context the README and read code are generated from the old description'))


def d5_open(ctx):
    f = ctx.repo.func('__init__.open')
    rets = [n for n in own_nodes(f.node) if isinstance(n, ast.Return)]
    ok = bool(rets)
    for r in rets:
        tg = [t for k, t in ctx.R.resolve_call(r.value, f) if k == 'repo'] if isinstance(r.value, ast.Call) else []
        if not (tg and tg[0].name == '__init__' and tg[0].cls.name in ('Array', 'RaggedArray')):
            ok = False
    ctx.decide(ok, 'R-OWN', 'D5', f, None, 'open-constructs-via-classes',
               'darr.open returns only Array(...) / RaggedArray(...) (validating constructors)',
               detail='darr.open returns something not built by the validating constructors')
    # unknown kinds: with the stored kind bound to a value that is neither class name, no return is reached and
    # ValueError is raised (path conditions folded; independent of the layout of the dispatch chain)
    kinds = find_defs(f, lambda v: any(isinstance(x, ast.Subscript) and isinstance(x.slice, ast.Constant) and
                                       x.slice.value == 'darrobject' for x in ast.walk(v)))
    if not kinds:
        # the kind is fetched by a helper of the front module: the local bound to the helper's result plays the role
        for n in own_nodes(f.node):
            if isinstance(n, ast.Assign) and len(n.targets) == 1 and isinstance(n.targets[0], ast.Name) and \
                    isinstance(n.value, ast.Call):
                tg = [t for k, t in ctx.R.resolve_call(n.value, f) if k == 'repo']
                if tg and tg[0].module.name == '__init__' and any(
                        isinstance(x, ast.Subscript) and isinstance(x.slice, ast.Constant) and x.slice.value == 'darrobject'
                        for x in ast.walk(tg[0].node)):
                    kinds = [(n.targets[0].id, n.value)]
    ok = False
    if kinds:
        ft = folder({kinds[0][0]: '<some other kind>'}, f)
        normal, raised = outcome_under(f, ft)
        reach = reach_under(f, ft)
        g = cfg_of(f)
        ok = normal is False and 'ValueError' in raised and not any(g.node_for(r) in reach for r in rets)
    ctx.decide(ok, 'R-DOM', 'D5', f, None, 'open-rejects-unknown-kind',
               'darr.open raises ValueError for an unknown darrobject', detail='an unknown kind does not end in raise ValueError')
    # a failure to read the kind (descriptor missing, not a dictionary, no 'darrobject' key) is never replaced by a
    # guess: no handler in the package's front module catches around the descriptor read / the key lookup without
    # re-raising (RaggedArray() itself never reads the top-level descriptor, so the dispatch read is the only thing
    # that refuses a ragged directory without one)
    swallow, nread = [], 0
    for g in ctx.repo.module('__init__').all_funcs():
        for n in own_nodes(g.node):
            is_read = (isinstance(n, ast.Call) and isinstance(n.func, ast.Attribute) and
                       n.func.attr in ('read_jsondict', 'read_jsonfile')) or \
                      (isinstance(n, ast.Subscript) and isinstance(n.slice, ast.Constant) and n.slice.value == 'darrobject')
            if not is_read:
                continue
            nread += 1
            for p_, field in enclosing(g.node, n):
                if isinstance(p_, ast.Try) and field == 'body':
                    for h in p_.handlers:
                        if not always_raises(h.body):
                            swallow.append(f'{g.loc(h)} {g.qualname}: except {norm(h.type) if h.type is not None else ""}')
    ctx.decide(not swallow, 'R-RECOVER', 'D5', f, None, 'open-kind-read-not-swallowed',
               'darr.open: a failed read of the stored object kind propagates (no handler substitutes a guessed kind)',
               detail=f'handler(s) that do not re-raise around the descriptor read: {sorted(set(swallow))[:3]} — a directory '
                      f'without a (valid) top-level arraydescription.json is opened as whatever the fallback guesses')
    ctx.floor('C18 kind reads in darr/__init__.py', nread, 1)
