"""C09 — a failed Array append leaves exactly the completed chunks.

The recovery code is correct only if it covers every write and recomputes
the length from completed writes; both are shapes (R-RECOVER)."""
import ast

from ..rules import must_precede, must_follow
from ..cfg import cfg_of, always_raises, handler_names, is_catch_all
from ..pathcond import inline
from ..astutil import arg_for, dotted, get_arg, derived, norm, enclosing, names_in, defs_of, assignments
from ..srcmodel import own_nodes, AnalysisError
from .C17 import find_committer, find_appenders, commit_delta
from .C20 import fold

EXPLANATION = (
    "R-RECOVER over Array.iterappend: every call that may write the data file (the appender call in "
    "the loop, the by-path first-chunk write) lies lexically inside a try whose handler catches at "
    "least Exception and, on all its paths, (a) commits the accumulator of completed chunks where any "
    "were counted, (b) resizes the data file to the committed byte size — the resize operand is "
    "normalised through the class's own size properties and must equal committed element count x item "
    "size, or be literal 0 under an emptiness test — after the commit, (c) ends in raise. The "
    "accumulator is only ever 0 or increased by the appender's return value in the statement that "
    "made the call. Inside the appender the checked value is what is written, and the checker's "
    "trailing-shape test compares whole shape tuples (no zip truncation, no rank promotion) and "
    "dominates its return. Consumption of the caller's iterable is inside the protected region or "
    "precedes every write.")
ASSUMPTIONS = [
    "not decided: behaviour under a real kernel write failure at a given byte offset; whether the handler itself can complete under the same fault",
]


def expand_props(cls, expr):
    """Inline simple read-only properties of the class (single return)."""
    class T(ast.NodeTransformer):
        def __init__(self):
            self.depth = 0

        def visit_Attribute(self, n):
            self.generic_visit(n)
            if isinstance(n.value, ast.Name) and n.value.id == 'self' and n.attr in cls.methods and \
                    cls.methods[n.attr].is_property and self.depth < 4:
                rets = [r.value for r in own_nodes(cls.methods[n.attr].node)
                        if isinstance(r, ast.Return) and r.value is not None]
                if len(rets) == 1:
                    v = rets[0]
                    if isinstance(v, ast.Call) and dotted(v.func) == 'int' and len(v.args) == 1:
                        v = v.args[0]
                    self.depth += 1
                    import copy
                    out = self.visit(copy.deepcopy(v))
                    self.depth -= 1
                    return out
            return n
    import copy
    return T().visit(copy.deepcopy(expr))


def product_atoms(expr):
    """Multiset (sorted tuple) of factor texts of a pure product, or None."""
    if isinstance(expr, ast.BinOp) and isinstance(expr.op, ast.Mult):
        l, r = product_atoms(expr.left), product_atoms(expr.right)
        if l is None or r is None:
            return None
        return tuple(sorted(l + r))
    if isinstance(expr, ast.BinOp):
        return None
    if isinstance(expr, ast.Call) and dotted(expr.func) in ('int',) and len(expr.args) == 1:
        return product_atoms(expr.args[0])
    t = norm(expr)
    t = {'product(self._shape)': 'self._size', 'np.prod(self._shape)': 'self._size',
         'product(self.shape)': 'self._size', 'np.prod(self.shape)': 'self._size'}.get(t, t)
    return (t,)


def committed_bytes(cls, expr):
    e = expand_props(cls, expr)
    atoms = product_atoms(e)
    if atoms is None:
        return None, norm(e)
    return atoms == ('self._dtype.itemsize', 'self._size'), ' * '.join(atoms)


def run(ctx):
    from ._shared import no_escape_from_finally
    no_escape_from_finally(ctx, 'D1')   # a failing append raises: no clean-up swallows the exception in flight
    c = ctx.repo.cls('Array')
    f = c.methods.get('iterappend')
    if f is None:
        raise AnalysisError('Array.iterappend vanished')
    committer = find_committer(ctx)
    appenders = [a for a in find_appenders(ctx) if a.cls is c]
    if not appenders:
        raise AnalysisError('Array appender not found')
    write_sites = []
    for n, cal in ctx.E.callees(f):
        if cal in appenders and isinstance(n, ast.Call):
            write_sites.append((n, f'appender call {norm(n.func)}'))
    for e in ctx.E.primitives(f):
        if e.kind in ('WRITE-PATH', 'WRITE-HANDLE', 'TRUNC-WRITE'):
            write_sites.append((e.node, f'{e.kind} {norm(e.node)[:40]}'))
    ctx.floor('C09 data write sites in iterappend', len(write_sites), 2)
    for node, what in write_sites:
        recover(ctx, f, c, node, what, committer, appenders)
    d2_accumulator(ctx, f, committer, appenders)
    d3_checker(ctx, c, appenders)
    d4_iterable(ctx, f, write_sites)
    # append delegates to iterappend
    ap = c.methods.get('append')
    ok = ap is not None and any(cal is f for _, cal in ctx.E.callees(ap)) and \
        not [e for e in ctx.E.primitives(ap) if e.kind in ('WRITE-PATH', 'WRITE-HANDLE')]
    ctx.decide(ok, 'R-OWN', 'D1', ap or f, None, 'append-via-iterappend',
               'Array.append writes only through iterappend (one recovery path for both)',
               detail='append has a write path of its own')
    if ap is not None:
        append_is_one_chunk(ctx, ap, f)
        append_always_delegates(ctx, ap, f)


def append_always_delegates(ctx, ap, f, clause='D1'):
    """Every normal path through append() passes the iterappend call: all validation of an append (access mode, trailing
    shape and rank, conversion) lives behind it, so an early return — e.g. for zero-length input — silently accepts
    calls that must be rejected."""
    g = cfg_of(ap)
    calls = {g.node_for(n) for n, cal in ctx.E.callees(ap) if cal is f and isinstance(n, ast.Call)}
    ok = bool(calls) and not g.can_reach(g.entry, g.exit, avoid=calls, skip_labels=('exc',))
    ctx.decide(ok, 'R-DOM', clause, ap, None, 'append-always-delegates',
               'Array.append reaches iterappend on every normal path (no shortcut around the validation)',
               detail='a path through append returns without calling iterappend: whatever that path accepts (e.g. '
                      'zero-length input of any trailing shape, or any input on a read-only array) is not validated')


def append_is_one_chunk(ctx, ap, f):
    """`append(x)` offers x to iterappend as ONE chunk (a one-element display), so that a failure leaves all of x or
    nothing of x.  Handing it a repo generator that cuts x into pieces makes a failed append keep a prefix of x."""
    calls = [n for n, cal in ctx.E.callees(ap) if cal is f and isinstance(n, ast.Call)]
    if not calls or ap is None:
        return
    params = [p for p in ap.params if p != 'self']
    for call in calls:
        arg = arg_for(call, f, [p for p in f.params if p != 'self'][0])
        if arg is None:
            continue
        arg = inline(ap, arg)
        while isinstance(arg, ast.Call) and dotted(arg.func) in ('iter', 'list', 'tuple') and len(arg.args) == 1:
            arg = arg.args[0]
        construct = 'append-one-chunk'
        inst = 'Array.append offers its argument to iterappend as a single chunk (all of it is appended, or nothing)'
        if isinstance(arg, (ast.List, ast.Tuple, ast.Set)) and len(arg.elts) == 1 and not isinstance(arg.elts[0], ast.Starred):
            ctx.ok('R-FLOW', 'D1', ap, call, construct, inst)
            continue
        splitter = None
        if isinstance(arg, ast.Call):
            for k, t in ctx.R.resolve_call(arg, ap):
                if k == 'repo' and any(isinstance(x, (ast.Yield, ast.YieldFrom)) for x in own_nodes(t.node)):
                    splitter = t
            if splitter is not None:
                # a generator that yields its parameter once, whole and outside any loop, is the one-element display
                ys = [x for x in own_nodes(splitter.node) if isinstance(x, (ast.Yield, ast.YieldFrom))]
                loops = [x for x in own_nodes(splitter.node) if isinstance(x, (ast.For, ast.While))]
                if len(ys) == 1 and isinstance(ys[0], ast.Yield) and not loops and isinstance(ys[0].value, ast.Name) and \
                        ys[0].value.id in splitter.params and not defs_of(splitter.node, ys[0].value.id) and \
                        len(arg.args) + len(arg.keywords) == 1 and norm(inline(ap, (arg.args + [k_.value for k_ in arg.keywords])[0])) in params:
                    ctx.ok('R-FLOW', 'D1', ap, call, construct, inst + f' (through the single-yield generator {splitter.qualname})')
                    continue
        if isinstance(arg, (ast.GeneratorExp, ast.ListComp)) or splitter is not None or \
                (isinstance(arg, ast.Name) and arg.id in params):
            ctx.bad('R-FLOW', 'D1', ap, call, construct, inst,
                    detail=f'the argument is handed over as `{norm(arg)[:60]}`, which yields it in several pieces: after a '
                           f'failure part-way the array keeps a prefix of the appended data')
        else:
            ctx.assume('R-FLOW', 'D1', ap, call, construct, inst, detail=f'unrecognised iterable `{norm(arg)[:60]}`')


def recover(ctx, f, cls, node, what, committer, appenders):
    construct = f'recover::{what.split()[0]}::{norm(node.func) if isinstance(node, ast.Call) else ""}'
    inst = f'Array.iterappend: `{norm(node)[:50]}` is protected by a recovering handler'
    tr = None
    for p, field in enclosing(f.node, node):
        if isinstance(p, ast.Try) and field == 'body':
            tr = p
            break
    if tr is None:
        ctx.bad('R-RECOVER', 'D1', f, node, construct, inst,
                detail='the write is outside any try: if it fails part-way, a partly written data file '
                       'remains next to a descriptor that does not count it (array unopenable)')
        return
    hs = tr.handlers
    if not any(is_catch_all(h) for h in hs):
        ctx.bad('R-RECOVER', 'D1', f, tr, construct, inst,
                detail=f'handlers catch only {sorted(set().union(*[handler_names(h) for h in hs]))}: any '
                       f'other exception (from the iterable, OverflowError, KeyError ...) skips the '
                       f'recovery and leaves completed chunks in the file without bookkeeping')
        return
    ok_all = True
    for h in hs:
        if not is_catch_all(h):
            continue
        body = ast.Module(body=h.body, type_ignores=[])
        if not always_raises(h.body):
            ctx.bad('R-RECOVER', 'D1', f, h, construct + '::raise', inst, detail='handler does not end in raise: the failure is swallowed')
            ok_all = False
            continue
        resizes = [e for e in ctx.E.primitives(f) if e.kind == 'RESIZE' and
                   any(x is e.node for x in ast.walk(body))]
        commits = [n for n, cal in ctx.E.callees(f) if cal is committer and any(x is n for x in ast.walk(body))]
        if commits and resizes:
            # the handler commits *before* it cuts the file back: the committer must not be able to refuse
            raises = [n for n in own_nodes(committer.node) if isinstance(n, ast.Raise)]
            first_commit_before = any(must_precede(f, r.node, commits) for r in resizes)
            if raises and first_commit_before:
                ctx.bad('R-RECOVER', 'D1', f, raises[0], construct + '::committer-raises', inst,
                        detail=f'{committer.qualname} (called by the handler before the file is cut back) contains an explicit '
                               f'`{norm(raises[0])[:60]}`: a check that fires exactly when a partial chunk is in the file '
                               f'aborts the recovery — neither the description nor the truncation happens')
                ok_all = False
                continue
        if not resizes:
            ctx.bad('R-RECOVER', 'D1', f, h, construct + '::resize', inst,
                    detail='handler does not cut the data file back to the committed size: a partial chunk remains')
            ok_all = False
            continue
        # the cut is unconditional: every path through the handler to its raise passes a resize (a guard such as
        # `if <rows completed> > 0:` skips it exactly when the first chunk failed part-way and its bytes are in the file)
        cfg = cfg_of(f)
        rnodes = {cfg.node_for(r.node) for r in resizes}
        start = cfg.node_for(h.body[0])
        ends = [cfg.node_for(x) for x in ast.walk(body) if isinstance(x, ast.Raise)]
        if not all(cfg.all_paths_pass(start, e_, rnodes, skip_labels=('exc',)) for e_ in ends):
            ctx.bad('R-RECOVER', 'D1', f, resizes[0].node, construct + '::resize-unconditional', inst,
                    detail='a path through the handler reaches the re-raise without cutting the data file back (the cut is '
                           'conditional): when the failing chunk was the first one, its partly written bytes stay in the file')
            ok_all = False
            continue
        for r in resizes:
            arg = r.node.args[-1] if r.node.args else None
            if arg is None:
                ctx.bad('R-RECOVER', 'D1', f, r.node, construct + '::resize-arg', inst, detail='resize without a size')
                ok_all = False
                continue
            if isinstance(arg, ast.Constant) and arg.value == 0:
                # legitimate only when the array is known to be empty here
                guarded = False
                for p, field in enclosing(f.node, r.node):
                    if isinstance(p, ast.If) and field == 'body':
                        t = norm(p.test)
                        if ('self._shape' in t or 'self._size' in t or 'len(self)' in t) and '== 0' in t:
                            guarded = True
                if guarded and not commits:
                    continue
                ctx.bad('R-RECOVER', 'D1', f, r.node, construct + '::resize-arg', inst,
                        detail='data file cut to length 0 although the array is not known to be empty here')
                ok_all = False
                continue
            good, txt = committed_bytes(cls, arg)
            if good is None:
                ctx.assume('R-RECOVER', 'D1', f, r.node, construct + '::resize-arg', inst,
                           detail=f'resize operand `{txt}` is not a pure product')
                ok_all = False
            elif not good:
                ctx.bad('R-RECOVER', 'D1', f, r.node, construct + '::resize-arg', inst,
                        detail=f'the file is cut to `{txt}`, which is not committed element count x item size '
                               f'(self._size * self._dtype.itemsize): for N-D arrays the original data are destroyed')
                ok_all = False
            if not commits:
                ctx.bad('R-RECOVER', 'D1', f, h, construct + '::commit', inst,
                        detail='handler does not commit the completed chunks before cutting the file')
                ok_all = False
            else:
                ordered = all(c.lineno < r.node.lineno for c in commits)
                if not ordered:
                    ctx.bad('R-ORDER', 'D1', f, r.node, construct + '::commit-before-resize', inst,
                            detail='the size used for the cut is read before the commit updated it')
                    ok_all = False
    # the recovery commit and the success commit that follows the same try count the same thing
    g_ = cfg_of(f)
    after = [n for n, cal in ctx.E.callees(f) if cal is committer and isinstance(n, ast.Call) and
             not any(p is tr for p, _ in enclosing(f.node, n)) and g_.can_reach(g_.node_for(tr.body[-1]), g_.node_for(n),
                                                                            skip_labels=('exc',))]
    inh = [n for n, cal in ctx.E.callees(f) if cal is committer and isinstance(n, ast.Call) and
           any(isinstance(p, ast.ExceptHandler) and any(h is p for h in hs) for p, _ in enclosing(f.node, n))]
    if after and inh:
        from ..pathcond import inline as _inl
        d_ok = commit_delta(ctx, committer, after[0], f)
        for hc in inh:
            d_h = commit_delta(ctx, committer, hc, f)
            same = d_ok is not None and d_h is not None and norm(_inl(f, d_ok)) == norm(_inl(f, d_h))
            if not same:
                ctx.bad('R-SIB', 'D1', f, hc, construct + '::same-count-as-success', inst,
                        detail=f'the recovery path commits `{norm(d_h) if d_h is not None else None}` but the success path commits '
                               f'`{norm(d_ok) if d_ok is not None else None}`: rows that the success path counts (e.g. a first chunk '
                               f'written before the loop) are dropped from the length — and cut from the file — when a later '
                               f'chunk fails')
                ok_all = False
    if ok_all:
        ctx.ok('R-RECOVER', 'D1', f, node, construct, inst +
               ' (catch-all; commit of completed chunks; cut to committed byte size; re-raise)')


def d2_accumulator(ctx, f, committer, appenders):
    # names passed to the committer inside handlers / after the loop
    accs = set()
    for n, cal in ctx.E.callees(f):
        if cal is committer and isinstance(n, ast.Call):
            a = commit_delta(ctx, committer, n, f)
            if isinstance(a, ast.Name):
                accs.add(a.id)
    for acc in sorted(accs):
        ok = True
        why = ''
        for nm, val, st in assignments(f.node):
            if nm != acc:
                continue
            if isinstance(st, ast.Assign) and isinstance(val, ast.Constant) and val.value == 0:
                continue
            if isinstance(st, ast.AugAssign) and isinstance(st.op, ast.Add) and isinstance(val, ast.Call) and \
                    any(t in appenders for k, t in ctx.R.resolve_call(val, f) if k == 'repo'):
                continue
            # the length of the array that has just been written whole by path (first chunk of an empty array)
            if isinstance(st, ast.Assign) and isinstance(val, ast.Subscript) and isinstance(val.slice, ast.Constant) and \
                    val.slice.value == 0 and isinstance(val.value, ast.Attribute) and val.value.attr == 'shape' and \
                    isinstance(val.value.value, ast.Name):
                written = [e.node for e in ctx.E.primitives(f) if e.kind == 'WRITE-PATH' and isinstance(e.node, ast.Call) and
                           isinstance(e.node.func, ast.Attribute) and dotted(e.node.func.value) == val.value.value.id]
                if written and must_precede(f, st, written):
                    continue
            ok = False
            why = f'`{norm(st)[:60]}`'
        ctx.decide(ok, 'R-FLOW', 'D2', f, None, f'accumulator::{acc}',
                   f'the committed accumulator `{acc}` is only ever 0 or increased by the appender\'s return value '
                   f'in the statement that made the call',
                   detail=f'accumulator changed by {why}: it may count rows that were not completely written')
    ctx.floor('C09 accumulators', len(accs), 1)


def d3_checker(ctx, cls, appenders):
    ap = appenders[0]
    # the value written is the return value of the checker
    checker = None
    for n in own_nodes(ap.node):
        if isinstance(n, ast.Assign) and isinstance(n.value, ast.Call):
            tg = [t for k, t in ctx.R.resolve_call(n.value, ap) if k == 'repo']
            if tg and tg[0].cls is cls:
                checker = (tg[0], n)
    writes = [e for e in ctx.E.primitives(ap) if e.kind == 'WRITE-HANDLE']
    if checker is None or not writes:
        ctx.bad('R-DOM', 'D3', ap, None, 'checked-before-write', 'the appender validates/casts before writing',
                detail='no checker call or no write found in the appender')
        return
    chk, assign = checker
    tgt = norm(assign.targets[0])
    from ..astutil import written_base
    write_time = True
    for w in writes:
        base_, wd_ = written_base(w.node)
        recv = norm(base_) if base_ is not None else ''
        if wd_ is None or norm(wd_) not in ('self._dtype', 'self.dtype'):
            write_time = False
        ctx.decide(recv == tgt and must_precede(ap, w.node, [assign]), 'R-DOM', 'D3', ap, w.node, 'checked-before-write',
                   f'the appender writes the value returned by {chk.qualname} (validated and cast before anything is written)',
                   detail='the written value is not the checked one, or the check follows the write')
    # inside the checker
    rets = [n for n in own_nodes(chk.node) if isinstance(n, ast.Return)]
    tests = [n for n in own_nodes(chk.node) if isinstance(n, ast.If) and always_raises(n.body) and 'shape' in norm(n.test)]
    good = None
    for t in tests:
        x = t.test
        neg = False
        if isinstance(x, ast.UnaryOp) and isinstance(x.op, ast.Not):
            x, neg = x.operand, True
        if isinstance(x, ast.Compare) and len(x.ops) == 1 and isinstance(x.ops[0], ast.Eq if neg else ast.NotEq):
            sides = [norm(x.left), norm(x.comparators[0])]
            if all(s.endswith(('.shape[1:]', '._shape[1:]')) for s in sides) and any(s.startswith('self.') for s in sides):
                good = t
    if good is None:
        zipped = [n for n in own_nodes(chk.node) if isinstance(n, ast.Call) and dotted(n.func) == 'zip'
                  and any('shape' in norm(a) for a in n.args) and
                  not any(k.arg == 'strict' and isinstance(k.value, ast.Constant) and k.value.value for k in n.keywords)]
        if zipped:
            ctx.bad('R-BELIEF', 'D3', chk, zipped[0], 'trailing-shape-test', f'{chk.qualname} compares whole trailing shapes',
                    detail='shapes are compared through zip(), which stops at the shorter tuple: a chunk of the wrong '
                           'rank whose overlapping axes match is accepted and written')
        else:
            ctx.assume('R-DOM', 'D3', chk, None, 'trailing-shape-test', f'{chk.qualname} compares whole trailing shapes',
                       detail='no test of the form array.shape[1:] != self.shape[1:] recognised')
    else:
        ok = all(must_precede(chk, r, [good]) for r in rets)
        ctx.decide(ok, 'R-DOM', 'D3', chk, good, 'trailing-shape-test',
                   f'{chk.qualname}: the trailing-shape TypeError test precedes the return',
                   detail='a path returns the array without the shape test')
    # no rank promotion in the checker
    bad = []
    for n in own_nodes(chk.node):
        if isinstance(n, ast.Call):
            d = dotted(n.func) or ''
            nd = get_arg(n, None, 'ndmin')
            if nd is not None and not (isinstance(nd, ast.Constant) and nd.value in (0, 1)):
                bad.append(n)
            if d in ('np.atleast_2d', 'np.atleast_3d', 'np.expand_dims') or \
                    (isinstance(n.func, ast.Attribute) and n.func.attr == 'reshape'):
                bad.append(n)
        if isinstance(n, ast.Subscript) and any(
                (isinstance(x, ast.Constant) and x.value is None) or norm(x) == 'np.newaxis'
                for x in ast.walk(n.slice)):
            bad.append(n)
    ctx.decide(not bad, 'R-BELIEF', 'D3', chk, bad[0] if bad else None, 'no-rank-promotion',
               f'{chk.qualname} does not change the rank of its input (only ndmin=1 for bare numbers)',
               detail=f'`{norm(bad[0])[:50]}` promotes a chunk of the wrong rank instead of rejecting it: the caller\'s '
                      f'own length bookkeeping (len of the raw item) then disagrees with the rows written' if bad else '')
    # every normal path converts (no shortcut that returns the input as it is)
    param = [p for p in chk.params if p != 'self'][0]
    cfg = cfg_of(chk)
    # the value returned is, on every path, the result of a conversion of the input (whatever the names are)
    retnames = {x.id for r in rets if r.value is not None for x in ast.walk(r.value) if isinstance(x, ast.Name)}

    def is_conv(v):
        if isinstance(v, ast.IfExp):
            return is_conv(v.body) and is_conv(v.orelse)
        return isinstance(v, ast.Call) and dotted(v.func) in ('np.asarray', 'np.array', 'numpy.asarray', 'numpy.array') and \
            v.args and (param in names_in(v.args[0]) or retnames & names_in(v.args[0]))
    cv = [n for n in own_nodes(chk.node) if isinstance(n, ast.Assign) and is_conv(n.value)
          and norm(n.targets[0]) in retnames | {param}]
    cv += [r for r in rets if is_conv(r.value)]
    nodes = {cfg.node_for(n) for n in cv}
    ok = bool(cv) and not cfg.can_reach(cfg.entry, cfg.exit, avoid=nodes, skip_labels=('exc',))
    if not ok and write_time and writes:
        # the conversion with the array's dtype happens at the write itself (`x.astype(self._dtype, ...).tofile(fd)`): what
        # the checker lets through unconverted is converted there — at *every* place that writes a checked value
        ok = True
        for g_ in cls.all_funcs():
            if g_ is ap:
                continue
            for e_ in ctx.E.primitives(g_):
                if e_.kind in ('WRITE-PATH', 'WRITE-HANDLE') and isinstance(e_.node, ast.Call) and \
                        isinstance(e_.node.func, ast.Attribute) and e_.node.func.attr == 'tofile':
                    b_, d_ = written_base(e_.node)
                    src_ = derived(g_.node, b_) if b_ is not None else set()
                    from_checker = any(isinstance(v_, ast.Call) and any(t_ is chk for k_, t_ in ctx.R.resolve_call(v_, g_) if k_ == 'repo')
                                       for nm_ in src_ for v_, _ in defs_of(g_.node, nm_))
                    conv_here = d_ is not None and norm(d_) in ('self._dtype', 'self.dtype')
                    conv_before = any(isinstance(v_, ast.Call) and isinstance(v_.func, ast.Attribute) and v_.func.attr == 'astype'
                                      and v_.args and norm(v_.args[0]) in ('self._dtype', 'self.dtype')
                                      for nm_ in src_ for v_, _ in defs_of(g_.node, nm_))
                    if from_checker and not (conv_here or conv_before):
                        ok = False
    ctx.decide(ok, 'R-DOM', 'D3', chk, cv[0] if cv else None, 'always-converts',
               f'{chk.qualname}: every normal path converts the input with the array\'s dtype (byte order included)',
               detail='a path returns the input without conversion (e.g. a shortcut on dtype.name, which ignores '
                      'byte order): raw bytes of the wrong byte order / type are appended')
    # both branches construct with the array's dtype
    convs = [n for n in own_nodes(chk.node) if isinstance(n, ast.Call) and dotted(n.func) in ('np.asarray', 'np.array')]
    ok = bool(convs) and all(norm(get_arg(n, 1, 'dtype') or ast.Constant(None)) in ('self._dtype', 'self.dtype') for n in convs)
    ctx.decide(ok, 'R-FLOW', 'D3', chk, convs[0] if convs else None, 'cast-to-array-dtype',
               f'{chk.qualname} converts with dtype=self._dtype in every branch', detail='a branch converts without the array dtype')


def d4_iterable(ctx, f, write_sites):
    param = [p for p in f.params if p != 'self'][0]
    uses = []
    for n in own_nodes(f.node):
        if isinstance(n, ast.For) and param in names_in(n.iter):
            uses.append(n)
        if isinstance(n, ast.Call) and dotted(n.func) == 'next' and n.args and param in names_in(n.args[0]):
            uses.append(n)
    ctx.floor('C09 consumptions of the iterable', len(uses), 2)
    for u in uses:
        protected = any(isinstance(p, ast.Try) and field == 'body' and any(is_catch_all(h) for h in p.handlers)
                        for p, field in enclosing(f.node, u))
        # or before any write
        cfg = cfg_of(f)
        un = cfg.node_for(u)
        before = all(not cfg.can_reach(cfg.node_for(w), un) for w, _ in write_sites)
        stopit = any(isinstance(p, ast.Try) and field == 'body' and any('StopIteration' in handler_names(h) for h in p.handlers)
                     for p, field in enclosing(f.node, u)) or isinstance(u, ast.For) or len(u.args) > 1
        ctx.decide((protected or before) and stopit, 'R-BELIEF', 'D4', f, u, f'iterable::{norm(u)[:30] if isinstance(u, ast.Call) else "for"}',
                   'consumption of the caller\'s iterable is inside the protected region or precedes every write, and an '
                   'exhausted iterator does not leak StopIteration',
                   detail='the iterable is consumed after a write outside the recovering handler, or next() is unguarded')
