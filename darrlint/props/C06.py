"""C06 — generated read code for Arrays denotes the stored array in every
language.  The program text depends only on finite tables, so the set of all
programs Darr can emit is computed by abstract interpretation of the
generators and every member is checked against the language's reader model."""
import ast
import os

from ..srcmodel import own_nodes, AnalysisError
from ..astutil import arg_for, dotted, norm, get_arg
from ..tmpl.interp import Unmodelled
from ..tmpl import space, langs

EXPLANATION = (
    "String-template analysis: the read-code generators of darr/readcodearray.py are abstractly "
    "interpreted (own AST interpreter, nothing of Darr imported) over the complete finite input space "
    "12 languages x 13 numeric types x 2 byte orders x number of dimensions x 3 path modes, with "
    "extents and paths as opaque holes, giving the exact text of every program Darr can emit. Each "
    "program is parsed according to its language and a fact sheet is extracted (path opened, open mode, "
    "what the type token and the byte-order token denote, dimension list in program order, element "
    "count) and compared with what the stored array requires under the reader model of that language "
    "(row/column-major axis order, count = product of extents, doubled for float-pair workarounds). Code "
    "is offered/withheld exactly as the two compatibility tables of docs/readcode.rst state; the "
    "registry, readcodelanguages, readcode() validation and dispatcher range over the same key set.")
ASSUMPTIONS = [
    "reader models in tmpl/langs.py: transcription of the documented semantics of np.fromfile/np.memmap, struct/array, "
    "R readBin/array, Matlab fopen/fread/reshape, Scilab mopen/mget/mgeti/matrix, Julia read/read!/ltoh/ntoh, IDL read_binary, "
    "Mathematica BinaryReadList/ArrayReshape, Maple FileTools[Binary][Read]/ArrayTools[Reshape]",
    "not decided: behaviour of the foreign interpreters themselves; the Python-family snippets are parsed (ast.parse) and judged against the NumPy/struct model, not executed",
]


HOSTDEP = {'struct.calcsize': 'native sizes/alignment of the host C compiler (no byte-order prefix given)',
           'sys.byteorder': 'byte order of the host that generates the code, not of the stored array',
           'sys.platform': 'host platform', 'os.name': 'host platform', 'platform.machine': 'host platform',
           'platform.system': 'host platform', 'np.intp': 'host pointer size', 'ctypes.sizeof': 'host C type sizes',
           'sys.maxsize': 'host pointer size'}
CACHED = {'shape', '_shape', 'dtype', '_dtype', 'ndim', 'size', '_size', 'nbytes', 'itemsize'}


def t0_sources(ctx, modname, clause='T0'):
    """(a) the dispatcher takes numeric type, shape and byte order from the description re-read from disk
    (`<array>._arrayinfo`), not from attributes cached in the handle, which go stale when another handle appends or
    truncates; (b) no generator consults a property of the *host* (struct native sizes, sys.byteorder ...): the text must
    be a function of the stored array only."""
    m = ctx.repo.module(modname)
    disp = m.funcs.get('readcode')
    if disp is None:
        raise AnalysisError(f'{modname}.readcode vanished')
    p0 = disp.params[0]
    stale = [n for n in own_nodes(disp.node) if isinstance(n, ast.Attribute) and isinstance(n.value, ast.Name)
             and n.value.id == p0 and n.attr in CACHED]
    ctx.decide(not stale, 'R-FLOW', clause, disp, stale[0] if stale else None, f'descriptor-source::{modname}',
               f'{modname}.readcode derives type, shape and byte order from the description file re-read from disk '
               f'({p0}._arrayinfo)',
               detail=f'`{norm(stale[0]) if stale else ""}` is a value cached in the handle: after truncate_array(path) or an '
                      f'append through another handle the program is generated for the old shape')
    host = []
    for f in m.all_funcs():
        for n in own_nodes(f.node):
            d = dotted(n) if isinstance(n, (ast.Attribute, ast.Name)) else None
            if d in HOSTDEP:
                host.append((f, n, d))
    ctx.decide(not host, 'R-FLOW', clause, host[0][0] if host else disp, host[0][1] if host else None, f'host-independent::{modname}',
               f'no read-code generator of {modname} consults a property of the generating host',
               detail=f'{host[0][0].qualname} uses `{host[0][2]}` ({HOSTDEP[host[0][2]]}): the generated program differs '
                      f'between hosts for the same stored array' if host else '')


def run(ctx):
    repo = ctx.repo
    # executing the generated code never modifies a file of the array: the 'darr' program only constructs a handle
    # (default mode 'r') and indexes it, so the constructor performs no file-system mutation (shared with C07 A5)
    from ..effects import MUTATING
    init = repo.cls('Array').methods.get('__init__')
    eff = [e for e in ctx.E.may(init) if e.kind in MUTATING] if init is not None else []
    ctx.decide(init is not None and not eff, 'R-OWN', 'A5', init, None, 'constructor-effect-free::Array',
               'Array.__init__ performs no file-system mutation (running the generated darr read code never changes a file)',
               detail='opening the array can write: ' + '; '.join(e.describe() for e in eff[:3]))
    t0_sources(ctx, 'readcodearray')
    try:
        ia, ir = space.make_interps(repo)
    except Unmodelled as e:
        raise AnalysisError(f'read-code modules outside the modelled subset: {e}')
    reg = ia.globs.get('readcodefunc')
    if not isinstance(reg, dict) or not reg:
        raise AnalysisError('readcodearray.readcodefunc registry not evaluable')
    languages = list(reg)
    ctx.info['languages'] = languages
    doc = repo.docs.get('docs/readcode.rst')
    if doc is None:
        raise AnalysisError('docs/readcode.rst vanished')
    doc_types, doc_dims = langs.parse_doc_tables(doc[0])
    if len(doc_types) < 11:
        raise AnalysisError('compatibility tables of docs/readcode.rst not parseable')
    ndims = (1, 2, 3) if ctx.tier == 'quick' else (1, 2, 3, 4)
    results = {}      # (lang, aspect) -> [ok count, [failures]]
    ntemplates = 0
    distinct = set()
    samples = []

    def rec(lang, aspect, ok, cfg, detail):
        r = results.setdefault((lang, aspect), [0, []])
        if ok:
            r[0] += 1
        else:
            r[1].append(f'{cfg}: {detail}')

    for lang in languages:
        for nt in space.NUMTYPES:
            for bo in space.BYTEORDERS:
                for nd in ndims:
                    for pm in space.PATHMODES:
                        cfg = f'{nt}/{bo}/{nd}-D/{pm}'
                        try:
                            code, da = space.array_code(repo, ia, lang, nt, bo, nd, pm)
                        except Unmodelled as e:
                            raise AnalysisError(f'generator for {lang} outside the modelled subset ({cfg}): {e}')
                        ntemplates += 1
                        # T5 offered / withheld
                        if lang == 'darr':
                            offered = True
                        else:
                            offered = doc_types.get(lang, {}).get(nt, False) and \
                                doc_dims.get(lang, {}).get('1-D' if nd == 1 else 'N-D', False)
                        rec(lang, 'T5 offered exactly as documented', (code is not None) == offered, cfg,
                            f"code is {'offered' if code is not None else 'withheld'} but docs/readcode.rst says "
                            f"{'offered' if offered else 'withheld'}")
                        if code is None:
                            continue
                        if not isinstance(code, str):
                            rec(lang, 'T6 well-formed', False, cfg, f'generator returned {type(code).__name__}')
                            continue
                        distinct.add(code)
                        if len(samples) < 6 and (lang, nd) in (('matlab', 3), ('R', 2), ('numpymemmap', 1), ('scilab', 2), ('idl', 3), ('python', 1)) \
                                and nt in ('complex64', 'int32', 'float64') and bo == 'big' and pm == 'basepath' and \
                                not any(s['language'] == lang for s in samples):
                            samples.append({'language': lang, 'config': cfg, 'program': code})
                        try:
                            f = langs.EXTRACTORS[lang](code)
                        except langs.BadProgram as e:
                            rec(lang, 'T6 well-formed', False, cfg, str(e))
                            continue
                        except KeyError:
                            raise AnalysisError(f'no reader model for language {lang!r}')
                        except Exception as e:
                            rec(lang, 'T6 well-formed', False, cfg, f'program does not have the expected shape ({type(e).__name__}: {e})')
                            continue
                        rec(lang, 'T6 well-formed', True, cfg, '')
                        ext = [f'{langs.HL}n{i}{langs.HR}' for i in range(nd)]
                        needs_count = lang in ('R', 'scilab', 'python') or (lang == 'matlab' and nd != 2)
                        for aspect, ok, detail in langs.check_array_facts(lang, f, nt, bo, ext, langs.expected_path(pm), needs_count):
                            rec(lang, aspect, ok, cfg, detail)
    f0 = repo.func('readcodearray.readcode')
    for (lang, aspect), (nok, fails) in sorted(results.items()):
        fn = None
        r = reg.get(lang)
        gname = r[1] if isinstance(r, tuple) else getattr(r, 'name', '')
        gen = repo.module('readcodearray').funcs.get(gname) or f0
        construct = f'{lang}::{aspect.split()[0]}'
        inst = f'{lang}: {aspect} — {nok} program(s) conform'
        if fails:
            ctx.bad('R-TABLE' if aspect.startswith(('T2', 'T3', 'T5')) else 'R-TMPL', aspect.split()[0], gen, None, construct, inst,
                    detail=f'{len(fails)} program(s) deviate, first: {fails[0]}', witness=fails[:20])
        else:
            ctx.ok('R-TABLE' if aspect.startswith(('T2', 'T3', 'T5')) else 'R-TMPL', aspect.split()[0], gen, None, construct, inst)
    ctx.floor('C06 programs enumerated', ntemplates, 12 * 13 * 2 * 3 * 3)
    ctx.floor('C06 distinct program texts', len(distinct), 500)
    ctx.info['programs_enumerated'] = ntemplates
    ctx.info['distinct_program_texts'] = len(distinct)
    ctx.info['space'] = {'languages': len(languages), 'numtypes': 13, 'byteorders': 2, 'ndims': list(ndims), 'pathmodes': 3}
    ctx.info['sample_programs'] = samples
    registry_agreement(ctx, reg)


def registry_agreement(ctx, reg):
    A = ctx.repo.cls('Array')
    rl = A.methods.get('readcodelanguages')
    rc = A.methods.get('readcode')
    if rl is None or rc is None:
        raise AnalysisError('Array.readcode / readcodelanguages vanished')
    from ._shared import languages_over_registry, rejects_unknown_language
    ok = languages_over_registry(ctx, rl)
    ctx.decide(ok, 'R-SIB', 'T5', rl, None, 'readcodelanguages-over-registry',
               'readcodelanguages lists exactly the registry languages for which code is offered (is not None)',
               detail='readcodelanguages does not range over the registry with the is-not-None filter')
    ok = rejects_unknown_language(ctx, rc, reg, ctx.repo.func('readcodearray.readcode'))
    ctx.decide(ok, 'R-SIB', 'T5', rc, None, 'readcode-validates-language', 'Array.readcode rejects languages outside the registry (ValueError)',
               detail='validation vanished')
    disp = ctx.repo.func('readcodearray.readcode')
    call = [n for n, cal in ctx.E.callees(rc) if cal is disp and isinstance(n, ast.Call)]
    ok = bool(call) and all(norm(arg_for(call[0], disp, k) or ast.Constant(0)) == k for k in ('language', 'basepath', 'abspath'))
    ctx.decide(ok, 'R-FLOW', 'T1', rc, call[0] if call else None, 'readcode-forwards-path-options',
               'Array.readcode forwards language, basepath and abspath to the dispatcher', detail='path options not forwarded')
    ok = any(isinstance(n, ast.Call) and isinstance(n.func, ast.Subscript) and norm(n.func.value) == 'readcodefunc'
             for n in own_nodes(disp.node))
    ctx.decide(ok, 'R-SIB', 'T5', disp, None, 'dispatcher-uses-registry', 'the dispatcher calls readcodefunc[language]', detail='dispatch changed')
