"""C04 — RaggedArray histories equal a list-of-arrays model and persist."""
import ast

from ..rules import must_precede, must_follow, weak_orderings
from ..pathcond import inline, reach_under
from ..cfg import cfg_of, always_raises
from ..effects import MUTATING
from ..astutil import dotted, get_arg, derived, norm, enclosing, names_in, defs_of, assignments
from ..srcmodel import own_nodes, AnalysisError
from .C17 import find_committer, find_appenders, subarray_role
from .C10 import find_step
from .C05 import d1_contiguity, d3_descriptor_updates, d4_cutpoint
from .C09 import d3_checker
from .C20 import fold
from ._shared import raised_names
from . import _trunc

EXPLANATION = (
    "(D1) RaggedArray.__getitem__: the integer-type gate (TypeError) dominates the index read, and the "
    "subarray is values[slice(*indices[item])] — start/end come from the indices handle and are applied to "
    "the values handle, item forwarded verbatim; (D2/D3) the index row describes the data just written and "
    "the running offset is the values length plus returned increments (shared with C05/C10); (D4) the "
    "requested index type reaches every creation of the indices array (R-FLOW) and is validated against "
    "the seven documented types before any effect; (D5) items are converted with the ragged array's dtype "
    "before they reach the values appender, whose checker casts to the values dtype in every branch "
    "(byte order included: no shortcut on dtype *name*); (D6) both length commits and the top-level "
    "descriptor follow every append (shared with C05); truncate_raggedarray: int gate, new length by NumPy "
    "slicing of the verbatim index, shrink guard decided on all order types of (0, newlen, len), IndexError "
    "otherwise; iter_arrays ranges over range(start, end, step) of copies.")
ASSUMPTIONS = [
    "NumPy slicing / casting semantics by delegation",
    "not decided: contents of ra[k] for all k and histories; negative/out-of-range index behaviour (delegated to NumPy)",
]

INDEXTYPES = {'int8', 'uint8', 'int16', 'uint16', 'int32', 'uint32', 'int64'}


def run(ctx):
    from ._shared import no_escape_from_finally
    no_escape_from_finally(ctx, 'D3')   # a failing append raises: no clean-up swallows the exception in flight
    RA = ctx.repo.cls('RaggedArray')
    committer = find_committer(ctx)
    appenders = find_appenders(ctx)
    step, roles = find_step(ctx, appenders)
    from .C10 import length_before_first_write
    length_before_first_write(ctx, step, roles['VALUESDIR'], 'D3')   # a refused item (bare number) leaves the sequence unchanged
    d1_getitem(ctx, RA)
    d1_contiguity(ctx, RA, step, appenders)
    d4_indextype(ctx)
    d5_dtype(ctx, RA, step, roles, appenders)
    from ._shared import opener_branch_agreement
    opener_branch_agreement(ctx, 'D5')     # the handle's dtype (what appended items are cast to) is the descriptor's, also when empty
    d3_descriptor_updates(ctx, RA, committer, step)
    d4_cutpoint(ctx)
    truncate_rules(ctx)
    iter_arrays_rules(ctx, RA)


def d1_getitem(ctx, RA):
    f = RA.methods.get('__getitem__')
    if f is None:
        raise AnalysisError('RaggedArray.__getitem__ vanished')
    item = [p for p in f.params if p != 'self'][0]
    subs = [n for n in own_nodes(f.node) if isinstance(n, ast.Subscript) and isinstance(n.ctx, ast.Load)
            and subarray_role(ctx, n.value, f) in ('VALUESDIR', 'INDICESDIR')]
    # The type gate is decided per *kind of index* by folding the type tests (table of what the recognised tests
    # answer for each kind) and exploring the CFG: integers reach the reads, everything else ends in TypeError
    # before any read.  Independent of polarity / layout of the test.
    from ..pathcond import reach_under, outcome_under
    from ..rules import eval_bool
    KINDS = {'int': True, 'numpy integer': True, 'bool': False, 'float': False, 'slice': False, 'str': False}
    CLS = {'int': {'int', 'bool'}, 'np.integer': {'numpy integer'}, 'numpy.integer': {'numpy integer'},
           'numbers.Integral': {'int', 'bool', 'numpy integer'}, 'Integral': {'int', 'bool', 'numpy integer'},
           'bool': {'bool'}, 'float': {'float'}, 'np.floating': set(), 'slice': {'slice'}, 'str': {'str'},
           'np.int64': {'numpy integer'}, 'np.bool_': set()}
    ISSUB = {'np.integer': {'int', 'numpy integer'}, 'numpy.integer': {'int', 'numpy integer'},
             'np.signedinteger': {'int', 'numpy integer'}, 'int': {'int', 'numpy integer'}}
    g = cfg_of(f)
    wrong, unknown = [], False
    for kind, accept in KINDS.items():
        def atoms(e, kind=kind):
            if isinstance(e, ast.Call) and dotted(e.func) in ('np.issubdtype', 'numpy.issubdtype') and len(e.args) == 2 and \
                    norm(e.args[0]) in (f'type({item})', f'{item}.__class__') and norm(e.args[1]) in ISSUB:
                return kind in ISSUB[norm(e.args[1])]
            if isinstance(e, ast.Call) and dotted(e.func) == 'isinstance' and len(e.args) == 2 and norm(e.args[0]) == item:
                cl = e.args[1].elts if isinstance(e.args[1], ast.Tuple) else [e.args[1]]
                if all(norm(c) in CLS for c in cl):
                    return any(kind in CLS[norm(c)] for c in cl)
            if isinstance(e, ast.Compare) and len(e.ops) == 1 and norm(e.left) == f'type({item})' and \
                    isinstance(e.ops[0], (ast.Is, ast.Eq, ast.IsNot, ast.NotEq)) and norm(e.comparators[0]) in CLS:
                v = kind == norm(e.comparators[0])
                return v if isinstance(e.ops[0], (ast.Is, ast.Eq)) else not v
            return None
        ft = lambda t, atoms=atoms: eval_bool(t, atoms)
        may = reach_under(f, ft)
        reads = any(g.node_for(s_) in may for s_ in subs)
        normal, raised = outcome_under(f, ft)
        if accept:
            if not reads:
                wrong.append(f'{kind} index never reaches the read')
        else:
            if reads and 'TypeError' in raised:
                unknown = True           # both outcomes remain possible: a test could not be folded
            elif reads:
                wrong.append(f'{kind} index reaches NumPy (no TypeError)')
            elif 'TypeError' not in raised:
                wrong.append(f'{kind} index is rejected with {sorted(raised)} instead of TypeError')
    inst = 'RaggedArray.__getitem__: integer indices (int, NumPy integers) reach the read; bool/float/slice/str end in ' \
           'TypeError before anything is read (type tests folded per kind of index)'
    if wrong:
        ctx.bad('R-DOM', 'D1', f, None, 'integer-gate', inst, detail='; '.join(wrong))
    elif unknown:
        ctx.assume('R-DOM', 'D1', f, None, 'integer-gate', inst, detail='the type test is in a form the rule cannot fold')
    else:
        ctx.ok('R-DOM', 'D1', f, None, 'integer-gate', inst)
    isub = [s for s in subs if subarray_role(ctx, s.value, f) == 'INDICESDIR']
    vsub = [s for s in subs if subarray_role(ctx, s.value, f) == 'VALUESDIR']
    ok = len(isub) == 1 and len(vsub) == 1 and norm(isub[0].slice) == item and not defs_of(f.node, item)
    ctx.decide(ok, 'R-FLOW', 'D1', f, isub[0] if isub else None, 'index-row-read',
               'the index row is read as indices[item] with item verbatim', detail='item is transformed or roles are swapped')
    if ok:
        # values subscripted with slice(*<that row>)
        sl = vsub[0].slice
        expr = sl
        if isinstance(sl, ast.Name):
            ds = [v for v, _ in defs_of(f.node, sl.id)]
            expr = ds[0] if len(ds) == 1 else sl
        good = isinstance(expr, ast.Call) and dotted(expr.func) == 'slice' and len(expr.args) == 1 and \
            isinstance(expr.args[0], ast.Starred) and expr.args[0].value is isub[0]
        ctx.decide(good, 'R-FLOW', 'D1', f, vsub[0], 'values-slice',
                   'the subarray is values[slice(*indices[item])]: start and end from the index row, applied to values',
                   detail=f'values are subscripted with `{norm(expr)}`')
        rets = [n for n in own_nodes(f.node) if isinstance(n, ast.Return)]
        ctx.decide(len(rets) == 1 and rets[0].value is vsub[0], 'R-FLOW', 'D1', f, rets[0] if rets else None, 'returns-values-slice',
                   '__getitem__ returns that slice (a detached copy made by Array.__getitem__)', detail='returns something else')
    ln = RA.methods.get('__len__')
    ok = ln is not None and any(isinstance(n, ast.Return) and isinstance(n.value, ast.Subscript) and
                                subarray_role(ctx, n.value.value.value, ln) == 'INDICESDIR' for n in own_nodes(ln.node)
                                if isinstance(n, ast.Return) and isinstance(n.value, ast.Subscript) and isinstance(n.value.value, ast.Attribute))
    ctx.decide(ok, 'R-FLOW', 'D1', ln or f, None, 'len-from-indices', 'len(ra) is the first extent of the indices handle',
               detail='len(ra) is not read from the indices handle (e.g. from the top-level descriptor, which is updated last)')


def d4_indextype(ctx):
    f = ctx.repo.func('raggedarray.asraggedarray')
    g = ctx.repo.func('raggedarray.create_raggedarray')
    # validation before any effect
    gates = [n for n in own_nodes(f.node) if isinstance(n, ast.If) and always_raises(n.body) and 'indextype' in names_in(n.test)]
    val = None
    if gates:
        for nm in names_in(gates[0].test):
            for v, _ in defs_of(f.node, nm):
                try:
                    val = set(ast.literal_eval(v))
                except Exception:
                    pass
        try:
            for c in ast.walk(gates[0].test):
                if isinstance(c, ast.Compare):
                    val = val or set(ast.literal_eval(c.comparators[0]))
        except Exception:
            pass
    muts = [n for n, cal in ctx.E.callees(f) if isinstance(n, ast.Call) and any(e.kind in MUTATING for e in ctx.E.may(cal))]
    ok = bool(gates) and val == INDEXTYPES and all(must_precede(f, m, gates) for m in muts) and 'ValueError' in raised_names(gates[0].body)
    ctx.decide(ok, 'R-DOM', 'D4', f, gates[0] if gates else None, 'indextype-validated',
               f'asraggedarray rejects index types outside {sorted(INDEXTYPES)} with ValueError before any effect',
               detail=f'validation missing, after an effect, or over another set ({sorted(val) if val else val})')
    n = 0
    for func in (f, g):
        for node, cal in ctx.E.callees(func):
            if not isinstance(node, ast.Call):
                continue
            if cal.qualname in ('asarray', 'create_array'):
                p = get_arg(node, 0, 'path')
                pv = ctx.E.pathval(p, func) if p is not None else None
                is_idx = (pv is not None and pv.role == 'INDICESDIR') or (isinstance(p, ast.Attribute) and p.attr == '_indicespath')
                if not is_idx:
                    continue
                n += 1
                a = get_arg(node, None, 'dtype')
                ctx.decide(a is not None and norm(a) == 'indextype' and not defs_of(func.node, 'indextype'), 'R-FLOW', 'D4',
                           func, node, f'indices-created-with-indextype::{cal.qualname}',
                           f'{func.qualname}: the indices array is created with dtype=indextype',
                           detail=f'indices created with dtype={norm(a) if a is not None else "<default>"}: the requested index type is not the stored one')
            if cal is f and func is g:
                n += 1
                a = get_arg(node, None, 'indextype')
                ctx.decide(a is not None and norm(a) == 'indextype', 'R-FLOW', 'D4', func, node, 'forward-indextype',
                           'create_raggedarray forwards indextype to asraggedarray', detail='indextype not forwarded')
    ctx.floor('C04 index-type sinks', n, 3)
    cp = ctx.repo.func('RaggedArray.copy')
    for node, cal in ctx.E.callees(cp):
        if cal is g and isinstance(node, ast.Call):
            a = get_arg(node, None, 'indextype')
            ctx.decide(a is not None and 'dtype' in norm(a) and '_indices' in norm(a), 'R-FLOW', 'D4', cp, node, 'copy-keeps-indextype',
                       'RaggedArray.copy of an empty ragged array keeps the index type', detail='index type not kept')


def d5_dtype(ctx, RA, step, roles, appenders):
    for v in roles['VALUESDIR']:
        a = v.args[0] if v.args else get_arg(v, None, 'array')
        obj = step.params[0]
        a = a_in = a
        if isinstance(a, ast.Name):
            # converted earlier in the step (a local or the rebound parameter): take its conversion
            ds = [x for x, _ in defs_of(step.node, a.id)]
            a = ds[-1] if ds else a
        ok = isinstance(a, ast.Call) and dotted(a.func) in ('np.asarray', 'np.array') and \
            norm(get_arg(a, 1, 'dtype') or ast.Constant(0)) in (f'{obj}.dtype', f'{obj}._values.dtype', f'{obj}._values._dtype',
                                                               f'{obj}._dtype')
        if not ok:
            # or the values appender itself converts at the write (`x.astype(self._dtype, ...).tofile(fd)`)
            from ..astutil import written_base
            for k_, t_ in ctx.R.resolve_call(v, step):
                if k_ == 'repo':
                    ws_ = [e for e in ctx.E.primitives(t_) if e.kind == 'WRITE-HANDLE']
                    if ws_ and all(written_base(e.node)[1] is not None and norm(written_base(e.node)[1]) in ('self._dtype', 'self.dtype')
                                   for e in ws_):
                        ok = True
        ctx.decide(ok, 'R-FLOW', 'D5', step, v, 'item-cast', f'{step.qualname}: each item is converted with the ragged array\'s dtype before it is written',
                   detail='item reaches the values appender unconverted')
    f = ctx.repo.func('raggedarray.asraggedarray')
    firsts = [n for n in own_nodes(f.node) if isinstance(n, ast.Call) and dotted(n.func) == 'np.asarray' and
              any(isinstance(x, ast.Call) and dotted(x.func) == 'next' for x in ast.walk(n))]
    ok = bool(firsts) and norm(get_arg(firsts[0], 1, 'dtype') or ast.Constant(0)) == 'dtype'
    ctx.decide(ok, 'R-FLOW', 'D5', f, firsts[0] if firsts else None, 'first-item-cast',
               'asraggedarray converts the first item with the requested dtype', detail='first item not converted with dtype')
    dd = [v for v, st in defs_of(f.node, 'dtype')]
    ok = any(isinstance(v, ast.Attribute) and v.attr == 'dtype' for v in dd)
    if not ok:
        # or: the values array is created with dtype=<first item>.dtype directly
        asarr = ctx.repo.func('array.asarray')
        for n_, cal in ctx.E.callees(f):
            if cal is asarr and isinstance(n_, ast.Call):
                a_, d_ = get_arg(n_, None, 'array'), get_arg(n_, None, 'dtype')
                if isinstance(d_, ast.Attribute) and d_.attr == 'dtype' and a_ is not None and norm(d_.value) == norm(a_):
                    ok = True
    ctx.decide(ok, 'R-FLOW', 'D5', f, None, 'dtype-from-first', 'the values dtype is fixed by the (converted) first item', detail='dtype not bound to the first item')
    arr_app = [a for a in appenders if a.cls is not None and a.cls.name == 'Array']
    d3_checker(ctx, ctx.repo.cls('Array'), arr_app)


def truncate_rules(ctx):
    f = ctx.repo.func('raggedarray.truncate_raggedarray')
    trunc = ctx.repo.func('array.truncate_array')
    tcalls = [n for n, cal in ctx.E.callees(f) if cal is trunc]
    obj, index = f.params[0], f.params[1]
    ctx.decide(bool(tcalls) and _trunc.int_gate(f, tcalls, index), 'R-DOM', 'D6', f, tcalls[0] if tcalls else None, 'int-gate',
               'truncate_raggedarray: a non-int index raises TypeError before anything is truncated', detail='no int gate before truncation')
    nls = _trunc.find_newlen(f, index)
    ctx.decide(len(nls) == 1, 'R-FLOW', 'D6', f, nls[0][1] if nls else None, 'newlen-by-numpy-slicing',
               'truncate_raggedarray: the new length is len(indices_map[:index]) with index verbatim (list-slicing semantics, '
               'negative indices beyond -len give 0)',
               detail='new length computed by hand-written index arithmetic: negative indices beyond -len behave differently from slicing')
    if len(nls) != 1:
        return
    newlen = nls[0][0]
    itr = [t for t in tcalls if t.args and subarray_role(ctx, t.args[0], f) == 'INDICESDIR']
    if not itr:
        ctx.bad('R-DOM', 'D6', f, None, 'shrink-guard', 'truncate_raggedarray truncates only when 0 <= newlen < len(ra)', detail='no truncation of the indices')
        return
    rows = _trunc.shrink_rows(f, itr[0], newlen, obj, index)
    wrong, unknown = _trunc.judge(rows, 'truncates')
    inst = f'truncate_raggedarray truncates exactly when 0 <= {newlen} < len({obj}) (path conditions folded on {len(rows)} order types)'
    if unknown:
        ctx.assume('R-TABLE', 'D6', f, itr[0], 'shrink-guard', inst, detail='guard not a pure comparison')
    else:
        ctx.decide(not wrong, 'R-TABLE', 'D6', f, itr[0], 'shrink-guard', inst, detail='; '.join(wrong[:3]))
    badrej = _trunc.rejects_with(rows, 'IndexError')
    ctx.decide(not badrej, 'R-DOM', 'D6', f, itr[0], 'else-indexerror', 'otherwise IndexError is raised',
               detail='; '.join(badrej[:2]) or 'no IndexError branch')
    # D7: truncate_array refuses an index for which a[:index] is not strictly shorter (C03); the values
    # cut point equals len(values) whenever only zero-length subarrays are removed, and at this point the
    # indices have already been truncated -> the call must not be reached with cut point == len(values)
    for t in tcalls:
        if not (t.args and subarray_role(ctx, t.args[0], f) == 'VALUESDIR'):
            continue
        a = get_arg(t, 1, 'index')
        if a is None:
            continue
        tgt, key = norm(t.args[0]), norm(a)
        lens = (f'len({tgt})', f'{tgt}.shape[0]', f'{tgt}._shape[0]')
        verdict = None            # True: equal case excluded and shorter case kept
        in_try = any(isinstance(p, ast.Try) and fld == 'body' and
                     any(h.type is None or 'IndexError' in norm(h.type) or norm(h.type) in ('Exception', 'BaseException')
                         for h in p.handlers) for p, fld in enclosing(f.node, t))
        # path conditions (any layout: enclosing if, guard clause with early return, either polarity)
        g_ = cfg_of(f)
        res = {}
        for case, (va, vl) in {'equal': (3, 3), 'shorter': (1, 3)}.items():
            env = {l: vl for l in lens}
            env[key] = va
            res[case] = g_.node_for(t) in reach_under(f, _trunc.folder(env, f))
        mentions = [n for n in own_nodes(f.node) if isinstance(n, ast.If) and key in norm(inline(f, n.test)) and
                    any(l in norm(inline(f, n.test)) for l in lens)]
        if res['equal'] is False and res['shorter'] is True:
            verdict = True
        elif mentions and res['equal'] and res['shorter']:
            # a test relates the cut point to the values length but could not be folded
            from .C20 import _NoFold
            undecided = False
            for n in mentions:
                try:
                    fold(inline(f, n.test), {**{l: 3 for l in lens}, key: 3})
                except Exception:
                    undecided = True
            verdict = 'unknown' if undecided else None
        if verdict == 'unknown' and not in_try:
            ctx.assume('R-BELIEF', 'D7', f, t, 'noop-values-truncation',
                       'the values truncation is skipped when the cut point equals the current values length',
                       detail='dominating test on the cut point is not a pure comparison')
        else:
            ctx.decide(verdict is True or in_try, 'R-BELIEF', 'D7', f, t, 'noop-values-truncation',
                       'truncate_raggedarray: the values truncation (whose callee refuses index == len) is skipped when the '
                       'cut point equals the current values length, i.e. when only zero-length subarrays are removed',
                       detail='truncate_array raises IndexError for index == len(values); that happens after the indices were '
                              'already truncated whenever all removed subarrays are empty: half-applied truncation, stale '
                              'top-level descriptor and README')
    # indices truncated to newlen
    for t in tcalls:
        if t.args and subarray_role(ctx, t.args[0], f) == 'INDICESDIR':
            a = get_arg(t, 1, 'index')
            ctx.decide(a is not None and norm(a) == newlen, 'R-FLOW', 'D6', f, t, 'indices-to-newlen',
                       'the indices array is truncated to newlen', detail=f'index={norm(a) if a is not None else None}')


def iter_arrays_rules(ctx, RA):
    f = RA.methods.get('iter_arrays')
    if f is None:
        raise AnalysisError('RaggedArray.iter_arrays vanished')
    loops = [n for n in own_nodes(f.node) if isinstance(n, ast.For)]

    def _as_param(a):
        """A range argument is the parameter itself, or a local that is the parameter with its None-default filled in
        (`stop = <default> if endindex is None else endindex`): -> (parameter name, default expression or None)."""
        if isinstance(a, ast.Name) and a.id in f.params:
            return a.id, None
        if isinstance(a, ast.Name):
            ds = [v for v, st in defs_of(f.node, a.id)]
            if len(ds) == 1 and isinstance(ds[0], ast.IfExp) and isinstance(ds[0].test, ast.Compare) and \
                    len(ds[0].test.ops) == 1 and isinstance(ds[0].test.ops[0], (ast.Is, ast.IsNot)) and \
                    isinstance(ds[0].test.left, ast.Name) and ds[0].test.left.id in f.params and \
                    isinstance(ds[0].test.comparators[0], ast.Constant) and ds[0].test.comparators[0].value is None:
                pn = ds[0].test.left.id
                given, dflt = (ds[0].orelse, ds[0].body) if isinstance(ds[0].test.ops[0], ast.Is) else (ds[0].body, ds[0].orelse)
                if isinstance(given, ast.Name) and given.id == pn:
                    return pn, dflt
        return norm(a), None
    rargs = [_as_param(a) for a in loops[0].iter.args] if loops and isinstance(loops[0].iter, ast.Call) else []
    local_defaults = {pn: d for pn, d in rargs if d is not None}
    ok = bool(loops) and isinstance(loops[0].iter, ast.Call) and dotted(loops[0].iter.func) == 'range' and \
        [pn for pn, _ in rargs] == ['startindex', 'endindex', 'stepsize']
    ctx.decide(ok, 'R-FLOW', 'D1', f, loops[0] if loops else None, 'range-verbatim',
               'iter_arrays iterates range(startindex, endindex, stepsize) with its parameters verbatim', detail='range arguments changed')
    # the value bound to endindex when it is None (if statement or conditional expression, either polarity)
    from ..pathcond import runs_under
    from .C20 import fold as _fold
    ok = False
    for v, st in defs_of(f.node, 'endindex'):
        if runs_under(f, st, _trunc.folder({'endindex': None}, f)) is False:
            continue
        e = v
        while isinstance(e, ast.IfExp):
            try:
                e = e.body if _fold(e.test, {'endindex': None}) else e.orelse
            except Exception:
                break
        if norm(e) in ('self.narrays', 'len(self)', 'self.__len__()'):
            ok = True
    if not ok and 'endindex' in local_defaults and norm(local_defaults['endindex']) in ('self.narrays', 'len(self)', 'self.__len__()'):
        ok = True
    ctx.decide(ok, 'R-TABLE', 'D1', f, None, 'endindex-default', 'endindex defaults to the number of subarrays', detail='default changed')
    ys = [n for n in own_nodes(f.node) if isinstance(n, ast.Yield)]
    i = norm(loops[0].target) if loops else 'i'
    def _is_item_i(y):
        if f'self[{i}]' in norm(y.value):
            return True
        # the same read spelled out: <values>[slice(*<indices>[i])]
        for s_ in ast.walk(inline(f, y.value)):
            if isinstance(s_, ast.Subscript) and subarray_role(ctx, s_.value, f) == 'VALUESDIR' and \
                    isinstance(s_.slice, ast.Call) and dotted(s_.slice.func) == 'slice' and len(s_.slice.args) == 1 and \
                    isinstance(s_.slice.args[0], ast.Starred) and isinstance(s_.slice.args[0].value, ast.Subscript) and \
                    subarray_role(ctx, s_.slice.args[0].value.value, f) == 'INDICESDIR' and \
                    norm(s_.slice.args[0].value.slice) == i:
                return True
        return False
    ok = bool(ys) and all(_is_item_i(y) for y in ys)
    ctx.decide(ok, 'R-FLOW', 'D1', f, ys[0] if ys else None, 'yields-subarray-i', 'iter_arrays yields self[i] for each i', detail='yield changed')
