"""C20 — DataDir never modifies protected files and round-trips user files.

Complete mediation: every public DataDir method that can reach a mutating
effect on a user-named file calls the protection guard on each name it will
touch, with the same value, before the effect; the guard compares normalised
paths (with containment for protected directories) and classifies modes so
that only plain 'r' bypasses it."""
import ast

from ..rules import (GateAnalysis, OverwriteGate, must_precede, chain_text)
from ..cfg import cfg_of, always_raises
from ..effects import MUTATING, ROLE_BY_NAME
from ..astutil import dotted, get_arg, derived, norm, enclosing, names_in, defs_of, assignments
from ..srcmodel import own_nodes, AnalysisError

EXPLANATION = (
    "Complete-mediation analysis of DataDir: the guard is found by role (the DataDir method "
    "that raises OSError depending on self._protectedpaths); for every public DataDir method "
    "with a reachable mutating effect on a caller-named file, each use of the name by a private "
    "writer/deleter/open must be preceded on all CFG paths by a guard call on the same value "
    "(for the list-taking deleter: a guard loop over the same list that completes before the "
    "use); inside the guard the operand compared with the protected set must be a path-"
    "normalised form of the joined path and the test must include containment (protected "
    "directories); the guard's mode condition is constant-folded over the write-capable open "
    "modes; private writers keep their overwrite gates; inside the package the unguarded "
    "private writers are only called with Darr's own constant file names; protectedpaths "
    "passed to DataDir equals the class's _protectedfiles, which contains every file/dir-name "
    "constant of the class.")
ASSUMPTIONS = [
    "Path.resolve / os.path.realpath normalise './', redundant separators, '..' and symbolic links the way the OS resolves the joined path; os.path.normpath/abspath are lexical only and are reported",
    "not decided: round-trip equality of user JSON/text; spellings that need the OS to resolve differently (case-insensitive file systems)",
]

NORMALISERS = {'resolve', 'realpath', 'normpath', 'abspath', 'samefile'}
CONTAINMENT = {'parents', 'is_relative_to', 'relative_to', 'commonpath', 'commonprefix'}
WRITE_MODES = ['w', 'a', 'x', 'r+', 'rb+', 'r+b', 'wb', 'ab', 'xb', 'w+', 'a+', 'x+', 'wt', 'at',
               'w+b', 'a+b']


def find_guard(ctx):
    c = ctx.repo.cls('DataDir')
    from ._shared import attr_from_param
    pattr = attr_from_param(ctx.repo.cls('DataDir'), 'protectedpaths')
    if pattr is None:
        raise AnalysisError('DataDir: attribute holding the protected paths not found by role')
    cands = []
    for f in c.all_funcs():
        if f.name == '__init__' or f.is_property:
            continue
        src_names = set()
        for n in own_nodes(f.node):
            d = dotted(n) if isinstance(n, ast.Attribute) else None
            if d:
                src_names.add(d)
        raises_oserror = any(isinstance(n, ast.Raise) and n.exc is not None and
                             (dotted(n.exc.func) if isinstance(n.exc, ast.Call) else dotted(n.exc)) == 'OSError'
                             for n in own_nodes(f.node))
        if f'self.{pattr}' in src_names and raises_oserror:
            cands.append(f)
    if len(cands) != 1:
        raise AnalysisError(f'protection guard of DataDir not identifiable by role: {cands}')
    return cands[0]


class _NoFold(Exception):
    pass


def fold(e, env):
    """Constant-fold a pure expression over constants and env-bound names.  `env` may also bind whole
    expressions by their normalised text (e.g. 'path == array.path': True)."""
    if isinstance(e, ast.Constant):
        return e.value
    if isinstance(e, (ast.Compare, ast.BoolOp, ast.UnaryOp, ast.BinOp)) and env:
        k = ' '.join(ast.unparse(e).split())
        if k in env:
            return env[k]
    if isinstance(e, ast.Name):
        if e.id in env:
            return env[e.id]
        raise _NoFold
    if isinstance(e, (ast.Tuple, ast.List)):
        return tuple(fold(x, env) for x in e.elts)
    if isinstance(e, ast.Set):
        return frozenset(fold(x, env) for x in e.elts)
    if isinstance(e, ast.Dict):
        if any(k is None for k in e.keys):
            raise _NoFold
        return {fold(k, env): fold(v, env) for k, v in zip(e.keys, e.values)}
    if isinstance(e, ast.UnaryOp) and isinstance(e.op, ast.Not):
        return not fold(e.operand, env)
    if isinstance(e, ast.UnaryOp) and isinstance(e.op, ast.USub):
        return -fold(e.operand, env)
    if isinstance(e, ast.BinOp):
        l, r = fold(e.left, env), fold(e.right, env)
        try:
            if isinstance(e.op, ast.Add):
                return l + r
            if isinstance(e.op, ast.Sub):
                return l - r
            if isinstance(e.op, ast.Mult):
                return l * r
            if isinstance(e.op, ast.Mod):
                return l % r
            if isinstance(e.op, ast.FloorDiv):
                return l // r
        except Exception:
            raise _NoFold
        raise _NoFold
    if isinstance(e, ast.Attribute) or isinstance(e, ast.Subscript) and not isinstance(e.slice, ast.Constant):
        k = ' '.join(ast.unparse(e).split())
        if k in env:
            return env[k]
        raise _NoFold
    if isinstance(e, ast.BoolOp):
        if isinstance(e.op, ast.Or):
            unknown = False
            for v in e.values:
                try:
                    if fold(v, env):
                        return True
                except _NoFold:
                    unknown = True
            if unknown:
                raise _NoFold
            return False
        unknown = False
        for v in e.values:
            try:
                if not fold(v, env):
                    return False
            except _NoFold:
                unknown = True
        if unknown:
            raise _NoFold
        return True
    if isinstance(e, ast.Compare):
        left = fold(e.left, env)
        for op, c in zip(e.ops, e.comparators):
            right = fold(c, env)
            try:
                if isinstance(op, ast.Eq):
                    r = left == right
                elif isinstance(op, ast.NotEq):
                    r = left != right
                elif isinstance(op, ast.In):
                    r = left in right
                elif isinstance(op, ast.NotIn):
                    r = left not in right
                elif isinstance(op, ast.Is):
                    r = left is right
                elif isinstance(op, ast.IsNot):
                    r = left is not right
                elif isinstance(op, ast.Lt):
                    r = left < right
                elif isinstance(op, ast.LtE):
                    r = left <= right
                elif isinstance(op, ast.Gt):
                    r = left > right
                elif isinstance(op, ast.GtE):
                    r = left >= right
                else:
                    raise _NoFold
            except TypeError:
                raise _NoFold
            if not r:
                return False
            left = right
        return True
    if isinstance(e, ast.Call):
        k = ' '.join(ast.unparse(e).split())
        if k in env:
            return env[k]
        d = dotted(e.func)
        if d in ('any', 'all') and len(e.args) == 1 and \
                isinstance(e.args[0], (ast.GeneratorExp, ast.ListComp)) and \
                len(e.args[0].generators) == 1 and not e.args[0].generators[0].ifs and \
                isinstance(e.args[0].generators[0].target, ast.Name):
            g = e.args[0].generators[0]
            it = fold(g.iter, env)
            vals = [fold(e.args[0].elt, dict(env, **{g.target.id: x})) for x in it]
            return any(vals) if d == 'any' else all(vals)
        if d in ('set', 'tuple', 'list', 'frozenset', 'str', 'len', 'bool') and len(e.args) == 1:
            return {'set': frozenset, 'tuple': tuple, 'list': tuple, 'frozenset': frozenset,
                    'str': str, 'len': len, 'bool': bool}[d](fold(e.args[0], env))
        if isinstance(e.func, ast.Attribute) and e.func.attr in (
                'startswith', 'endswith', 'lower', 'upper', 'strip', 'replace', 'count', 'find',
                'intersection', 'isdisjoint', 'issubset'):
            recv = fold(e.func.value, env)
            args = [fold(a, env) for a in e.args]
            if isinstance(recv, (str, frozenset)):
                return getattr(recv, e.func.attr)(*args)
        raise _NoFold
    if isinstance(e, ast.Subscript) and isinstance(e.slice, ast.Constant):
        k = ' '.join(ast.unparse(e).split())
        if k in env:
            return env[k]
        return fold(e.value, env)[e.slice.value]
    if isinstance(e, ast.IfExp):
        return fold(e.body, env) if fold(e.test, env) else fold(e.orelse, env)
    raise _NoFold


def fold_mode_test(test, modeparam, mode):
    try:
        return bool(fold(test, {modeparam: mode}))
    except (_NoFold, Exception):
        return None


def mentions(test, name):
    return any(isinstance(n, ast.Name) and n.id == name for n in ast.walk(test))


def closure_attrs(func, expr):
    """Attribute / call names met in the def-use closure of expr in func."""
    out = set()
    seen = set()
    work = [expr]
    defs = {}
    for nm, val, _ in assignments(func.node):
        defs.setdefault(nm, []).append(val)
    while work:
        e = work.pop()
        for n in ast.walk(e):
            if isinstance(n, ast.Attribute):
                out.add(n.attr)
            if isinstance(n, ast.Call):
                d = dotted(n.func)
                if d:
                    out.add(d.split('.')[-1])
            if isinstance(n, ast.Name) and n.id not in seen:
                seen.add(n.id)
                work.extend(defs.get(n.id, []))
    return out, seen


def run(ctx):
    guard = find_guard(ctx)
    ctx.info['guard'] = guard.qualname
    gparams = [p for p in guard.params if p != 'self']
    if len(gparams) < 2:
        raise AnalysisError('guard signature changed: expected (filename, accessmode)')
    gname, gmode = gparams[0], gparams[1]
    d2_guard_normalises(ctx, guard, gname, gmode)
    d1_mediation(ctx, guard, gname, gmode)
    d1_use_path_is_the_judged_name(ctx, guard)
    d4_overwrite_gates(ctx)
    d5_private_callers(ctx)
    d6_protected_sets(ctx)
    from ._shared import encoding_agreement
    ctx.floor('C20 text/json readers checked for encoding agreement', encoding_agreement(ctx, 'D7'), 3)
    from ._shared import inplace_rewrites_truncate
    inplace_rewrites_truncate(ctx, 'D7')


# --------------------------------------------------------------------------
def d2_guard_normalises(ctx, guard, gname, gmode):
    raising_ifs = [n for n in own_nodes(guard.node) if isinstance(n, ast.If) and
                   (always_raises(n.body) or always_raises(n.orelse))]
    # also tests that decide a raise without enclosing it (`if <not protected>: continue` followed by `raise`)
    from ..pathcond import branch_cond_nodes
    for r_ in (n for n in own_nodes(guard.node) if isinstance(n, ast.Raise)):
        for ifn, _ in branch_cond_nodes(guard, r_):
            if ifn not in raising_ifs:
                raising_ifs.append(ifn)
    if not raising_ifs:
        raise AnalysisError('guard has no raising test')
    # D3: the mode condition
    mode_tests = [n for n in own_nodes(guard.node) if isinstance(n, ast.If) and mentions(n.test, gmode)]
    if not mode_tests:
        ctx.bad('R-DOM', 'D3', guard, None, 'mode-condition', 'guard classifies the open mode',
                detail='no test on the access-mode parameter: cannot tell reading from writing')
    for t in mode_tests[:1]:
        # for which modes can the guard raise at all?  (mini path evaluation over the mode value;
        # tests on the name are unknown and explored both ways)
        res = {}
        for m in WRITE_MODES + ['r']:
            res[m] = guard_active(guard.node.body, gmode, m)
        unguarded = [m for m in WRITE_MODES if res[m] is False]
        unknown = [m for m in WRITE_MODES if res[m] is None]
        construct = f'mode-condition::{norm(t.test)[:60]}'
        inst = f'guard mode condition `{norm(t.test)[:70]}` leaves the guard active for every write-capable mode'
        if unguarded:
            ctx.bad('R-DOM', 'D3', guard, t, 'mode-condition', inst,
                    detail=f'modes that can write but bypass the guard: {unguarded}')
        elif unknown:
            ctx.assume('R-DOM', 'D3', guard, t, 'mode-condition', inst,
                       detail=f'could not fold the condition for modes {unknown}')
        else:
            ctx.ok('R-DOM', 'D3', guard, t, 'mode-condition', inst)
    # D2: operand normalisation + containment
    compares = []
    for t in raising_ifs:
        for c in ast.walk(t.test):
            if isinstance(c, ast.Compare):
                compares.append((t, c))
    name_compares = []
    for t, c in compares:
        operands = [c.left] + list(c.comparators)
        for o in operands:
            attrs, names = closure_attrs(guard, o)
            if gname in names:
                name_compares.append((t, c, o, attrs))
    if not name_compares:
        ctx.assume('R-SIB', 'D2', guard, None, 'normalised-operand',
                   'guard compares a form of the file name with the protected set',
                   detail='no comparison whose operand derives from the name parameter was found')
        return
    raw = []
    normed = []
    contain = False
    asym = []
    for t, c in compares:
        ops = [c.left] + list(c.comparators)
        sides = [closure_attrs(guard, o)[0] & NORMALISERS for o in ops
                 if not isinstance(o, ast.Constant)]
        involved = any(gname in closure_attrs(guard, o)[1] for o in ops)
        if involved and len(sides) == 2 and sides[0] != sides[1]:
            asym.append((c, sides))
    for c, sides in asym:
        ctx.bad('R-SIB', 'D2', guard, c, 'symmetric-normalisation',
                f'both operands of `{norm(c)}` are normalised the same way',
                detail=f'operands are normalised differently ({sorted(sides[0])} vs {sorted(sides[1])}): '
                       f'for an array opened through a non-canonical directory path the two sides '
                       f'never compare equal')
    if not asym:
        ctx.ok('R-SIB', 'D2', guard, compares[0][1] if compares else None, 'symmetric-normalisation',
               'both operands of every guard comparison are normalised the same way')
    for t, c, o, attrs in name_compares:
        if isinstance(o, ast.Name) and o.id == gname and not defs_of(guard.node, gname):
            raw.append(norm(c))
        elif attrs & NORMALISERS:
            normed.append(norm(c))
        if attrs & CONTAINMENT or any(isinstance(op, (ast.In, ast.NotIn)) and 'parents' in norm(c)
                                      for op in c.ops):
            contain = True
        # prefix comparison of path components: `parts[:len(protectedparts)] == protectedparts`
        if len(c.ops) == 1 and isinstance(c.ops[0], ast.Eq):
            for a_, b_ in ((c.left, c.comparators[0]), (c.comparators[0], c.left)):
                if isinstance(a_, ast.Subscript) and isinstance(a_.slice, ast.Slice) and a_.slice.lower is None and \
                        isinstance(a_.slice.upper, ast.Call) and dotted(a_.slice.upper.func) == 'len' and \
                        a_.slice.upper.args and norm(a_.slice.upper.args[0]) == norm(b_) and \
                        'parts' in (closure_attrs(guard, a_)[0] & closure_attrs(guard, b_)[0]):
                    contain = True
    inst = 'guard compares a path-normalised form of the joined path (use sites join the name to the directory)'
    LEXICAL = {'normpath', 'abspath'}
    lexical = [norm(c) for t, c, o, attrs in name_compares if (attrs & LEXICAL) and not (attrs & (NORMALISERS - LEXICAL))]
    # The raising tests are a disjunction of refusals: a comparison of the raw / lexically normalised name that stands
    # next to a properly resolved one only refuses more of the same files.  Proper = resolved through the file system
    # ('resolve'/'realpath'), not existence dependent (stat / samefile: a protected file that does not exist yet has no
    # identity) and not passed through a helper the rule cannot see into; and not and-ed with a weaker name test.
    EXISTENCE = {'stat', 'lstat', 'samefile', 'st_ino', 'st_dev', 'exists', 'is_file'}
    cls_private = {m_.name for m_ in guard.cls.all_funcs() if m_.name.startswith('_')} if guard.cls is not None else set()
    proper = []
    for t, c, o, attrs in name_compares:
        if not (attrs & (NORMALISERS - LEXICAL - {'samefile'})) or attrs & EXISTENCE or attrs & (cls_private - {guard.name}):
            continue
        weaker_inside = any(isinstance(b, ast.BoolOp) and isinstance(b.op, ast.And) and
                            any(c2 is not c and any(x is c2 for x in ast.walk(b)) for t2, c2, o2, a2 in name_compares
                                if not (a2 & (NORMALISERS - LEXICAL))) and any(x is c for x in ast.walk(b))
                            for b in ast.walk(t.test))
        if not weaker_inside:
            proper.append(norm(c))
    if proper:
        ctx.ok('R-SIB', 'D2', guard, name_compares[0][1], 'normalised-operand', inst)
    elif lexical and not raw:
        ctx.bad('R-SIB', 'D2', guard, name_compares[0][1], 'normalised-operand',
                'guard normalises the name the way the use sites resolve it (through the file system)',
                detail=f'purely lexical normalisation (os.path.normpath/abspath) in `{lexical[0]}`: the use sites hand '
                       f'the joined path to the OS, which resolves symbolic links before applying "..": a ".." detour '
                       f'through a symlinked directory, or an array opened through a symlinked parent, names a '
                       f'protected file that the guard does not recognise')
    elif raw:
        ctx.bad('R-SIB', 'D2', guard, name_compares[0][1], 'normalised-operand', inst,
                detail=f'raw argument compared: `{raw[0]}` — Path("README.txt"), "./README.txt" or '
                       f'"x/../README.txt" pass the guard but name the protected file at the use site')
    elif normed and len(normed) == len(name_compares):
        ctx.ok('R-SIB', 'D2', guard, name_compares[0][1], 'normalised-operand', inst)
    else:
        ctx.assume('R-SIB', 'D2', guard, name_compares[0][1], 'normalised-operand', inst,
                   detail='operand is transformed by something the rule does not recognise as a '
                          'normaliser')
    ctx.decide(contain, 'R-SIB', 'D2', guard, name_compares[0][1], 'containment',
               'guard treats protected directories as protecting their content (containment test)',
               detail='equality only: files under the protected values/ and indices/ directories of a '
                      'ragged array are not protected')


def guard_active(stmts, gmode, mode):
    """Can a `raise` be reached for this mode value?  True / False / None."""
    def walk(body):
        # -> 'raise' | 'stop' (returned) | 'fall' | 'unknown'
        for st in body:
            if isinstance(st, ast.Raise):
                return 'raise'
            if isinstance(st, ast.Return):
                return 'stop'
            if isinstance(st, ast.If):
                v = _fold_partial(st.test, gmode, mode) if mentions(st.test, gmode) else None
                if mentions(st.test, gmode) and v is None:
                    return 'unknown'
                branches = [st.body] if v is True else ([st.orelse] if v is False else [st.body, st.orelse])
                outs = [walk(b) for b in branches]
                if 'raise' in outs:
                    return 'raise'
                if 'unknown' in outs:
                    return 'unknown'
                if all(o == 'stop' for o in outs):
                    return 'stop'
                continue
            if isinstance(st, (ast.For, ast.While, ast.With, ast.Try)):
                o = walk(st.body)
                if o in ('raise', 'unknown'):
                    return o
                continue
        return 'fall'
    o = walk(stmts)
    return True if o == 'raise' else (None if o == 'unknown' else False)


def _fold_partial(test, gmode, mode):
    """Fold the mode-dependent part of the test; conjuncts that do not mention
    the mode are treated as True (they are the name test, decided under D2)."""
    if isinstance(test, ast.BoolOp) and isinstance(test.op, ast.And):
        vals = [(_fold_partial(v, gmode, mode) if mentions(v, gmode) else True) for v in test.values]
        if any(v is False for v in vals):
            return False
        return True if all(v is True for v in vals) else None
    return fold_mode_test(test, gmode, mode)


# --------------------------------------------------------------------------
def d1_mediation(ctx, guard, gname, gmode):
    c = ctx.repo.cls('DataDir')
    E = ctx.E
    n = 0
    for m in c.all_funcs():
        if not m.is_public or m.is_property:
            continue
        # uses: calls to private methods with mutating may-effects, or primitive mutating/dynamic opens
        uses = []
        for node, callee in E.callees(m):
            if callee.cls is c and callee is not guard and isinstance(node, ast.Call) and \
                    any(e.kind in MUTATING or e.kind == 'MODE-OPEN' for e in E.may(callee)):
                uses.append((node, callee))
        prim = [e for e in E.primitives(m) if (e.kind in MUTATING or e.kind == 'MODE-OPEN')
                and e.role in ('USERFILE', 'UNKNOWN', 'PROTECTED')]
        if not uses and not prim:
            continue
        n += 1
        gcalls = [(node, cal) for node, cal in E.callees(m) if cal is guard and isinstance(node, ast.Call)]
        if not gcalls:
            ctx.bad('R-DOM', 'D1', m, None, 'guard-called', f'DataDir.{m.name} calls the protection guard',
                    detail='public mutator never calls the guard')
            continue
        for node, callee in uses:
            cps = [p for p in callee.params if p != 'self']
            # which argument names the file(s)?
            name_arg = None
            for cand in ('filename', 'filenames'):
                a = get_arg(node, cps.index(cand) if cand in cps else None, cand)
                if a is not None:
                    name_arg = a
            if name_arg is None and node.args:
                name_arg = node.args[0]
            _check_use(ctx, m, guard, gname, gmode, gcalls, node, name_arg,
                       f'{callee.qualname}({norm(name_arg) if name_arg is not None else "?"})')
        for e in prim:
            # direct effect in the public method (open_file): the name in the path expression
            pv = e.path
            nm = None
            if pv is not None and pv.name is not None and pv.name[0] == 'param':
                nm = ast.Name(pv.name[1], ast.Load())
            _check_use(ctx, m, guard, gname, gmode, gcalls, e.node, nm,
                       f'{e.kind} {norm(e.node)[:40]}', mode_expr=get_arg(e.node, 1, 'mode'))
    ctx.floor('C20 public DataDir mutators', n, 6)


def _check_use(ctx, m, guard, gname, gmode, gcalls, use_node, name_arg, text, mode_expr=None):
    construct = f'use::{text.split("(")[0]}'
    inst = f'DataDir.{m.name}: guard on the same name precedes {text}'
    if name_arg is None:
        ctx.assume('R-DOM', 'D1', m, use_node, construct, inst, detail='cannot identify the name argument')
        return
    gps = [p for p in guard.params if p != 'self']
    for gnode, _ in gcalls:
        garg = get_arg(gnode, gps.index(gname), gname)
        gm = get_arg(gnode, gps.index(gmode), gmode)
        if garg is None:
            continue
        same = norm(garg) == norm(name_arg) and isinstance(garg, ast.Name) and \
            not [1 for nm, v, s in assignments(m.node) if nm == garg.id and not isinstance(s, ast.For)]
        loop = None
        collected = False
        if not same and isinstance(garg, ast.Name):
            # guard inside `for x in <names>` with the use taking <names>
            for p, field in enclosing(m.node, gnode):
                if isinstance(p, ast.For) and field == 'body' and isinstance(p.target, ast.Name) \
                        and p.target.id == garg.id and norm(p.iter) == norm(name_arg):
                    loop = p
                elif isinstance(p, ast.For) and field == 'body' and isinstance(p.target, ast.Name) \
                        and p.target.id == garg.id and isinstance(name_arg, ast.Name) and name_arg.id not in m.params:
                    # the use receives a local list that the checking loop fills with the names it has judged
                    fills = [x for x in ast.walk(m.node) if isinstance(x, ast.Call) and isinstance(x.func, ast.Attribute)
                             and x.func.attr == 'append' and dotted(x.func.value) == name_arg.id]
                    inits = [v for v, st in defs_of(m.node, name_arg.id)]
                    if fills and all(any(q is p for q, _ in enclosing(m.node, x)) and len(x.args) == 1 and
                                     norm(x.args[0]) == garg.id and x.lineno > gnode.lineno for x in fills) and \
                            len(inits) == 1 and isinstance(inits[0], ast.List) and not inits[0].elts:
                        loop = p
                        collected = True
        if not same and loop is None:
            continue
        # the guard's mode argument
        if mode_expr is not None:
            mode_ok = gm is not None and norm(gm) == norm(mode_expr) and isinstance(gm, ast.Name)
            mode_why = 'guard is not given the same mode value that is passed to open()'
        else:
            mode_ok = isinstance(gm, ast.Constant) and isinstance(gm.value, str) and gm.value != 'r' \
                and any(ch in gm.value for ch in 'wax+')
            mode_why = f'guard is called with mode {norm(gm) if gm is not None else None}, which it treats as reading'
        if loop is not None:
            cfg = cfg_of(m)
            # loop body: guard on every iteration path, no break; use outside and after the loop
            body_ok = not any(isinstance(x, ast.Break) for x in ast.walk(loop)) and \
                must_precede_in_body(loop, gnode)
            inside = any(p is loop for p, _ in enclosing(m.node, use_node))
            after = must_precede(m, use_node, [loop]) and not inside
            ok = body_ok and after
            # the names are iterated twice (checking loop, then the deleter): a one-shot iterable (generator, map, file
            # object) is exhausted by the check and nothing is deleted — the argument must be materialised first
            if collected:
                ctx.ok('R-FLOW', 'D1', m, loop, construct + '::materialised',
                       f'DataDir.{m.name}: the deleter receives the list of names collected by the checking loop itself')
            elif isinstance(name_arg, ast.Name) and name_arg.id in m.params:
                mats = [st for v, st in defs_of(m.node, name_arg.id)
                        if isinstance(st, ast.Assign) and (
                            (isinstance(v, ast.Call) and dotted(v.func) in ('list', 'tuple', 'sorted') and v.args and
                             norm(v.args[0]) == name_arg.id) or
                            (isinstance(v, (ast.ListComp,)) and len(v.generators) == 1 and norm(v.generators[0].iter) == name_arg.id) or
                            (isinstance(v, (ast.List, ast.Tuple)) and len(v.elts) == 1 and isinstance(v.elts[0], ast.Starred)
                             and norm(v.elts[0].value) == name_arg.id))]
                mat_ok = bool(mats) and must_precede(m, loop, mats)
                ctx.decide(mat_ok, 'R-FLOW', 'D1', m, loop, construct + '::materialised',
                           f'DataDir.{m.name}: the names are materialised (list/tuple) before they are iterated twice '
                           f'(checking loop, then {text.split("(")[0]})',
                           detail=f'`{name_arg.id}` is iterated by the checking loop and then handed to the deleter as it is: '
                                  f'a generator / map object is exhausted by the check, so the call returns without deleting '
                                  f'anything (delete_files does not remove exactly the named files)')
            ctx.decide(ok and mode_ok, 'R-DOM', 'D1', m, use_node, construct, inst +
                       ' (checking loop over the same list completes first)',
                       detail=('the checking loop does not complete before the deleting call: names '
                               'before a protected one would already be removed' if not ok else mode_why))
            return
        ok = must_precede(m, use_node, [gnode])
        # all-or-nothing for list-taking methods: a use inside the loop that also checks means that names before
        # a protected one are already modified when the refusal comes
        shared = [p for p, _ in enclosing(m.node, gnode) if isinstance(p, (ast.For, ast.While)) and
                  any(q is p for q, _ in enclosing(m.node, use_node))]
        if shared:
            ctx.bad('R-DOM', 'D1', m, use_node, construct, inst + ' (and a refused call changes nothing)',
                    detail='guard and use sit in the same loop over the names: the names before a protected one are '
                           'already deleted/modified when OSError is raised (the refused call is not all-or-nothing)')
            return
        ctx.decide(ok and mode_ok, 'R-DOM', 'D1', m, use_node, construct, inst,
                   detail=('a path reaches the use without passing the guard' if not ok else mode_why))
        return
    ctx.bad('R-DOM', 'D1', m, use_node, construct, inst,
            detail=f'no guard call checks the value `{norm(name_arg)}` that the use site receives')


TRANSFORMERS = {'with_name', 'with_suffix', 'with_stem', 'parent', 'replace', 'lower', 'upper', 'casefold', 'strip', 'lstrip',
                'rstrip', 'removeprefix', 'removesuffix', 'format', 'join', 'title', 'capitalize', 'name', 'stem'}
SAMEFILE = {'resolve', 'absolute', 'expanduser', 'as_posix', '__fspath__'}


def d1_use_path_is_the_judged_name(ctx, guard):
    """The guard judges the name as given; the methods of DataDir must then use exactly <directory>/<that name>.  A name
    that is rewritten between the check and the use (an extension appended, case folded, a component replaced) makes the
    file written another one than the file judged: 'arraydescription' passes the guard and lands on
    arraydescription.json."""
    c = guard.cls
    n_ob = 0
    for f in c.all_funcs():
        if f is guard:
            continue
        params = set(f.params) | set(f.kwonly)
        loopvars = {x.id for n in own_nodes(f.node) if isinstance(n, (ast.For, ast.comprehension))
                    for x in ast.walk(n.target) if isinstance(x, ast.Name)}

        def judge(e, depth=0):
            """-> 'ok' | 'bad' | 'unknown' for the name component of a join."""
            if isinstance(e, ast.Constant):
                return 'ok'
            if isinstance(e, ast.Attribute):
                return 'bad' if e.attr in TRANSFORMERS else 'ok'
            if isinstance(e, ast.Name):
                if e.id in params or e.id in loopvars:
                    return 'ok'
                ds = defs_of(f.node, e.id)
                if not ds or depth > 4:
                    return 'unknown'
                rs = {judge(v, depth + 1) for v, _ in ds}
                return 'bad' if 'bad' in rs else ('unknown' if 'unknown' in rs else 'ok')
            if isinstance(e, ast.Call):
                d = dotted(e.func) or ''
                if d in ('str', 'Path', 'pathlib.Path', 'PurePath', 'os.fspath', 'os.fsdecode') and len(e.args) == 1:
                    return judge(e.args[0], depth + 1)
                if isinstance(e.func, ast.Attribute) and e.func.attr in TRANSFORMERS:
                    return 'bad'
                if isinstance(e.func, ast.Attribute) and e.func.attr in SAMEFILE:
                    return judge(e.func.value, depth + 1)
                return 'unknown'
            if isinstance(e, (ast.JoinedStr, ast.BinOp)):
                return 'bad' if any(isinstance(x, ast.Name) and (x.id in params or x.id in loopvars) for x in ast.walk(e)) \
                    else 'unknown'
            if isinstance(e, ast.IfExp):
                rs = {judge(e.body, depth + 1), judge(e.orelse, depth + 1)}
                return 'bad' if 'bad' in rs else ('unknown' if 'unknown' in rs else 'ok')
            return 'unknown'
        joins = []
        for n in own_nodes(f.node):
            if isinstance(n, ast.Call) and isinstance(n.func, ast.Attribute) and n.func.attr == 'joinpath' and n.args and \
                    norm(n.func.value) in ('self._path', 'self.path'):
                joins.append((n, n.args[-1] if len(n.args) == 1 else None))
            elif isinstance(n, ast.BinOp) and isinstance(n.op, ast.Div) and norm(n.left) in ('self._path', 'self.path'):
                joins.append((n, n.right))
        for j, name in joins:
            if name is None or not any(isinstance(x, ast.Name) and (x.id in params or x.id in loopvars) for x in ast.walk(name)) \
                    and not isinstance(name, ast.Name):
                continue
            if isinstance(name, ast.Name) and name.id not in params and name.id not in loopvars and \
                    not any(isinstance(x, ast.Name) and (x.id in params or x.id in loopvars)
                            for v, _ in defs_of(f.node, name.id) for x in ast.walk(v)):
                continue
            n_ob += 1
            verdict = judge(name)
            # later re-derivations of the variable that holds the joined path
            holder = [st for st in own_nodes(f.node) if isinstance(st, ast.Assign) and len(st.targets) == 1 and
                      isinstance(st.targets[0], ast.Name) and any(x is j for x in ast.walk(st.value))]
            rewr = None
            if holder:
                v = holder[0].targets[0].id
                for val, st in defs_of(f.node, v):
                    if st is holder[0] or not any(isinstance(x, ast.Name) and x.id == v for x in ast.walk(val)):
                        continue
                    if isinstance(val, ast.Call) and isinstance(val.func, ast.Attribute) and val.func.attr in SAMEFILE:
                        continue
                    if any((isinstance(x, ast.Attribute) and x.attr in TRANSFORMERS) or
                           (isinstance(x, ast.BinOp) and isinstance(x.op, (ast.Div, ast.Add))) or
                           (isinstance(x, ast.Call) and isinstance(x.func, ast.Attribute) and x.func.attr == 'joinpath')
                           for x in ast.walk(val)):
                        rewr = st
                        verdict = 'bad'
                    elif verdict == 'ok':
                        verdict = 'unknown'
            construct = f'use-path::{f.name}'
            inst = f'{f.qualname}: the path used is <directory>/<name as given> — the name the guard judged'
            if verdict == 'ok':
                ctx.ok('R-FLOW', 'D1', f, j, construct, inst)
            elif verdict == 'bad':
                ctx.bad('R-FLOW', 'D1', f, rewr or j, construct, inst,
                        detail=f'the name is rewritten on its way to the file system (`{norm(rewr or j)[:70]}`): the guard judged '
                               f'the name as given, so a spelling that only becomes a protected name after the rewrite (e.g. '
                               f'"arraydescription" -> arraydescription.json) passes it and the protected file is written')
            else:
                ctx.assume('R-FLOW', 'D1', f, j, construct, inst, detail=f'name component `{norm(name)[:50]}` not understood')
    # a mutating method acts on the names it was given, never on names found by listing / globbing the directory: the
    # guard judged the argument as given (a pattern is not a protected name, its matches may be)
    LISTING = ('glob.glob', 'glob.iglob', 'os.listdir', 'os.scandir', 'os.walk', 'fnmatch.filter')
    LIST_ATTRS = ('glob', 'rglob', 'iterdir')
    for f in c.all_funcs():
        muts = [e for e in ctx.E.primitives(f) if e.kind in MUTATING]
        if not muts:
            continue
        lists = [n for n in own_nodes(f.node) if isinstance(n, ast.Call) and
                 (dotted(n.func) in LISTING or (isinstance(n.func, ast.Attribute) and n.func.attr in LIST_ATTRS))]
        if lists:
            n_ob += 1
            ctx.bad('R-FLOW', 'D1', f, lists[0], f'use-path::{f.name}::listing',
                    f'{f.qualname}: the files changed are the names given, not names found by listing the directory',
                    detail=f'`{norm(lists[0])[:60]}` expands the argument against the directory content before {muts[0].kind} '
                           f'`{norm(muts[0].node)[:40]}`: the guard judged the pattern, the effect hits its matches (a protected '
                           f'file matched by `*.bin`), and a literal name containing a metacharacter no longer means itself')
    ctx.floor('C20 join sites of DataDir methods', n_ob, 1)


def must_precede_in_body(loop, gnode):
    """The guard call is an unconditional top-level statement of the loop body."""
    for st in loop.body:
        if any(n is gnode for n in ast.walk(st)):
            return isinstance(st, ast.Expr)
    return False


# --------------------------------------------------------------------------
def d4_overwrite_gates(ctx):
    from .C16 import _mut_site
    GA = GateAnalysis(ctx, OverwriteGate())
    for spec in ('utils.write_jsonfile', 'DataDir._write_txt'):
        f = ctx.repo.func(spec)
        ung = GA.ungated(f, _mut_site)
        ctx.decide(not ung, 'R-DOM', 'D4', f, None, 'own-overwrite-gate',
                   f'{f.qualname}: truncating open dominated by `not exists or overwrite`',
                   detail='; '.join(e.describe() for _, e in ung))
    c = ctx.repo.cls('DataDir')
    for m in c.all_funcs():
        if m.is_public and 'overwrite' in m.params:
            d = m.param_defaults().get('overwrite')
            ctx.decide(isinstance(d, ast.Constant) and d.value is False, 'R-TABLE', 'D4', m, d,
                       'overwrite-default', f'DataDir.{m.name}: overwrite defaults to False',
                       detail='default is not False')
            for node, callee in ctx.E.callees(m):
                if isinstance(node, ast.Call) and ('overwrite' in callee.params) and callee.cls is c:
                    a = get_arg(node, None, 'overwrite')
                    ctx.decide(isinstance(a, ast.Name) and a.id == 'overwrite', 'R-FLOW', 'D4', m, node,
                               f'forward-overwrite::{callee.name}',
                               f'DataDir.{m.name} forwards overwrite verbatim to {callee.name}',
                               detail=f'overwrite={norm(a) if a is not None else "<absent>"}')


def d5_private_callers(ctx):
    c = ctx.repo.cls('DataDir')
    priv = {f.key: f for f in c.all_funcs() if f.name.startswith('_') and not f.name.startswith('__')
            and any(e.kind in MUTATING for e in ctx.E.may(f))}
    n = 0
    for f in ctx.repo.all_funcs():
        if f.cls is c:
            continue
        for node, callee in ctx.E.callees(f):
            if callee.key not in priv or not isinstance(node, ast.Call):
                continue
            n += 1
            cps = [p for p in callee.params if p != 'self']
            a = get_arg(node, 0, 'filename') or get_arg(node, 0, 'filenames')
            nm = ctx.E._name_of(a, f) if a is not None else ('unknown', '')
            ok = nm[0] == 'lit' and nm[1] in ROLE_BY_NAME
            ctx.decide(ok, 'R-OWN', 'D5', f, node, f'private-call::{callee.name}',
                       f'{f.qualname} calls unguarded DataDir.{callee.name} with Darr\'s own file name '
                       f'{nm[1] if nm[0] == "lit" else nm}',
                       detail='an unguarded private writer is called with a name that is not one of '
                              'Darr\'s constant file names')
    ctx.floor('C20 package-internal calls of private DataDir writers', n, 6)


def d6_protected_sets(ctx):
    dd = ctx.repo.cls('DataDir')
    init = dd.methods['__init__']
    from ._shared import attr_from_param
    v = dd.init_attr_exprs.get(attr_from_param(dd, 'protectedpaths') or '')
    ctx.decide(v is not None and 'protectedpaths' in derived(init.node, v), 'R-FLOW', 'D6', init, v,
               'stores-protectedpaths', 'DataDir.__init__ stores the protectedpaths argument',
               detail='self._protectedpaths is not derived from the parameter')
    for cname in ('Array', 'RaggedArray'):
        c = ctx.repo.cls(cname)
        prot = c.consts.get('_protectedfiles')
        if not isinstance(prot, frozenset):
            raise AnalysisError(f'{cname}._protectedfiles is not a literal set of names')
        names = {k: v for k, v in c.consts.items()
                 if isinstance(v, str) and (k.endswith('filename') or k.endswith('dirname'))}
        missing = {k: v for k, v in names.items() if v not in prot}
        ctx.decide(not missing, 'R-TABLE', 'D6', c.methods['__init__'], None, 'protected-set-complete',
                   f'{cname}._protectedfiles contains every file/dir-name constant of the class '
                   f'({sorted(names.values())})', detail=f'not protected: {missing}')
        ctx.decide(set(names.values()) >= {x for x in prot}, 'R-TABLE', 'D6', c.methods['__init__'], None,
                   'protected-set-named', f'{cname}._protectedfiles holds only named constants',
                   detail='set contains names that are not class constants')
        v = c.init_attr_exprs.get('_datadir')
        ok = isinstance(v, ast.Call) and get_arg(v, 1, 'protectedpaths') is not None and \
            norm(get_arg(v, 1, 'protectedpaths')) in ('self._protectedfiles', f'{cname}._protectedfiles')
        ctx.decide(ok, 'R-FLOW', 'D6', c.methods['__init__'], v, 'passes-protected-set',
                   f'{cname}.__init__ passes _protectedfiles to DataDir',
                   detail='DataDir is not created with protectedpaths=_protectedfiles')
        # the `datadir` property hands out that guarded object
        p = c.methods.get('datadir')
        ok = p is not None and p.is_property and any(
            isinstance(n, ast.Return) and dotted(n.value) == 'self._datadir' for n in own_nodes(p.node))
        ctx.decide(ok, 'R-FLOW', 'D6', p or c.methods['__init__'], None, 'datadir-property',
                   f'{cname}.datadir returns the guarded DataDir object',
                   detail='datadir property returns something else')
