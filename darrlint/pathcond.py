"""Name- and layout-independent helpers for the rules.

* `inline(func, expr)`   substitute every local that has exactly one definition in the
                         function by its defining expression (recursively), so that rules
                         compare *what a value is computed from*, not what a temporary is
                         called or whether there is a temporary at all.
* `canon(func, expr)`    normalised text of inline(), optionally with the function's
                         parameters replaced by positional placeholders.
* `find_defs(func, pred)` role-based discovery of a local: the bindings whose (inlined)
                         value satisfies a predicate.
* `runs_under(func, node, env)` path-condition evaluation on the CFG: does control reach
                         `node` when the branch tests are folded under `env`?  Works for
                         if/else in either polarity, guard clauses with early raise/return,
                         nested and split conditions alike.  Three-valued.
"""
import ast
import copy

from .astutil import assignments, norm
from .cfg import cfg_of
from .srcmodel import own_nodes


def _single_defs(fn):
    """name -> defining expression for plain names bound exactly once by a simple
    `name = value` statement (no augmented assignment, loop target, with-target)."""
    count, val = {}, {}
    for nm, v, st in assignments(fn):
        count[nm] = count.get(nm, 0) + 1
        simple = isinstance(st, ast.Assign) and len(st.targets) == 1 and isinstance(st.targets[0], ast.Name)
        if isinstance(st, ast.AnnAssign) and isinstance(st.target, ast.Name):
            simple = True
        val[nm] = v if simple else None
    a = fn.args
    params = {x.arg for x in a.args + a.kwonlyargs + a.posonlyargs}
    if a.vararg:
        params.add(a.vararg.arg)
    if a.kwarg:
        params.add(a.kwarg.arg)
    return {nm: v for nm, v in val.items() if count[nm] == 1 and v is not None and nm not in params and '.' not in nm}


class _Sub(ast.NodeTransformer):
    def __init__(self, defs, depth):
        self.defs, self.depth = defs, depth

    def visit_Name(self, n):
        if isinstance(n.ctx, ast.Load) and n.id in self.defs and self.depth > 0:
            v = copy.deepcopy(self.defs[n.id])
            return _Sub({k: x for k, x in self.defs.items() if k != n.id}, self.depth - 1).visit(v)
        return n


def _module_consts(func):
    """Module-level (and class-level) literal constants visible from func, as AST expressions: a table hoisted to
    `_ENDIANNESS = {...}` is the same to a rule as the literal written in place."""
    out = {}
    mod = getattr(func, 'module', None)
    if mod is None:
        return out
    srcs = [mod.consts]
    for name, val in mod.consts.items():
        pass
    for name, val in mod.consts.items():
        if not (name.startswith('_') and not name.startswith('__')):
            continue              # public tables (numtypesdescr, readcodefunc ...) are referred to by name
        if isinstance(val, (str, int, float, bool, tuple, list, dict, frozenset, set)) or val is None:
            try:
                out[name] = ast.parse(repr(val), mode='eval').body
            except SyntaxError:
                pass
    return out


def inline(func_or_node, expr, depth=6, keep=()):
    fn = getattr(func_or_node, 'node', func_or_node)
    if expr is None:
        return None
    defs = dict(_module_consts(func_or_node))
    a = fn.args
    shadow = {x.arg for x in a.args + a.kwonlyargs + a.posonlyargs} | \
        {n.id for n in ast.walk(fn) if isinstance(n, ast.Name) and isinstance(n.ctx, ast.Store)}
    defs = {k: v for k, v in defs.items() if k not in shadow}
    defs.update(_single_defs(fn))
    for k in keep:
        defs.pop(k, None)
    return _Sub(defs, depth).visit(copy.deepcopy(expr))


def canon(func_or_node, expr, params=False):
    if expr is None:
        return None
    fn = getattr(func_or_node, 'node', func_or_node)
    e = inline(fn, expr)
    if params:
        a = fn.args
        names = [x.arg for x in a.posonlyargs + a.args + a.kwonlyargs]
        m = {nm: f'P{i}' for i, nm in enumerate(names)}

        class R(ast.NodeTransformer):
            def visit_Name(self, n):
                if n.id in m:
                    return ast.copy_location(ast.Name(id=m[n.id], ctx=n.ctx), n)
                return n
        e = R().visit(e)
    return norm(e)


def find_defs(func_or_node, pred, inlined=True):
    """[(name, value, stmt)] for bindings whose value (inlined) satisfies pred(value)."""
    fn = getattr(func_or_node, 'node', func_or_node)
    out = []
    for nm, v, st in assignments(fn):
        vv = inline(fn, v) if inlined else v
        try:
            if pred(vv):
                out.append((nm, v, st))
        except Exception:
            pass
    return out


class Unknown(Exception):
    pass


def _pruned_succ(g, a, fold_test):
    if g.kind[a] == 'if':
        v = fold_test(g.astnode[a].test)
        return [b for b, lab in g.succ[a] if lab != 'exc' and (v is None or lab == v)]
    return [b for b, lab in g.succ[a] if lab != 'exc']


def reach_under(func, fold_test, start=None, avoid=()):
    """Nodes reachable from `start` (default: entry) in the CFG pruned by the folded
    branch tests: a decided `if` keeps only the taken edge, an undecided one keeps both.
    Exceptional edges (call-may-raise, explicit raise) are not followed, so `raise`
    statements are sinks."""
    g = cfg_of(func)
    start = g.entry if start is None else start
    avoid = set(avoid)
    seen, stack = set(), [start]
    while stack:
        a = stack.pop()
        if a in seen or a in avoid:
            continue
        seen.add(a)
        stack.extend(_pruned_succ(g, a, fold_test))
    return seen


def terminals(func, nodes):
    g = cfg_of(func)
    return {n for n in nodes if n == g.exit or g.kind[n] == 'raise'}


def runs_under(func, node, fold_test, start=None):
    """True: every exception-free completion from `start` passes `node` under the folded
    tests; False: none does; None: it depends on a test that could not be folded."""
    g = cfg_of(func)
    nid = g.node_for(node)
    may = reach_under(func, fold_test, start)
    if nid not in may:
        return False
    without = reach_under(func, fold_test, start, avoid={nid})
    if terminals(func, without):
        return None
    return True


def outcome_under(func, fold_test, start=None):
    """(normal, raised): normal — three-valued, does an exception-free completion reach
    the normal exit; raised — the set of exception class names of the explicit `raise`
    statements that remain reachable."""
    g = cfg_of(func)
    may = reach_under(func, fold_test, start)
    names = set()
    for n in may:
        if g.kind[n] == 'raise':
            st = g.astnode[n]
            e = st.exc.func if isinstance(st.exc, ast.Call) else st.exc
            names.add(ast.unparse(e).split('.')[-1] if e is not None else '<reraise>')
    if g.exit not in may:
        normal = False
    else:
        normal = None if names else True
    return normal, names


def branch_cond_nodes(func, node):
    """The `if` statements whose outcome decides whether `node` is reached: every If from
    which one edge cannot reach node while another can."""
    g = cfg_of(func)
    nid = g.node_for(node)
    out = []
    for a in g.nodes():
        if g.kind[a] != 'if':
            continue
        outs = {}
        for b, lab in g.succ[a]:
            if lab == 'exc':
                continue
            outs[lab] = (b == nid) or g.can_reach(b, nid, skip_labels=('exc',))
        if len(outs) == 2 and (outs.get(True) != outs.get(False)):
            out.append((g.astnode[a], outs.get(True)))
    return out


def raising_ifs(func_or_node):
    """[(if_node, raising_branch, other_branch, polarity)] for every If one of whose
    branches always raises; polarity True when the body raises (the test is the
    *rejecting* condition), False when the else branch raises."""
    from .cfg import always_raises
    fn = getattr(func_or_node, 'node', func_or_node)
    out = []
    for n in own_nodes(fn):
        if isinstance(n, ast.If):
            if always_raises(n.body):
                out.append((n, n.body, n.orelse, True))
            elif always_raises(n.orelse):
                out.append((n, n.orelse, n.body, False))
    return out
