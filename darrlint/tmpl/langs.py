"""Reader models: the trusted transcription of each target language's
documented binary-read / reshape / indexing semantics (the sources cited at
the top of darr/readcodearray.py, the NumPy and `struct` references), and the
extraction of the relevant facts from an emitted program text.

A *fact sheet* extracted from a program has the keys
  path      the path string given to the call that opens the file
  readonly  True / False / None (mode tokens of the open call)
  kind,nbytes  what the type token denotes under the model
  order     'little' / 'big' as denoted by the byte-order token (None = absent)
  dims      list of extent tokens as they appear, in program order
  count     the element-count token given to the read call (None = not needed)
  pairs     True when complex values are read as float pairs (count doubles)
and the checker compares it with what the stored array requires."""
import ast
import re

HL, HR = '«', '»'

KIND = {'int8': ('int', 1), 'int16': ('int', 2), 'int32': ('int', 4), 'int64': ('int', 8),
        'uint8': ('uint', 1), 'uint16': ('uint', 2), 'uint32': ('uint', 4), 'uint64': ('uint', 8),
        'float16': ('float', 2), 'float32': ('float', 4), 'float64': ('float', 8),
        'complex64': ('complex', 8), 'complex128': ('complex', 16)}

ROW_MAJOR = {'numpy', 'numpymemmap', 'python', 'darr', 'mathematica'}
COL_MAJOR = {'R', 'matlab', 'scilab', 'julia_ver0', 'julia_ver1', 'julia', 'idl', 'maple'}

NUMPY_CODES = {'i1': ('int', 1), 'i2': ('int', 2), 'i4': ('int', 4), 'i8': ('int', 8),
               'u1': ('uint', 1), 'u2': ('uint', 2), 'u4': ('uint', 4), 'u8': ('uint', 8),
               'f2': ('float', 2), 'f4': ('float', 4), 'f8': ('float', 8), 'c8': ('complex', 8),
               'c16': ('complex', 16)}
STRUCT_CODES = {'b': ('int', 1), 'B': ('uint', 1), 'h': ('int', 2), 'H': ('uint', 2), 'i': ('int', 4),
                'I': ('uint', 4), 'l': ('int', 4), 'L': ('uint', 4), 'q': ('int', 8), 'Q': ('uint', 8),
                'e': ('float', 2), 'f': ('float', 4), 'd': ('float', 8)}
ARRAY_TYPECODES = set('bBuhHiIlLqQfd')          # array.array has no 'e'
MATLAB_PREC = {'int8': ('int', 1), 'int16': ('int', 2), 'int32': ('int', 4), 'int64': ('int', 8),
               'uint8': ('uint', 1), 'uint16': ('uint', 2), 'uint32': ('uint', 4), 'uint64': ('uint', 8),
               'float32': ('float', 4), 'single': ('float', 4), 'float64': ('float', 8), 'double': ('float', 8)}
MATLAB_ORDER = {'ieee-le': 'little', 'l': 'little', 'ieee-be': 'big', 'b': 'big'}
SCILAB_CODES = {'c': ('int', 1), 'uc': ('uint', 1), 's': ('int', 2), 'us': ('uint', 2), 'i': ('int', 4),
                'ui': ('uint', 4), 'l': ('int', 8), 'ul': ('uint', 8), 'f': ('float', 4), 'd': ('float', 8)}
SCILAB_INT_FUNC = 'mgeti'
JULIA_TYPES = {'Int8': ('int', 1), 'Int16': ('int', 2), 'Int32': ('int', 4), 'Int64': ('int', 8),
               'UInt8': ('uint', 1), 'UInt16': ('uint', 2), 'UInt32': ('uint', 4), 'UInt64': ('uint', 8),
               'Float16': ('float', 2), 'Float32': ('float', 4), 'Float64': ('float', 8),
               'Complex{Float32}': ('complex', 8), 'ComplexF32': ('complex', 8),
               'Complex{Float64}': ('complex', 16), 'ComplexF64': ('complex', 16)}
JULIA_ORDER = {'ltoh': 'little', 'ntoh': 'big'}
IDL_CODES = {1: ('uint', 1), 2: ('int', 2), 3: ('int', 4), 4: ('float', 4), 5: ('float', 8), 6: ('complex', 8),
             9: ('complex', 16), 12: ('uint', 2), 13: ('uint', 4), 14: ('int', 8), 15: ('uint', 8)}
MATHEMATICA_TYPES = {'Integer8': ('int', 1), 'Integer16': ('int', 2), 'Integer32': ('int', 4), 'Integer64': ('int', 8),
                     'UnsignedInteger8': ('uint', 1), 'UnsignedInteger16': ('uint', 2), 'UnsignedInteger32': ('uint', 4),
                     'UnsignedInteger64': ('uint', 8), 'Real32': ('float', 4), 'Real64': ('float', 8),
                     'Complex64': ('complex', 8), 'Complex128': ('complex', 16)}
MATHEMATICA_ORDER = {'-1': 'little', '+1': 'big', '1': 'big'}
MAPLE_TYPES = {'integer[1]': ('int', 1), 'integer[2]': ('int', 2), 'integer[4]': ('int', 4), 'integer[8]': ('int', 8),
               'float[4]': ('float', 4), 'float[8]': ('float', 8)}


class BadProgram(Exception):
    """The emitted text does not have the shape the language model expects."""


# ---------------------------------------------------------------------------
def split_args(s):
    """Split at top-level commas, respecting brackets and quotes."""
    out, depth, cur, q = [], 0, '', None
    i = 0
    while i < len(s):
        ch = s[i]
        if q:
            cur += ch
            if ch == q:
                q = None
        elif ch in '"\'':
            q = ch
            cur += ch
        elif ch in '([{':
            depth += 1
            cur += ch
        elif ch in ')]}':
            depth -= 1
            cur += ch
        elif ch == ',' and depth == 0:
            out.append(cur.strip())
            cur = ''
        else:
            cur += ch
        i += 1
    if depth != 0 or q:
        raise BadProgram(f'unbalanced brackets or quotes in `{s[:60]}`')
    if cur.strip() or out:
        out.append(cur.strip())
    return out


def call_args(text, name, open_='(', close=')'):
    """Arguments of the first call `name(...)` in text -> list of strings."""
    i = text.find(name + open_)
    if i < 0:
        raise BadProgram(f'no call of {name}')
    j = i + len(name) + 1
    depth, q, k = 1, None, j
    while k < len(text) and depth:
        ch = text[k]
        if q:
            if ch == q:
                q = None
        elif ch in '"\'':
            q = ch
        elif ch in '([{':
            depth += 1
        elif ch in ')]}':
            depth -= 1
        k += 1
    if depth:
        raise BadProgram(f'unterminated call of {name}')
    return split_args(text[j:k - 1])


def unquote(s, quotes='"\''):
    s = s.strip()
    if len(s) >= 2 and s[0] in quotes and s[-1] == s[0]:
        return s[1:-1]
    raise BadProgram(f'expected a quoted string, got `{s}`')


def is_quoted(s):
    s = s.strip()
    return len(s) >= 2 and s[0] in '"\'' and s[-1] == s[0]


def kwargs_of(args):
    pos, kw = [], {}
    for a in args:
        m = re.match(r'^([A-Za-z_][A-Za-z0-9_]*)\s*=(?!=)\s*(.*)$', a, re.S)
        if m:
            kw[m.group(1)] = m.group(2).strip()
        else:
            pos.append(a)
    return pos, kw


def dims_list(s):
    """'[«n1», «n0»]' / '(«n0»,)' / 'c(«n1», «n0»)' / '{«n0», «n1»}' -> tokens."""
    s = s.strip()
    m = re.match(r'^(?:c)?[\(\[\{](.*)[\)\]\}]$', s, re.S)
    if not m:
        raise BadProgram(f'expected a dimension list, got `{s}`')
    return [x for x in (t.strip() for t in split_args(m.group(1))) if x != '']


def strip_comments(code, lang):
    out = []
    for line in code.splitlines():
        if lang in ('numpy', 'numpymemmap', 'python', 'darr', 'R', 'julia_ver0', 'julia_ver1', 'julia', 'maple'):
            line = re.sub(r'#.*$', '', line)
        elif lang == 'matlab':
            line = re.sub(r'%.*$', '', line)
        elif lang == 'scilab':
            line = re.sub(r'/\*.*?\*/', '', line)
            line = re.sub(r'//.*$', '', line)
        elif lang == 'idl':
            line = re.sub(r';.*$', '', line) if line.lstrip().startswith(';') else line
        out.append(line)
    text = '\n'.join(out)
    if lang == 'mathematica':
        text = re.sub(r'\(\*.*?\*\)', '', text, flags=re.S)
    return text


# ---------------------------------------------------------------------------
# fact extraction per language (Array read code)
# ---------------------------------------------------------------------------

def facts_numpy(code, varname='a'):
    tree = _pyparse(code)
    f = {'pairs': False, 'count': None, 'readonly': True}
    call = _pycall(tree, 'np.fromfile')
    f['path'] = _pystr(call.args[0])
    dt = _pystr(_pykw(call, 'dtype'))
    _numpy_dtype(dt, f)
    resh = _pycall(tree, f'{varname}.reshape', required=False)
    if resh is not None:
        f['dims'] = _pydims(resh.args[0])
        f['layout'] = _pystr(_pykw(resh, 'order')) if _pykw(resh, 'order', None) is not None else 'C'
    else:
        f['dims'] = None            # flat read: correct for 1-D only
        f['layout'] = 'C'
    return f


def facts_numpymemmap(code, varname='a'):
    tree = _pyparse(code)
    f = {'pairs': False, 'count': None}
    call = _pycall(tree, 'np.memmap')
    f['path'] = _pystr(call.args[0])
    _numpy_dtype(_pystr(_pykw(call, 'dtype')), f)
    mode = _pykw(call, 'mode', None)
    f['mode'] = _pystr(mode) if mode is not None else '<default r+>'
    f['readonly'] = mode is not None and _pystr(mode) in ('r', 'c')
    f['dims'] = _pydims(_pykw(call, 'shape'))
    order = _pykw(call, 'order', None)
    f['layout'] = _pystr(order) if order is not None else 'C'
    return f


def facts_python(code, varname='a'):
    tree = _pyparse(code)
    f = {}
    op = _pycall(tree, 'open')
    f['path'] = _pystr(op.args[0])
    mode = _pystr(op.args[1]) if len(op.args) > 1 else 'r'
    f['mode'] = mode
    f['readonly'] = mode in ('rb',)
    un = _pycall(tree, 'struct.unpack')
    fmt = _pystr(un.args[0])
    m = re.match(r'^([<>=!@]?)(' + HL + r'[^' + HR + r']*' + HR + r'|\d+)?([a-zA-Z])$', fmt)
    if not m:
        raise BadProgram(f'struct format `{fmt}` not of the form <order><count><letter>')
    f['order'] = {'<': 'little', '>': 'big'}.get(m.group(1))
    f['count'] = m.group(2)
    letter = m.group(3)
    if letter not in STRUCT_CODES:
        raise BadProgram(f'unknown struct letter {letter}')
    f['kind'], f['nbytes'] = STRUCT_CODES[letter]
    ar = _pycall(tree, 'array.array')
    tc = _pystr(ar.args[0])
    f['array_typecode_ok'] = tc in ARRAY_TYPECODES and tc == letter
    f['dims'] = None
    f['layout'] = 'C'
    f['pairs'] = 'real = ' in code and 'imag = ' in code
    return f


def facts_darr(code, varname='a'):
    tree = _pyparse(code)
    call = _pycall(tree, 'darr.Array', required=False) or _pycall(tree, 'darr.RaggedArray')
    mode = _pykw(call, 'accessmode', None)
    return {'path': _pystr(_pykw(call, 'path')), 'readonly': mode is None or _pystr(mode) == 'r', 'darr': True}


def facts_r(code, varname='a'):
    code = strip_comments(code, 'R')
    f = {'pairs': False}
    fa = call_args(code, 'file')
    f['path'] = unquote(fa[0], '"')
    f['mode'] = unquote(fa[1], '"') if len(fa) > 1 else 'r'
    f['readonly'] = f['mode'] in ('rb',)
    pos, kw = kwargs_of(call_args(code, 'readBin'))
    what, size, signed = kw.get('what'), kw.get('size'), kw.get('signed', 'TRUE')
    f['count'] = kw.get('n')
    f['order'] = {'little': 'little', 'big': 'big'}.get(unquote(kw['endian'], '"')) if 'endian' in kw else None
    if what == 'integer()':
        f['kind'] = 'int' if signed == 'TRUE' else 'uint'
        if signed == 'FALSE' and size not in ('1', '2'):
            raise BadProgram('readBin: signed=FALSE is only valid for size 1 or 2')
    elif what == 'numeric()':
        f['kind'] = 'float'
    elif what == 'complex()':
        f['kind'] = 'complex'
    else:
        raise BadProgram(f'readBin what={what}')
    f['nbytes'] = int(size)
    if (f['kind'], f['nbytes']) not in {('int', 1), ('int', 2), ('int', 4), ('int', 8), ('uint', 1), ('uint', 2),
                                        ('float', 4), ('float', 8), ('complex', 16)}:
        raise BadProgram(f'readBin cannot read {what} with size {size}')
    if 'array(' in code:
        pos, kw = kwargs_of(call_args(code, 'array'))
        f['dims'] = dims_list(kw['dim'])
    else:
        f['dims'] = None
    f['layout'] = 'F'
    if re.search(r'^\s*' + re.escape(varname) + r'\s*<-\s*readBin', code, re.M) is None:
        raise BadProgram(f'result is not assigned to {varname}')
    return f


def _matlab_fread(args, f):
    """fread(fid, sizeA, precision[, skip], machinefmt)"""
    if len(args) not in (4, 5):
        raise BadProgram(f'fread called with {len(args)} arguments: {args}')
    size = args[1]
    prec = unquote(args[2], "'")
    if not prec.startswith('*') or prec[1:] not in MATLAB_PREC:
        raise BadProgram(f'fread precision `{prec}`')
    kind, nbytes = MATLAB_PREC[prec[1:]]
    if len(args) == 5:
        if is_quoted(args[3]):
            raise BadProgram(f'fread skip argument is a quoted string `{args[3]}`')
        skip = int(args[3])
    else:
        skip = 0
    fmt = args[-1]
    if not is_quoted(fmt) or unquote(fmt, "'") not in MATLAB_ORDER:
        raise BadProgram(f'fread machine format `{fmt}` is not one of {sorted(MATLAB_ORDER)}')
    return size, kind, nbytes, skip, MATLAB_ORDER[unquote(fmt, "'")]


def facts_matlab(code, varname='a'):
    code = strip_comments(code, 'matlab')
    f = {'pairs': False, 'layout': 'F'}
    fa = call_args(code, 'fopen')
    f['path'] = unquote(fa[0], "'")
    perm = unquote(fa[1], "'") if len(fa) > 1 else 'r'
    f['mode'] = perm
    f['readonly'] = perm in ('r', 'rb')
    reads = []
    for line in code.splitlines():
        if 'fread(' not in line:
            continue
        m = re.match(r'^\s*(\w+)\s*=\s*(.*);\s*$', line)
        if not m:
            raise BadProgram(f'fread line `{line.strip()}`')
        target, rhs = m.group(1), m.group(2)
        dims = None
        if rhs.startswith('reshape('):
            ra = call_args(rhs, 'reshape')
            if len(ra) != 2:
                raise BadProgram('reshape arity')
            dims = dims_list(ra[1])
            rhs = ra[0]
        size, kind, nbytes, skip, order = _matlab_fread(call_args(rhs, 'fread'), f)
        if dims is None:
            if size.startswith('['):
                dims = dims_list(size)
                if len(dims) != 2:
                    raise BadProgram(f'fread sizeA `{size}`: only n, Inf or [m n] are valid')
                count = None
            else:
                dims, count = None, size
        else:
            count = size
        reads.append({'target': target, 'dims': dims, 'count': count, 'kind': kind, 'nbytes': nbytes,
                      'skip': skip, 'order': order})
    if not reads:
        raise BadProgram('no fread')
    if len(reads) == 1:
        r = reads[0]
        if r['target'] != varname:
            raise BadProgram(f'result assigned to {r["target"]}')
        f.update(kind=r['kind'], nbytes=r['nbytes'], order=r['order'], dims=r['dims'], count=r['count'])
        if 'half.typecast' in code:
            if (r['kind'], r['nbytes']) != ('uint', 2):
                raise BadProgram('half.typecast needs uint16 input')
            f['kind'], f['nbytes'] = 'float', 2
        if r['skip']:
            raise BadProgram('skip given for a non-interleaved read')
    else:
        if len(reads) != 2 or {r['target'] for r in reads} != {'re', 'im'}:
            raise BadProgram('complex read must produce re and im')
        re_, im_ = reads
        for k in ('dims', 'count', 'kind', 'nbytes', 'skip', 'order'):
            if re_[k] != im_[k]:
                raise BadProgram(f're/im reads disagree on {k}: {re_[k]} vs {im_[k]}')
        if re_['skip'] != re_['nbytes']:
            raise BadProgram(f'skip {re_["skip"]} != bytes of the other component {re_["nbytes"]}')
        sk = call_args(code, 'fseek')
        if int(sk[1]) != re_['nbytes'] or unquote(sk[2], "'") != 'bof':
            raise BadProgram('fseek to the imaginary parts is not one component from the start')
        if not re.search(r'^\s*' + re.escape(varname) + r'\s*=\s*complex\(re,\s*im\);', code, re.M):
            raise BadProgram('re and im are not recombined with complex(re, im)')
        f.update(kind='complex', nbytes=2 * re_['nbytes'], order=re_['order'], dims=re_['dims'], count=re_['count'])
        if re_['kind'] != 'float':
            raise BadProgram('complex components must be floats')
    if 'fclose(' not in code:
        raise BadProgram('file is not closed')
    return f


def facts_scilab(code, varname='a'):
    code = strip_comments(code, 'scilab')
    f = {'layout': 'F'}
    fa = call_args(code, 'mopen')
    f['path'] = unquote(fa[0], '"')
    f['mode'] = unquote(fa[1], '"') if len(fa) > 1 else 'rb'
    f['readonly'] = f['mode'] in ('rb', 'r', 'rt')
    m = re.search(r'(mgeti|mget)\(', code)
    if not m:
        raise BadProgram('no mget/mgeti')
    ra = call_args(code, m.group(1))
    if len(ra) != 3:
        raise BadProgram('mget arity')
    f['count'] = ra[0]
    tok = unquote(ra[1], '"')
    if tok[-1] not in 'lb' or tok[:-1] not in SCILAB_CODES:
        raise BadProgram(f'mget type `{tok}`')
    f['order'] = {'l': 'little', 'b': 'big'}[tok[-1]]
    f['kind'], f['nbytes'] = SCILAB_CODES[tok[:-1]]
    if (f['kind'] in ('int', 'uint')) != (m.group(1) == SCILAB_INT_FUNC):
        raise BadProgram(f'{m.group(1)} used for a {f["kind"]} type')
    f['dims'] = dims_list(call_args(code, 'matrix')[1]) if 'matrix(' in code else None
    f['pairs'] = False
    if 'complex(' in code:
        ca = call_args(code, 'complex')
        want = None
        if f['dims'] is None or f['dims'][0] != '2':
            raise BadProgram('complex pairs need a leading axis of length 2 (pairs are adjacent in the file)')
        nd = len(f['dims']) - 1
        sel = lambda k: f'squeeze({varname}({k}' + ',:' * nd + '))'
        if [x.replace(' ', '') for x in ca] != [sel(1), sel(2)]:
            raise BadProgram(f'complex() recombination `{ca}` does not select components 1 and 2 of the leading axis')
        f['pairs'] = True
        f['dims'] = f['dims'][1:]
        if f['kind'] != 'float':
            raise BadProgram('complex components must be floats')
        f['kind'], f['nbytes'] = 'complex', 2 * f['nbytes']
    if 'mclose(' not in code:
        raise BadProgram('file is not closed')
    return f


def facts_julia(code, varname='a', ver=1):
    code = strip_comments(code, 'julia')
    f = {'layout': 'F', 'pairs': False, 'count': None}
    fa = call_args(code, 'open')
    f['path'] = unquote(fa[0], '"')
    f['mode'] = unquote(fa[1], '"') if len(fa) > 1 else 'r'
    f['readonly'] = f['mode'] == 'r'
    ma = call_args(code, 'map')
    if ma[0] not in JULIA_ORDER:
        raise BadProgram(f'byte order function `{ma[0]}`')
    f['order'] = JULIA_ORDER[ma[0]]
    inner = ma[1]
    if inner.startswith('read!('):
        ra = call_args(inner, 'read!')
        m = re.match(r'^Array\{(.*)\}\(undef,\s*(.*)\)$', ra[1], re.S)
        if not m:
            raise BadProgram(f'read! target `{ra[1]}`')
        ty, dims = m.group(1), [x.strip() for x in split_args(m.group(2))]
    elif inner.startswith('read('):
        ra = call_args(inner, 'read')
        ty, dims = ra[1], dims_list(ra[2])
    else:
        raise BadProgram(f'no read call in `{inner[:40]}`')
    if ty not in JULIA_TYPES:
        raise BadProgram(f'Julia type `{ty}`')
    f['kind'], f['nbytes'] = JULIA_TYPES[ty]
    f['dims'] = dims
    if 'close(' not in code:
        raise BadProgram('file is not closed')
    return f


def facts_idl(code, varname='a'):
    f = {'layout': 'F', 'pairs': False, 'count': None, 'readonly': True}
    line = [l for l in code.splitlines() if 'read_binary(' in l][0]
    pos, kw = kwargs_of(call_args(line, 'read_binary'))
    f['path'] = unquote(pos[0], '"')
    code_ = int(kw['data_type'])
    if code_ not in IDL_CODES:
        raise BadProgram(f'IDL type code {code_}')
    f['kind'], f['nbytes'] = IDL_CODES[code_]
    f['dims'] = dims_list(kw['data_dims'])
    f['order'] = {'little': 'little', 'big': 'big'}.get(unquote(kw['endian'], '"'))
    if not re.match(r'^\s*' + re.escape(varname) + r'\s*=\s*read_binary', line):
        raise BadProgram('result not assigned')
    return f


def facts_mathematica(code, varname='a'):
    code = strip_comments(code, 'mathematica')
    f = {'layout': 'C', 'pairs': False, 'count': None, 'readonly': True}
    ra = call_args(code, 'BinaryReadList', '[', ']')
    f['path'] = unquote(ra[0], '"')
    ty = unquote(ra[1], '"')
    if ty not in MATHEMATICA_TYPES:
        raise BadProgram(f'Mathematica type `{ty}`')
    f['kind'], f['nbytes'] = MATHEMATICA_TYPES[ty]
    m = re.match(r'^ByteOrdering\s*->\s*(\S+)$', ra[2]) if len(ra) > 2 else None
    f['order'] = MATHEMATICA_ORDER.get(m.group(1)) if m else None
    f['dims'] = dims_list(call_args(code, 'ArrayReshape', '[', ']')[1]) if 'ArrayReshape[' in code else None
    for line in code.splitlines():
        if line.strip() and not line.rstrip().endswith((';', ']', '=', ',')):
            raise BadProgram(f'stray text `{line.strip()[:30]}`')
    return f


def facts_maple(code, varname='a'):
    code = strip_comments(code, 'maple')
    f = {'layout': 'F', 'pairs': False, 'count': None, 'readonly': True}
    i = code.find('FileTools[Binary][Read](')
    if i < 0:
        raise BadProgram('no FileTools[Binary][Read]')
    pos, kw = kwargs_of(call_args(code[i:], 'FileTools[Binary][Read]'))
    f['path'] = unquote(pos[0], '"')
    if pos[1] not in MAPLE_TYPES:
        raise BadProgram(f'Maple type `{pos[1]}`')
    f['kind'], f['nbytes'] = MAPLE_TYPES[pos[1]]
    f['order'] = {'little': 'little', 'big': 'big'}.get(kw.get('byteorder'))
    f['dims'] = dims_list(call_args(code, 'ArrayTools[Reshape]')[1]) if 'ArrayTools[Reshape](' in code else None
    if not re.search(r'^\s*' + re.escape(varname) + r'\s*:=\s*FileTools', code, re.M):
        raise BadProgram('result is not bound with :=')
    return f


# ---- python-family helpers -------------------------------------------------
def _pyparse(code):
    subst = re.sub(HL + r'([^' + HR + r']*)' + HR, lambda m: '1' if not m.group(1).isidentifier() and False else '0', code)
    # holes inside string literals stay as they are; only bare holes (shape tuples) become a literal
    def repl(m):
        return 'H_' + re.sub(r'\W', '_', m.group(1))
    # replace holes outside quotes by identifiers
    out, q = '', None
    i = 0
    while i < len(code):
        ch = code[i]
        if q:
            out += ch
            if ch == q:
                q = None
        elif ch in '"\'':
            q = ch
            out += ch
        elif ch == HL:
            j = code.index(HR, i)
            out += 'H_' + re.sub(r'\W', '_', code[i + 1:j])
            i = j
        else:
            out += ch
        i += 1
    try:
        return ast.parse(out)
    except SyntaxError as e:
        raise BadProgram(f'not valid Python: {e}')


def _pycall(tree, name, required=True):
    for n in ast.walk(tree):
        if isinstance(n, ast.Call) and ast.unparse(n.func) == name:
            return n
    if required:
        raise BadProgram(f'no call of {name}')
    return None


def _pykw(call, kw, default='__required__'):
    for k in call.keywords:
        if k.arg == kw:
            return k.value
    if default == '__required__':
        raise BadProgram(f'{ast.unparse(call.func)}: missing {kw}=')
    return default


def _pystr(node):
    if isinstance(node, ast.Constant) and isinstance(node.value, str):
        return node.value
    raise BadProgram(f'expected a string literal, got `{ast.unparse(node)}`')


def _pydims(node):
    if isinstance(node, (ast.Tuple, ast.List)):
        out = []
        for e in node.elts:
            t = ast.unparse(e)
            out.append(HL + t[2:] + HR if t.startswith('H_') else t)
        return out
    raise BadProgram(f'expected a shape tuple, got `{ast.unparse(node)}`')


def _numpy_dtype(dt, f):
    if dt.startswith(HL + 'hostorder' + HR):
        raise BadProgram(f'NumPy dtype string `{dt}` takes the byte order of the host that generated the code, not the stored one')
    m = re.match(r'^([<>=|]?)([a-z]\d+)$', dt)
    if not m or m.group(2) not in NUMPY_CODES:
        raise BadProgram(f'NumPy dtype string `{dt}`')
    f['order'] = {'<': 'little', '>': 'big'}.get(m.group(1))
    f['kind'], f['nbytes'] = NUMPY_CODES[m.group(2)]


READ_TOKENS = {
    'numpy': r'np\.fromfile', 'numpymemmap': r'np\.memmap', 'python': r'struct\.unpack', 'darr': r'darr\.\w+\(',
    'R': r'readBin', 'matlab': r'fread', 'scilab': r'mgeti?\(', 'julia': r'read!?\(', 'idl': r'read_binary',
    'mathematica': r'BinaryReadList', 'maple': r'FileTools',
}


def check_binding(lang, code, varname):
    """The statement that reads the file assigns to the requested variable (the ragged composers ask for `i` and `v`
    and index those; the complex recombination statements refer to the same name)."""
    tok = READ_TOKENS.get(lang.split('_')[0])
    if tok is None or not isinstance(code, str):
        return
    got = set(re.findall(r'(?m)^[ \t]*([A-Za-z_]\w*)[ \t]*(?:=|<-|:=)(?!=)[^\n;]*?' + tok, strip_comments(code, lang.split('_')[0])
                         if lang.split('_')[0] not in ('numpy', 'numpymemmap', 'python', 'darr') else code))
    if lang == 'matlab':
        got -= {'re', 'im'}          # the complex reader reads the two components separately and recombines them
    if got and varname not in got:
        raise BadProgram(f'the data is read into `{sorted(got)[0]}`, not into the requested variable `{varname}`')


def _bound(lang, fn):
    def wrapped(code, varname='a'):
        check_binding(lang, code, varname)
        return fn(code, varname)
    return wrapped


EXTRACTORS = {
    'numpy': facts_numpy, 'numpymemmap': facts_numpymemmap, 'python': facts_python, 'darr': facts_darr,
    'R': facts_r, 'matlab': facts_matlab, 'scilab': facts_scilab,
    'julia_ver0': lambda c, v='a': facts_julia(c, v, 0), 'julia_ver1': lambda c, v='a': facts_julia(c, v, 1),
    'julia': lambda c, v='a': facts_julia(c, v, 1),
    'idl': facts_idl, 'mathematica': facts_mathematica, 'maple': facts_maple,
}


EXTRACTORS = {k: _bound(k, v) for k, v in EXTRACTORS.items()}


def expected_path(pathmode, dirparts=(), fname='arrayvalues.bin'):
    parts = list(dirparts) + [fname]
    if pathmode == 'relative':
        return '/'.join(parts)
    if pathmode == 'basepath':
        return '/'.join([f'{HL}BASE{HR}'] + parts)
    return '/'.join([f'{HL}ABS{HR}'] + parts)


def prod_token(tokens, coef=1):
    inner = sorted(t.strip(HL + HR) for t in tokens if t.startswith(HL))
    consts = [int(t) for t in tokens if not t.startswith(HL)]
    for c in consts:
        coef *= c
    parts = ([str(coef)] if coef != 1 or not inner else []) + inner
    return HL + '*'.join(parts) + HR


def check_array_facts(lang, f, numtype, byteorder, extents, path, needs_count):
    """Compare a fact sheet with what the stored array requires.
    -> list of (aspect, ok, detail)"""
    out = []
    if f.get('darr'):
        out.append(('T1 path', f['path'] == 'path_to_data_dir', f"path placeholder is {f['path']!r}"))
        out.append(('T7 read-only', bool(f['readonly']), 'darr handle opened writable'))
        return out
    out.append(('T1 path', f['path'] == path, f"the program opens {f['path']!r}, the data file is {path!r}"))
    out.append(('T7 read-only', f.get('readonly') is True,
                f"file opened with mode {f.get('mode')!r}, which is not read-only"))
    kind, nbytes = KIND[numtype]
    got = (f['kind'], f['nbytes'])
    ok = got == (kind, nbytes)
    if lang == 'python' and kind == 'complex':
        ok = got == ('float', nbytes // 2) and f.get('pairs')
    out.append(('T2 type token', ok, f'type token denotes {got}, the array holds {(kind, nbytes)}'))
    if nbytes > 1 or True:
        out.append(('T3 byte order token', f['order'] == byteorder,
                    f"byte order token denotes {f['order']!r}, the file is {byteorder!r}"))
    want = list(extents) if lang in ROW_MAJOR else list(reversed(extents))
    if f.get('dims') is None:
        out.append(('T4 axis order', len(extents) == 1, f'no reshape for a {len(extents)}-dimensional array'))
    else:
        out.append(('T4 axis order', f['dims'] == want, f"dimensions given as {f['dims']}, {'row' if lang in ROW_MAJOR else 'column'}-major reader needs {want}"))
    if f.get('layout') is not None:
        out.append(('T4 layout flag', f['layout'] == ('C' if lang in ROW_MAJOR else 'F'), f"layout {f['layout']}"))
    if f.get('count') is not None:
        coef = 2 if (f.get('pairs') or (lang == 'python' and kind == 'complex')) else 1
        want_c = prod_token(list(extents), coef)
        got_c = f['count']
        out.append(('T4 element count', got_c == want_c, f'read call is given count {got_c}, the file holds {want_c} items'))
    elif needs_count:
        out.append(('T4 element count', False, 'read call needs an element count'))
    if lang == 'python':
        out.append(('T6 array typecode', bool(f.get('array_typecode_ok')), 'array.array typecode invalid or different from the struct letter'))
    return out


# compatibility tables of docs/readcode.rst
DOC_COLUMNS = {'IDL': ['idl'], 'Julia': ['julia_ver0', 'julia_ver1'], 'Maple': ['maple'], 'Mathematica': ['mathematica'],
               'Matlab': ['matlab'], 'Numpy': ['numpy', 'numpymemmap'], 'Python': ['python'], 'R': ['R'], 'Scilab': ['scilab']}


def parse_doc_tables(text):
    """-> (types: {lang: {numtype: bool}}, dims: {lang: {'1-D': bool, 'N-D': bool}})"""
    tables = []
    cur = None
    for line in text.splitlines():
        if line.startswith('|'):
            cells = [c.strip() for c in line.strip().strip('|').split('|')]
            if cur is None:
                cur = {'header': cells, 'rows': []}
                tables.append(cur)
            else:
                cur['rows'].append(cells)
        elif not line.startswith('+'):
            cur = None
    types, dims = {}, {}
    for t in tables:
        hdr = t['header']
        if 'IDL' not in hdr:
            continue
        for row in t['rows']:
            label = row[0]
            for col, cell in zip(hdr[1:], row[1:]):
                for lang in DOC_COLUMNS.get(col, []):
                    if label in KIND:
                        types.setdefault(lang, {})[label] = cell != ''
                    elif label.startswith('1-D'):
                        dims.setdefault(lang, {})['1-D'] = cell != ''
                    elif label.startswith('N-D'):
                        dims.setdefault(lang, {})['N-D'] = cell != ''
    return types, dims
