"""Enumeration of the finite input space of the read-code generators and
construction of the abstract Array / RaggedArray objects handed to them."""
import ast

from .interp import Interp, ModRef, Obj, Sym, PathV, BasePathHole, Unmodelled
from ..srcmodel import AnalysisError

NUMTYPES = ['int8', 'int16', 'int32', 'int64', 'uint8', 'uint16', 'uint32', 'uint64',
            'float16', 'float32', 'float64', 'complex64', 'complex128']
BYTEORDERS = ['little', 'big']
PATHMODES = ['relative', 'basepath', 'abspath']
INDEXTYPES = ['int8', 'uint8', 'int16', 'uint16', 'int32', 'uint32', 'int64']


def make_interps(repo):
    ma = repo.module('readcodearray')
    mr = repo.module('readcoderaggedarray')
    np_ = ModRef('np')
    ia = Interp(ma, {'np': np_})
    ir = Interp(mr, {'np': np_, 'readcodearray': ModRef('readcodearray', ia),
                     'shapeexplanationtextarray': ia.globs.get('shapeexplanationtextarray', '')})
    return ia, ir


def array_obj(repo, numtype, byteorder, shape, dirparts=(), name='da', big=False):
    A = repo.cls('Array')
    fname = A.consts.get('_datafilename')
    if not isinstance(fname, str):
        raise AnalysisError('Array._datafilename is not a string constant')
    size = 1
    for s in shape:
        size = s * size if isinstance(s, Sym) else size * s
    if isinstance(size, Sym):
        size.big = big
    dt = Obj(f'{name}.dtype', name=numtype)
    return Obj(name,
               _arrayinfo={'numtype': numtype, 'shape': tuple(shape), 'byteorder': byteorder, 'arrayorder': 'C'},
               _datapath=PathV('', tuple(dirparts) + (fname,)),
               path=PathV('', tuple(dirparts)), _path=PathV('', tuple(dirparts)),
               dtype=dt, _dtype=dt, shape=tuple(shape), _shape=tuple(shape), size=size, _size=size,
               ndim=len(shape), __len__=shape[0] if shape else 0)


def extents(ndim, prefix='n'):
    return tuple(Sym((f'{prefix}{i}',)) for i in range(ndim))


def array_code(repo, ia, language, numtype, byteorder, ndim, pathmode):
    da = array_obj(repo, numtype, byteorder, extents(ndim))
    kw = {}
    if pathmode == 'abspath':
        kw['abspath'] = True
    elif pathmode == 'basepath':
        kw['basepath'] = BasePathHole()
    return ia.call('readcode', da, language, **kw), da


def ragged_obj(repo, numtype, indextype, byteorder, atomrank, lenclass, big=False):
    RA = repo.cls('RaggedArray')
    vdir, idir = RA.consts.get('_valuesdirname'), RA.consts.get('_indicesdirname')
    if not (isinstance(vdir, str) and isinstance(idir, str)):
        raise AnalysisError('RaggedArray sub-directory names are not string constants')
    atom = tuple(Sym((f'a{i}',)) for i in range(atomrank))
    # the "big" configuration has more than 2**31-1 value ELEMENTS; its number of ROWS exceeds that bound only when the
    # atom is a scalar (rows == elements) — with an atom of rank >= 1 the rows of such an array may well be fewer, so a
    # cut-off that asks for the number of rows does not fire (seeded C07-15)
    nrows = Sym(('N',))
    nrows.big = big if atomrank == 0 else False
    values = array_obj(repo, numtype, byteorder, (nrows,) + atom, dirparts=(vdir,), name='dra._values', big=big)
    nsub = Sym(('n',))
    indices = array_obj(repo, indextype, byteorder, (nsub, 2), dirparts=(idir,), name='dra._indices')
    dt = Obj('dra.dtype', name=numtype)
    return Obj('dra', _values=values, _indices=indices, atom=atom,
               _arrayinfo={'atom': atom, 'numtype': numtype, 'len': nsub, 'size': values.get('size')},
               dtype=dt, __len__=lenclass, narrays=lenclass,
               _valuesdirname=vdir, _indicesdirname=idir, path=PathV('', ()), _path=PathV('', ()),
               size=values.get('size'))


def ragged_code(repo, ir, language, numtype, indextype, byteorder, atomrank, lenclass, pathmode, big=False):
    dra = ragged_obj(repo, numtype, indextype, byteorder, atomrank, lenclass, big=big)
    kw = {}
    if pathmode == 'abspath':
        kw['abspath'] = True
    elif pathmode == 'basepath':
        kw['basepath'] = BasePathHole()
    return ir.call('readcode', dra, language, **kw), dra
