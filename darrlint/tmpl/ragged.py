"""Reader models for the ragged accessors (index origin, end inclusiveness,
axis order, placeholders) and extraction of the accessor from a composed
program."""
import re

from .langs import BadProgram, strip_comments, HL, HR, split_args

# language -> model
#  origin        index origin of the language
#  inclusive     whether the end of a range is inclusive
#  comp          how element (component c in {0,1}, subarray k) of the index array is addressed
#  placeholder   the "all" token for an atom axis, joined before the range (column-major) or absent (row-major)
#  assign        accepted assignment operators of the example statement
MODELS = {
    'numpymemmap': dict(origin=0, inclusive=False, colmajor=False, placeholder=None, assign=['=']),
    'darr': dict(origin=0, inclusive=False, colmajor=False, placeholder=None, assign=['=']),
    'R': dict(origin=1, inclusive=True, colmajor=True, placeholder='', assign=['=', '<-']),
    'matlab': dict(origin=1, inclusive=True, colmajor=True, placeholder=':', assign=['=']),
    'scilab': dict(origin=1, inclusive=True, colmajor=True, placeholder=':', assign=['=']),
    'julia': dict(origin=1, inclusive=True, colmajor=True, placeholder=':', assign=['=']),
    'maple': dict(origin=1, inclusive=True, colmajor=True, placeholder='..', assign=[':=']),
    'mathematica': dict(origin=1, inclusive=True, colmajor=False, placeholder=None, assign=['=']),
    'idl': dict(origin=0, inclusive=True, colmajor=True, placeholder='*', assign=['=']),
}


def nospace(s):
    return re.sub(r'\s+', '', s)


def _subst(expr, defs):
    for _ in range(4):
        for k, v in defs.items():
            expr = re.sub(r'(?<![\w])' + re.escape(k) + r'(?![\w])', f'({v})' if re.search(r'[+\-]', v) else v, expr)
    return expr


def _strip_parens(s):
    s = nospace(s)
    while s.startswith('(') and s.endswith(')') and _balanced(s[1:-1]):
        s = s[1:-1]
    return s


def _balanced(s):
    d = 0
    for ch in s:
        if ch in '([{':
            d += 1
        elif ch in ')]}':
            d -= 1
            if d < 0:
                return False
    return d == 0


def accessor(lang, text):
    """-> dict(start, end, placeholders:list, sep, empty_cond, empty_dims, kvar) with
    all expressions whitespace-free and local names substituted."""
    t = strip_comments(text, 'julia' if lang == 'julia' else lang)
    out = {'empty_cond': None, 'empty_dims': None}
    if lang == 'numpymemmap':
        m = re.search(r'def getsubarray\((\w+)\):\n\s+(\w+),\s*(\w+)\s*=\s*i\[(\w+)\]\n\s+return v\[(\w+):(\w+)\]', t)
        if not m:
            raise BadProgram('numpymemmap accessor not of the form `s, e = i[k]; return v[s:e]`')
        if not (m.group(1) == m.group(4) and m.group(2) == m.group(5) and m.group(3) == m.group(6)):
            raise BadProgram('numpymemmap accessor: start/end/k are mixed up')
        return dict(out, start='i[k,0]', end='i[k,1]', placeholders=[], kvar=m.group(1))
    if lang == 'darr':
        return dict(out, start=None, end=None, placeholders=[], kvar='k')
    if lang == 'R':
        m = re.search(r'getsubarray <- function\((\w+)\)\{(.*?)\n\}', t, re.S)
        if not m:
            raise BadProgram('R accessor function not found')
        body = m.group(2)
        defs = {a: nospace(b) for a, b in re.findall(r'^\s*(\w+)\s*<-\s*(.*?)\s*$', body, re.M)}
        r = re.search(r'return \(v\[(.*?)\]\)', body)
        if not r:
            raise BadProgram('R accessor does not return v[...]')
        parts = r.group(1).split(',')
        rng = parts[-1]
        a, b = rng.split(':')
        cond = re.search(r'if \((.*?)\)\s*\{', body)
        emp = re.search(r'return \((c\(\)|array\(.*?\))\)\s*$', body[:body.find('} else')] if '} else' in body else '', re.M)
        ed = None
        if emp and emp.group(1).startswith('array('):
            mm = re.search(r',c\((.*)\)\)$', nospace(emp.group(1)))
            ed = mm.group(1).split(',') if mm else None
        elif emp:
            ed = []
        return dict(out, start=_strip_parens(_subst(nospace(a), defs)), end=_strip_parens(_subst(nospace(b), defs)),
                    placeholders=[nospace(p) for p in parts[:-1]], kvar=m.group(1),
                    empty_cond=nospace(_subst(nospace(cond.group(1)), defs)) if cond else None, empty_dims=ed)
    if lang in ('matlab', 'scilab'):
        if lang == 'matlab':
            m = re.search(r'getsubarray = @\((\w+)\) v\((.*)\);', t)
        else:
            m = re.search(r'deff\("sa = getsubarray\((\w+)\)",\s*"sa = v\((.*)\)"\)', t)
        if not m:
            raise BadProgram(f'{lang} accessor not found')
        parts = split_args(m.group(2))
        a, b = _split_range(parts[-1], ':')
        return dict(out, start=nospace(a), end=nospace(b), placeholders=[nospace(p) for p in parts[:-1]], kvar=m.group(1))
    if lang == 'julia':
        m = re.search(r'function getsubarray\((\w+)\)\n(.*?)\nend', t, re.S)
        if not m:
            raise BadProgram('julia accessor not found')
        body = m.group(2)
        defs = {a: nospace(b) for a, b in re.findall(r'^\s*(\w+)\s*=\s*(.*?)\s*$', body, re.M)}
        r = re.search(r'^\s*v\[(.*)\]\s*$', body, re.M)
        if not r:
            raise BadProgram('julia accessor does not end in v[...]')
        parts = split_args(r.group(1))
        a, b = _split_range(parts[-1], ':')
        return dict(out, start=_strip_parens(_subst(nospace(a), defs)), end=_strip_parens(_subst(nospace(b), defs)),
                    placeholders=[nospace(p) for p in parts[:-1]], kvar=m.group(1))
    if lang == 'maple':
        m = re.search(r'getsubarray := proc \((\w+)::integer\);?\s*\n\s*v\((.*)\);\s*\nend proc;', t)
        if not m:
            raise BadProgram('maple accessor procedure not found')
        parts = split_args(m.group(2))
        a, b = _split_range(parts[-1], '..')
        return dict(out, start=nospace(a), end=nospace(b), placeholders=[nospace(p) for p in parts[:-1]], kvar=m.group(1))
    if lang == 'mathematica':
        m = re.search(r'getsubarray\[(\w+)_\?IntegerQ\] :=\s*\n\s*Module\[\{(\w+)\},(.*?)\]\]\s*\n', t, re.S)
        if not m:
            raise BadProgram('mathematica accessor not found')
        body = m.group(3)
        defs = {a: nospace(b) for a, b in re.findall(r'^\s*(\w+)\s*=\s*(.*?);\s*$', body, re.M)}
        r = re.search(r'v\[\[(.*?)\]\]\s*$', body.strip() + ']]' if not body.strip().endswith(']]') else body.strip())
        r = re.search(r'v\[\[(.*)$', body.strip())
        if not r:
            raise BadProgram('mathematica accessor does not end in v[[...]]')
        rng = r.group(1).rstrip(']')
        a, b = rng.split(';;')
        kv = defs.get(m.group(2), m.group(2))
        s = _subst(_subst(nospace(a), {k: v for k, v in defs.items() if k != m.group(2)}), {m.group(2): kv})
        e = _subst(_subst(nospace(b), {k: v for k, v in defs.items() if k != m.group(2)}), {m.group(2): kv})
        if kv != m.group(1):
            raise BadProgram('mathematica accessor: local index is not the argument')
        return dict(out, start=_strip_parens(s), end=_strip_parens(e), placeholders=[], kvar=m.group(1))
    if lang == 'idl':
        m = re.search(r'IF (.*?) THEN sa=\[\] ELSE sa=v\[(.*)\]\s*$', t, re.M)
        if not m:
            raise BadProgram('idl accessor statement not found')
        parts = split_args(m.group(2))
        a, b = _split_range(parts[-1], ':')
        return dict(out, start=nospace(a), end=nospace(b), placeholders=[nospace(p) for p in parts[:-1]], kvar='k',
                    empty_cond=nospace(m.group(1)), empty_dims=[])
    raise BadProgram(f'no accessor model for {lang}')


def _split_range(s, sep):
    depth = 0
    i = 0
    while i < len(s):
        ch = s[i]
        if ch in '([{':
            depth += 1
        elif ch in ')]}':
            depth -= 1
        elif depth == 0 and s.startswith(sep, i):
            return s[:i], s[i + len(sep):]
        i += 1
    raise BadProgram(f'no range `{sep}` in `{s}`')


def comp(lang, c, k):
    """Address of component c (0 start, 1 end) of index row k in the language."""
    m = MODELS[lang]
    if lang == 'numpymemmap':
        return f'i[{k},{c}]'
    if lang == 'mathematica':
        return f'i[[{k},{c + 1}]]'
    if lang == 'idl':
        return f'i[{c},{k}]'
    if lang in ('R', 'julia'):
        return f'i[{c + 1},{k}]'
    return f'i({c + 1},{k})'


def expected_accessor(lang, k):
    m = MODELS[lang]
    s, e = comp(lang, 0, k), comp(lang, 1, k)
    start = f'{s}+1' if m['origin'] == 1 else s
    if m['inclusive'] and m['origin'] == 0:
        end = f'{e}-1'
    else:
        end = e
    return start, end


def example(lang, text):
    """-> (k in comment, k in statement, operator, position word)"""
    cm = re.search(r'(first|second|third) \(k=(\d+)\) subarray', text)
    if not cm:
        raise BadProgram('example comment `<position> (k=<n>) subarray` not found')
    pos, kc = cm.group(1), int(cm.group(2))
    if lang == 'darr':
        m = re.search(r'^sa\s*(=)\s*a\[(\d+)\]\s*$', text, re.M)
    elif lang == 'idl':
        m = re.search(r'^k\s*(=)\s*(\d+)\s*$', text, re.M)
    elif lang == 'mathematica':
        m = re.search(r'^sa\s*(=)\s*getsubarray\[(\d+)\]\s*$', text, re.M)
    else:
        m = re.search(r'^sa\s*(:=|<-|=)\s*getsubarray\((\d+)\);?\s*$', text, re.M)
    if not m:
        raise BadProgram('example statement binding `sa` not found')
    return kc, int(m.group(2)), m.group(1), pos
