"""String-template abstract interpreter for the read-code generators.

Interprets the AST of darr/readcodearray.py and darr/readcoderaggedarray.py
(nothing of Darr is imported or executed) over abstract inputs: the finite
inputs (numtype, byte order, number of dimensions, path mode, index type, atom
rank, length class) are concrete, extents / paths are opaque holes that render
as «...» tokens.  Every branch condition must evaluate to a concrete boolean;
anything else is Unmodelled (reported as an analysis error, never as a
violation)."""
import ast

HL, HR = '«', '»'


class Unmodelled(Exception):
    pass


class Sym:
    """Symbolic non-negative integer: coef * product(holes)."""
    def __init__(self, factors=(), coef=1, big=None):
        self.factors = tuple(sorted(factors))
        self.coef = coef
        self.big = big          # answer to `> 2147483647` if asked (None = unknown)

    def _mul(self, o):
        if isinstance(o, Sym):
            return Sym(self.factors + o.factors, self.coef * o.coef)
        if isinstance(o, int) and not isinstance(o, bool):
            return Sym(self.factors, self.coef * o)
        return NotImplemented
    __mul__ = _mul
    __rmul__ = _mul

    def text(self):
        parts = ([str(self.coef)] if self.coef != 1 or not self.factors else []) + list(self.factors)
        return '*'.join(parts)

    def __repr__(self):
        return f'{HL}{self.text()}{HR}'
    __str__ = __repr__

    def __format__(self, spec):
        return repr(self)

    def __eq__(self, o):
        return isinstance(o, Sym) and (o.factors, o.coef) == (self.factors, self.coef)

    def __hash__(self):
        return hash((self.factors, self.coef))

    def __gt__(self, o):
        if isinstance(o, int) and o >= 2 ** 31 - 1 and self.big is not None:
            return self.big
        raise Unmodelled(f'comparison of symbolic extent {self!r} with {o!r}')

    def __lt__(self, o):
        raise Unmodelled(f'comparison of symbolic extent {self!r} with {o!r}')
    __ge__ = __le__ = __lt__


class PathV:
    def __init__(self, root, parts=()):
        self.root = root        # '' relative | 'ABS' | 'BASE'
        self.parts = tuple(p for p in parts if p != '')

    def join(self, other):
        if isinstance(other, PathV):
            if other.root:
                return other
            return PathV(self.root, self.parts + other.parts)
        if isinstance(other, str):
            return PathV(self.root, self.parts + tuple(x for x in other.split('/') if x))
        raise Unmodelled(f'path / {other!r}')

    def as_posix(self):
        head = [f'{HL}{self.root}{HR}'] if self.root else []
        return '/'.join(head + list(self.parts)) or '.'

    @property
    def name(self):
        return self.parts[-1] if self.parts else ''

    def __repr__(self):
        return f'PathV({self.as_posix()})'
    __str__ = as_posix

    def __format__(self, spec):
        return self.as_posix()


class Obj:
    """Abstract object: attribute dictionary; missing attribute = Unmodelled."""
    def __init__(self, objname_, **attrs):
        self._name = objname_
        self._attrs = attrs
        self.reads = set()

    def get(self, attr):
        if attr not in self._attrs:
            raise Unmodelled(f'read of unmodelled attribute {self._name}.{attr}')
        self.reads.add(attr)
        return self._attrs[attr]


class BasePathHole:
    def __repr__(self):
        return f'{HL}BASE{HR}'


class _Return(Exception):
    def __init__(self, v):
        self.v = v


class Interp:
    def __init__(self, module, globs):
        """module: srcmodel.Module; globs: extra global bindings."""
        self.module = module
        self.globs = dict(globs)
        self.funcs = {f.name: f.node for f in module.funcs.values()}
        for k, v in module.consts.items():
            self.globs.setdefault(k, v)
        self.steps = 0
        # module-level tables are re-evaluated by this interpreter so that
        # values the literal evaluator could not take (None entries ...) are exact
        for st in module.tree.body:
            if isinstance(st, ast.Assign) and len(st.targets) == 1 and isinstance(st.targets[0], ast.Name):
                nm = st.targets[0].id
                try:
                    self.globs[nm] = self.ev(st.value, {})
                except Unmodelled:
                    pass
                except Exception:
                    pass

    # ---- function calls -------------------------------------------------
    def call(self, name, *args, **kwargs):
        if getattr(self, '_depth', 0) == 0:
            self.steps = 0
        if name not in self.funcs:
            raise Unmodelled(f'function {name} not found in {self.module.relpath}')
        return self.call_node(self.funcs[name], args, kwargs)

    def call_node(self, fn, args, kwargs):
        a = fn.args
        params = [x.arg for x in a.posonlyargs + a.args]
        env = {}
        defaults = a.defaults
        for p, d in zip(params[len(params) - len(defaults):], defaults):
            env[p] = self.ev(d, {})
        for p, d in zip(a.kwonlyargs, a.kw_defaults):
            if d is not None:
                env[p.arg] = self.ev(d, {})
        if len(args) > len(params):
            raise Unmodelled(f'too many positional arguments for {fn.name}')
        for p, v in zip(params, args):
            env[p] = v
        extra = {}
        for k, v in kwargs.items():
            if k in params or k in [x.arg for x in a.kwonlyargs]:
                env[k] = v
            elif a.kwarg is not None:
                extra[k] = v
            else:
                raise Unmodelled(f'{fn.name}() got unexpected keyword {k}')
        if a.kwarg is not None:
            env[a.kwarg.arg] = extra
        missing = [p for p in params if p not in env]
        if missing:
            raise Unmodelled(f'{fn.name}() missing arguments {missing}')
        self._depth = getattr(self, '_depth', 0) + 1
        try:
            self.block(fn.body, env)
        except _Return as r:
            return r.v
        finally:
            self._depth -= 1
        return None

    # ---- statements -------------------------------------------------------
    def block(self, stmts, env):
        for st in stmts:
            self.steps += 1
            if self.steps > 200000:
                raise Unmodelled('step limit')
            self.stmt(st, env)

    def stmt(self, st, env):
        if isinstance(st, ast.Expr):
            if isinstance(st.value, ast.Constant):
                return
            try:
                self.ev(st.value, env)
            except Unmodelled:
                # an expression statement whose value is discarded can influence the generated text only through a
                # local it mutates; calls on things that are not locals (logger.debug, warnings.warn ...) are skipped
                root = st.value.func if isinstance(st.value, ast.Call) else None
                while isinstance(root, (ast.Attribute, ast.Subscript, ast.Call)):
                    root = root.value if not isinstance(root, ast.Call) else root.func
                if isinstance(root, ast.Name) and root.id not in env:
                    return
                raise
        elif isinstance(st, ast.Assert):
            return
        elif isinstance(st, ast.AnnAssign):
            if st.value is not None:
                self.assign(st.target, self.ev(st.value, env), env)
        elif isinstance(st, ast.Assign):
            v = self.ev(st.value, env)
            for t in st.targets:
                self.assign(t, v, env)
        elif isinstance(st, ast.AugAssign):
            cur = self.ev(st.target, env)
            v = self.binop(st.op, cur, self.ev(st.value, env))
            self.assign(st.target, v, env)
        elif isinstance(st, ast.If):
            c = self.truth(self.ev(st.test, env), st.test)
            self.block(st.body if c else st.orelse, env)
        elif isinstance(st, ast.Return):
            raise _Return(self.ev(st.value, env) if st.value is not None else None)
        elif isinstance(st, ast.For):
            it = self.ev(st.iter, env)
            if not isinstance(it, (list, tuple)):
                raise Unmodelled(f'for over {type(it).__name__} at line {st.lineno}')
            for x in it:
                self.assign(st.target, x, env)
                self.block(st.body, env)
        elif isinstance(st, ast.Raise):
            raise Unmodelled(f'generator raises at line {st.lineno}: {ast.unparse(st)[:60]}')
        elif isinstance(st, ast.Pass):
            pass
        else:
            raise Unmodelled(f'statement {type(st).__name__} at line {st.lineno}')

    def assign(self, t, v, env):
        if isinstance(t, ast.Name):
            env[t.id] = v
        elif isinstance(t, (ast.Tuple, ast.List)):
            vs = list(v)
            if len(vs) != len(t.elts):
                raise Unmodelled('unpack length')
            for e, x in zip(t.elts, vs):
                self.assign(e, x, env)
        elif isinstance(t, ast.Subscript):
            c = self.ev(t.value, env)
            c[self.ev(t.slice, env)] = v
        else:
            raise Unmodelled(f'assignment target {type(t).__name__}')

    def truth(self, v, node):
        if isinstance(v, (bool, int, str, tuple, list, dict)) or v is None:
            return bool(v)
        raise Unmodelled(f'branch on non-concrete value `{ast.unparse(node)[:50]}` ({type(v).__name__})')

    # ---- expressions --------------------------------------------------------
    def binop(self, op, l, r):
        try:
            if isinstance(op, ast.Add):
                if isinstance(l, str) and isinstance(r, str) or isinstance(l, (list, tuple)) or isinstance(l, int) and isinstance(r, int):
                    return l + r
            if isinstance(op, ast.Mult):
                return l * r
            if isinstance(op, ast.Sub) and isinstance(l, int) and isinstance(r, int):
                return l - r
            if isinstance(op, ast.Div) and isinstance(l, PathV):
                return l.join(r)
            if isinstance(op, ast.Mod) and isinstance(l, str):
                return l % r
        except Unmodelled:
            raise
        except Exception as e:
            raise Unmodelled(f'binary operation failed: {e}')
        raise Unmodelled(f'binary operation {type(op).__name__} on {type(l).__name__}, {type(r).__name__}')

    def ev(self, e, env):
        if isinstance(e, ast.Constant):
            return e.value
        if isinstance(e, ast.Name):
            if e.id in env:
                return env[e.id]
            if e.id in self.globs:
                return self.globs[e.id]
            if e.id in self.funcs:
                return ('func', e.id)
            if e.id in ('None', 'True', 'False'):
                return {'None': None, 'True': True, 'False': False}[e.id]
            if e.id in ('str', 'int', 'len'):
                return ('builtin', e.id)
            raise Unmodelled(f'unknown name {e.id}')
        if isinstance(e, ast.JoinedStr):
            out = []
            for v in e.values:
                if isinstance(v, ast.Constant):
                    out.append(v.value)
                else:
                    x = self.ev(v.value, env)
                    if v.conversion not in (-1, 115, 114):
                        raise Unmodelled('f-string conversion')
                    if v.format_spec is not None:
                        raise Unmodelled('f-string format spec')
                    out.append(self.tostr(x))
            return ''.join(out)
        if isinstance(e, (ast.Tuple, ast.List)):
            out = []
            for x in e.elts:
                if isinstance(x, ast.Starred):
                    out.extend(self.ev(x.value, env))
                else:
                    out.append(self.ev(x, env))
            return tuple(out) if isinstance(e, ast.Tuple) else out
        if isinstance(e, ast.GeneratorExp):
            return self.ev(ast.copy_location(ast.ListComp(elt=e.elt, generators=e.generators), e), env)
        if isinstance(e, ast.Dict):
            return {self.ev(k, env): self.ev(v, env) for k, v in zip(e.keys, e.values)}
        if isinstance(e, ast.BinOp):
            return self.binop(e.op, self.ev(e.left, env), self.ev(e.right, env))
        if isinstance(e, ast.UnaryOp):
            v = self.ev(e.operand, env)
            if isinstance(e.op, ast.Not):
                return not self.truth(v, e.operand)
            if isinstance(e.op, ast.USub) and isinstance(v, int):
                return -v
            raise Unmodelled('unary op')
        if isinstance(e, ast.BoolOp):
            if isinstance(e.op, ast.And):
                v = True
                for x in e.values:
                    v = self.ev(x, env)
                    if not self.truth(v, x):
                        return v
                return v
            v = False
            for x in e.values:
                v = self.ev(x, env)
                if self.truth(v, x):
                    return v
            return v
        if isinstance(e, ast.Compare):
            l = self.ev(e.left, env)
            for op, c in zip(e.ops, e.comparators):
                r = self.ev(c, env)
                ok = self.compare(op, l, r)
                if not ok:
                    return False
                l = r
            return True
        if isinstance(e, ast.IfExp):
            return self.ev(e.body, env) if self.truth(self.ev(e.test, env), e.test) else self.ev(e.orelse, env)
        if isinstance(e, ast.Subscript):
            c = self.ev(e.value, env)
            if isinstance(e.slice, ast.Slice):
                lo = self.ev(e.slice.lower, env) if e.slice.lower is not None else None
                hi = self.ev(e.slice.upper, env) if e.slice.upper is not None else None
                st = self.ev(e.slice.step, env) if e.slice.step is not None else None
                if not isinstance(c, (str, tuple, list)):
                    raise Unmodelled(f'slice of {type(c).__name__}')
                return c[slice(lo, hi, st)]
            k = self.ev(e.slice, env)
            if isinstance(c, ('x').__class__) and isinstance(k, int):
                return c[k]
            if isinstance(c, (tuple, list)):
                if not isinstance(k, int):
                    raise Unmodelled('non-integer index')
                return c[k]
            if isinstance(c, dict):
                if k not in c:
                    raise Unmodelled(f'key {k!r} not in table')
                return c[k]
            raise Unmodelled(f'subscript of {type(c).__name__}')
        if isinstance(e, ast.Attribute):
            v = self.ev(e.value, env)
            return self.getattr(v, e.attr)
        if isinstance(e, ast.Call):
            return self.callexpr(e, env)
        if isinstance(e, ast.ListComp):
            if len(e.generators) != 1:
                raise Unmodelled('list comprehension shape')
            g = e.generators[0]
            it = self.ev(g.iter, env)
            out = []
            for x in it:
                env2 = dict(env)
                self.assign(g.target, x, env2)
                if all(self.truth(self.ev(c, env2), c) for c in g.ifs):
                    out.append(self.ev(e.elt, env2))
            return out
        raise Unmodelled(f'expression {type(e).__name__} at line {getattr(e, "lineno", "?")}')

    def compare(self, op, l, r):
        try:
            if isinstance(op, ast.Eq):
                return l == r
            if isinstance(op, ast.NotEq):
                return l != r
            if isinstance(op, ast.Is):
                return l is r
            if isinstance(op, ast.IsNot):
                return l is not r
            if isinstance(op, ast.In):
                return l in r
            if isinstance(op, ast.NotIn):
                return l not in r
            if isinstance(op, ast.Gt):
                return l > r
            if isinstance(op, ast.GtE):
                return l >= r
            if isinstance(op, ast.Lt):
                return l < r
            if isinstance(op, ast.LtE):
                return l <= r
        except Unmodelled:
            raise
        except Exception as e:
            raise Unmodelled(f'comparison failed: {e}')
        raise Unmodelled('comparison operator')

    def tostr(self, x):
        if isinstance(x, (str, int, Sym, PathV)) or x is None:
            return str(x)
        if isinstance(x, (tuple, list)):
            return repr(x) if all(isinstance(y, (int, Sym, str)) for y in x) else self._unm(x)
        if isinstance(x, BasePathHole):
            return repr(x)
        return self._unm(x)

    def _unm(self, x):
        raise Unmodelled(f'str() of {type(x).__name__}')

    def getattr(self, v, attr):
        if isinstance(v, Obj):
            return v.get(attr)
        if isinstance(v, PathV):
            if attr == 'name':
                return v.name
            return ('method', v, attr)
        if isinstance(v, (str, list, tuple, dict)):
            return ('method', v, attr)
        if isinstance(v, tuple) and v and v[0] == 'module':
            return ('modfunc', v[1], attr)
        if isinstance(v, ModRef):
            return ('modfunc', v, attr)
        raise Unmodelled(f'attribute {attr} of {type(v).__name__}')

    def callexpr(self, e, env):
        f = e.func
        args = []
        for a in e.args:
            if isinstance(a, ast.Starred):
                args.extend(self.ev(a.value, env))
            else:
                args.append(self.ev(a, env))
        kwargs = {}
        for k in e.keywords:
            if k.arg is None:
                kwargs.update(self.ev(k.value, env))
            else:
                kwargs[k.arg] = self.ev(k.value, env)
        # builtins / models by name
        if isinstance(f, ast.Name) and f.id not in env:
            n = f.id
            if n in self.funcs:
                return self.call(n, *args, **kwargs)
            if n == 'len':
                x = args[0]
                if isinstance(x, Obj):
                    return x.get('__len__')
                return len(x)
            if n == 'str':
                return self.tostr(args[0])
            if n == 'list':
                return list(args[0])
            if n == 'tuple':
                return tuple(args[0])
            if n == 'zip':
                return list(zip(*args))
            if n == 'map' and len(args) == 2:
                fn_ = args[0]
                if fn_ == ('builtin', 'str') or (isinstance(e.args[0], ast.Name) and e.args[0].id == 'str'):
                    return [self.tostr(x) for x in args[1]]
                if isinstance(fn_, tuple) and fn_ and fn_[0] == 'func':
                    return [self.call(fn_[1], x) for x in args[1]]
                raise Unmodelled('map() with an unmodelled function')
            if n == 'reversed':
                return list(args[0])[::-1]
            if n == 'enumerate':
                return list(enumerate(*args))
            if n == 'sorted' and len(args) == 1 and not kwargs:
                return sorted(args[0])
            if n == 'int' and len(args) == 1 and isinstance(args[0], Sym):
                return args[0]            # an extent is an integer already
            if n in ('int', 'bool') and len(args) == 1 and isinstance(args[0], (int, bool)):
                return {'int': int, 'bool': bool}[n](args[0])
            if n in ('max', 'min', 'sum', 'abs', 'any', 'all') and not kwargs:
                flat = list(args[0]) if len(args) == 1 and isinstance(args[0], (list, tuple)) else list(args)
                if n == 'abs' and len(args) == 1 and isinstance(args[0], int):
                    return abs(args[0])
                if flat and all(isinstance(a, (int, bool)) and not isinstance(a, Sym) for a in flat) or \
                        (flat and all(isinstance(a, str) for a in flat) and n in ('max', 'min')):
                    return {'max': max, 'min': min, 'sum': sum, 'any': any, 'all': all}[n](flat)
                raise Unmodelled(f'{n}() of non-constant values')
            if n == 'repr' and len(args) == 1 and isinstance(args[0], (str, int)):
                return repr(args[0])
            if n == 'isinstance':
                raise Unmodelled('isinstance in a generator')
            if n == 'range' and all(isinstance(a, int) for a in args):
                return list(range(*args))
            if n == 'Path':
                x = args[0]
                if isinstance(x, PathV):
                    return x
                if isinstance(x, BasePathHole):
                    return PathV('BASE')
                if isinstance(x, str):
                    return PathV('', tuple(p for p in x.split('/') if p))
                raise Unmodelled(f'Path({x!r})')
            if n == 'wrap':
                return args[0]
            if n in self.globs and isinstance(self.globs[n], tuple) and self.globs[n][0] == 'func':
                return self.call(self.globs[n][1], *args, **kwargs)
            raise Unmodelled(f'call of {n}')
        fv = self.ev(f, env)
        if isinstance(fv, tuple) and fv and fv[0] == 'func':
            return self.call(fv[1], *args, **kwargs)
        if isinstance(fv, tuple) and fv and fv[0] == 'modfunc':
            mod = fv[1]
            return mod.callattr(fv[2], args, kwargs)
        if isinstance(fv, tuple) and fv and fv[0] == 'method':
            recv, m = fv[1], fv[2]
            if isinstance(recv, PathV):
                if m in ('absolute', 'resolve'):
                    return PathV('ABS', recv.parts) if not recv.root or recv.root == 'ABS' else recv
                if m == 'as_posix':
                    return recv.as_posix()
                if m == 'joinpath':
                    out = recv
                    for a_ in args:
                        out = out.join(a_)
                    return out
                if m == '__str__':
                    return recv.as_posix()
                raise Unmodelled(f'Path.{m}')
            if isinstance(recv, str):
                if m in ('startswith', 'endswith', 'join', 'splitlines', 'format', 'lstrip', 'rstrip', 'strip',
                         'upper', 'lower', 'replace', 'split', 'removesuffix', 'removeprefix', 'ljust', 'rjust',
                         'center', 'zfill', 'count', 'find', 'index', 'title', 'capitalize', 'expandtabs', 'rsplit',
                         'partition', 'rpartition', 'isdigit'):
                    if m == 'join':
                        return recv.join(self.tostr(x) for x in args[0])
                    return getattr(recv, m)(*args, **kwargs)
                raise Unmodelled(f'str.{m}')
            if isinstance(recv, dict) and m in ('keys', 'get', 'items', 'values'):
                r = getattr(recv, m)(*args)
                return list(r) if m != 'get' else r
            if isinstance(recv, list) and m == 'append':
                recv.append(args[0])
                return None
            raise Unmodelled(f'method {m} of {type(recv).__name__}')
        raise Unmodelled(f'call of `{ast.unparse(f)[:40]}`')


class ModRef:
    """Reference to a modelled module (np, or another interpreted module)."""
    def __init__(self, name, interp=None):
        self.name = name
        self.interp = interp

    def callattr(self, attr, args, kwargs):
        if self.name == 'np':
            if attr in ('prod', 'product'):
                out = 1
                for x in args[0]:
                    out = out * x if not isinstance(out, int) or not isinstance(x, Sym) else x * out
                return out
            if attr == 'dtype' and args and isinstance(args[0], str):
                codes = {'int8': 'i1', 'int16': 'i2', 'int32': 'i4', 'int64': 'i8', 'uint8': 'u1', 'uint16': 'u2',
                         'uint32': 'u4', 'uint64': 'u8', 'float16': 'f2', 'float32': 'f4', 'float64': 'f8',
                         'complex64': 'c8', 'complex128': 'c16'}
                if args[0] in codes:
                    c = codes[args[0]]
                    # the byte order of np.dtype(name) is the *host's*: not a property of the stored array
                    return Obj(f'np.dtype({args[0]!r})', name=args[0], str=f'{HL}hostorder{HR}{c}', itemsize=int(c[1:]),
                               kind=c[0], byteorder='=')
            raise Unmodelled(f'np.{attr}')
        if self.interp is not None:
            return self.interp.call(attr, *args, **kwargs)
        raise Unmodelled(f'{self.name}.{attr}')
